#!/usr/bin/env python3
"""Renders the known-findings file(s) as the markdown table of DESIGN.md section 3 (stdout).

usage: bin/mkfindings.py [--short N]      N = maximum characters of the description (default 330)
"""
import glob
import json
import os
import re
import sys

HOME = os.path.dirname(os.path.dirname(os.path.abspath(__file__)))


def load():
    out = []
    files = [os.path.join(HOME, 'known_findings.json')]
    for f in files:
        if not os.path.exists(f):
            continue
        for e in json.load(open(f)).get('findings', []):
            out.append(e)
    return out


def clip(s, n):
    s = re.sub(r'\s+', ' ', s).strip().replace('|', '\\|')
    return s if len(s) <= n else s[:n - 1].rstrip() + '…'


def main():
    n = 330
    if '--short' in sys.argv:
        n = int(sys.argv[sys.argv.index('--short') + 1])
    es = load()
    es.sort(key=lambda e: (e['property'], 0 if e['status'] == 'fixed' else 1))
    fixed = [e for e in es if e['status'] == 'fixed']
    known = [e for e in es if e['status'] != 'fixed']
    commits = sorted({e.get('commit', '?') for e in fixed})
    print(f'{len(fixed)} entries repaired by {len(commits)} distinct `fix:` commits, {len(known)} entries recorded as known findings.\n')
    print('| property | status | commit / signature | what failed | reproducer |')
    print('|---|---|---|---|---|')
    for e in es:
        if e['status'] == 'fixed':
            key = '`' + e.get('commit', '?') + '`'
        else:
            key = '`' + e.get('signature', '?').replace('|', '\\|') + '`'
        rep = e.get('replay', '')
        print(f"| {e['property']} | {e['status']} | {key} | {clip(e['what'], n)} | {('`' + rep + '`') if rep else ''} |")


if __name__ == '__main__':
    main()

"""Texts for MANIFEST.json (see bin/mkmanifest.py)."""

HOOK_COMMITS = []
NOTES = ("Every check is `bin/check <id> <tier>`: it rebuilds libCellML from /repo's working tree with the repository's own CMake "
         "(clang ASan+UBSan, -DLIBCELLML_VERIF), rebuilds the harness, runs generated-input search against an explicit oracle, replays and "
         "triages failures, writes evidence/<id>.json. Known findings live in known_findings.json; see DESIGN.md.")
ENGINES = [
    {"name": "rapidcheck-tape", "path": "kit/main.cpp", "serves_properties": ["C02"], "kind_free_text": "rapidcheck generates choice tapes (vector<uint32>) consumed by imperative generators; rapidcheck + own reducer shrink the tape; replay file = tape"},
]
NOT_CLAIMED = {}
CLAIMS = {
    "C02": {
        "engine": "rapidcheck-tape",
        "technique": "property-based testing: generated valid and hostile-text models, print/parse round trip against an independent canonical dump",
        "text": "Random exploration (tens of thousands of generated models per run, all features of the statement) of the print->parse round trip with an oracle that shares no code with Printer/Parser: own dump through public getters, own MathML canonicaliser, libxml2 well-formedness check. Finds content loss, escaping and issue-reporting defects; cannot show absence.",
        "note": "Trusts libxml2 (same version the library links), the harness's dump/canonicaliser and the validity of the model generator (validator consulted lazily before a validator-only claim is judged).",
    },
}

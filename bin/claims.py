"""Texts for MANIFEST.json (see bin/mkmanifest.py)."""

HOOK_COMMITS = []
NOTES = ("Every check is `bin/check <id> <tier>`: it rebuilds libCellML from /repo's working tree with the repository's own CMake "
         "(clang ASan+UBSan, -DLIBCELLML_VERIF), rebuilds the harness, runs generated-input search against an explicit oracle, replays and "
         "triages failures, writes evidence/<id>.json. Known findings live in known_findings.json; see DESIGN.md.")
ENGINES = [
    {"name": "rapidcheck-tape", "path": "kit/main.cpp", "serves_properties": ["C02", "C03", "C05", "C06", "C09", "C10", "C11", "C12", "C13", "C14", "C15", "C16", "C17", "C18", "C19", "C20", "C04", "C07", "C08"],
     "kind_free_text": "rapidcheck generates choice tapes (vector<uint32>) consumed by imperative generators (kit/gen.cpp, kit/gt.cpp, property-specific ones); rapidcheck and an own reducer shrink the tape; replay file = tape (bin/replay)"},
    {"name": "exhaustive-tape", "path": "kit/main.cpp (--mode ex), kit/tape.h ExhaustiveSrc", "serves_properties": ["C03", "C07", "C09", "C16"],
     "kind_free_text": "depth-first enumeration of every choice sequence of a bounded generator (the same generator code as the random driver)"},
    {"name": "libfuzzer-asan", "path": "kit/fuzz_main.cpp, bin/fuzzstage.py", "serves_properties": ["C01"],
     "kind_free_text": "libFuzzer (clang 14, ASan+UBSan) campaigns with the semantic oracle inside the target; byte-level and tape-decoded structure-aware targets; artifacts triaged by signature"},
]
NOT_CLAIMED = {}
import plans as _plans
CLAIMS = _plans.CLAIMS

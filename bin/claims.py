"""Texts for MANIFEST.json (see bin/mkmanifest.py)."""

HOOK_COMMITS = []
NOTES = ("Every check is `bin/check <id> <tier>`: it rebuilds libCellML from /repo's working tree with the repository's own CMake "
         "(clang ASan+UBSan, -DLIBCELLML_VERIF), rebuilds the harness, runs generated-input search against an explicit oracle, replays and "
         "triages failures, writes evidence/<id>.json. Known findings live in known_findings.json; see DESIGN.md.")
ENGINES = [
    {"name": "rapidcheck-tape", "path": "kit/main.cpp", "serves_properties": ["C02"], "kind_free_text": "rapidcheck generates choice tapes (vector<uint32>) consumed by imperative generators; rapidcheck + own reducer shrink the tape; replay file = tape"},
]
NOT_CLAIMED = {}
import plans as _plans
CLAIMS = _plans.CLAIMS

import json
import os
import subprocess
import sys

_HERE = os.path.dirname(os.path.dirname(os.path.dirname(os.path.abspath(__file__))))


def _enumerations(runner, stage):
    """Regenerate kit/c15_enums.inc (X-macro list of Issue::ReferenceRule, Issue::Level and CellmlElementType) from the headers of the
    repository under test, BEFORE the first build of this check: the harnesses iterate over / name every enumerator through this file and
    static_assert that value == position, so an added, removed or renamed enumerator is picked up (or stops the build) automatically."""
    repo = runner.env.get("VERIF_REPO_ROOT", "/repo")
    out = os.path.join(_HERE, "kit", "c15_enums.inc")
    r = subprocess.run([sys.executable, os.path.join(_HERE, "bin", "c15_enums.py"), repo, "--write", out], stdout=subprocess.PIPE, stderr=subprocess.PIPE, text=True)
    if r.returncode != 0:
        sys.stderr.write(r.stdout + r.stderr)
        print("CHECK-BROKEN property=C15 cannot extract the enumerations from %s" % repo)
        sys.exit(2)
    words = r.stdout.split()
    runner.notes.append("enumerator lists %s from %s/src/api/libcellml/{issue.h,enums.h}: %s ReferenceRule, %s Level, %s CellmlElementType" % (words[0], repo, words[1], words[2], words[3]))


def _rule_coverage(runner, stage):
    """Which ReferenceRule values did the services of the mixed stream actually emit (purely public route), which only the enumeration sweep covered."""
    hits = {}
    for p in runner.parts:
        try:
            d = json.load(open(p))
        except Exception:
            continue
        for k, v in d.get("x_rule_hits", {}).items():
            hits[k] = hits.get(k, 0) + v
    if not hits:
        return
    zero = sorted(k for k, v in hits.items() if v == 0)
    runner.notes.append("ReferenceRule values provoked through service calls in this run: %d of %d; not provoked (table lookup covered by the C15_enum sweep only): %s" % (len(hits) - len(zero), len(hits), ", ".join(zero)))


PLAN = {
    "level": "exploration",
    "quick": [
        custom("C15:enumerations", _enumerations),
        replays("C15"), replays("C15_enum"),
        tape("C15_enum", 0, mode="ex", name="C15_enum:all-enumerators"),
        tape("C15", 14000, size=300),
        custom("C15:rule-coverage", _rule_coverage),
    ],
    "thorough": [
        custom("C15:enumerations", _enumerations),
        replays("C15"), replays("C15_enum"),
        tape("C15_enum", 0, mode="ex", name="C15_enum:all-enumerators"),
        tape("C15", 400000, size=400),
        custom("C15:rule-coverage", _rule_coverage),
    ],
    "class_floors": {
        "service:Parser": 0.08, "service:Validator": 0.08, "service:Analyser": 0.10, "service:Importer": 0.12, "service:Printer": 0.02, "service:Annotator": 0.08,
        "mixed-levels": 0.05, "deletion-path": 0.04, "deletion-path:message-and-errors": 0.008, "deletion-path:file=1.x": 0.02, "deletion-path:file=2.0": 0.02, "deletion-path:errors>=3": 0.012,
        "deletion-path:related-error": 0.015, "deletion-path:unrelated-error": 0.025, "Analyser:mixed-levels": 0.03, "Parser:mixed-levels": 0.008, "Importer:mixed-levels": 0.004,
        "Importer:strict": 0.05, "Importer:permissive": 0.05, "Importer:1.x-file-permissive": 0.008, "failure:Parser": 0.01, "failure:Importer": 0.08, "failure:Analyser": 0.05, "failure:Annotator": 0.05,
        "Analyser:type=underconstrained": 0.01, "Analyser:type=overconstrained": 0.003, "Analyser:type=unsuitably_constrained": 0.002, "Analyser:type=invalid": 0.03,
        "Printer:logged": 0.01, "item:MATH": 0.01, "item:UNIT": 0.005, "item:RESET": 0.01,
    },
    "replay_binary": "C15",
}
CLAIM = {
    "engine": "rapidcheck-tape + exhaustive enumeration of the ReferenceRule / CellmlElementType enumerators",
    "technique": "property-based testing of a mixed stream of service calls (six services, faulted inputs, import fault scenarios with real files) with a structural invariant on the issue list after every call and a 'failure is explained' rule, plus an exhaustive sweep over every enumerator listed from the headers at build time",
    "text": "Each random case drives one service through a short history: Parser (almost-valid 2.0, CellML 1.x, garbage; strict and permissive on the same parser), Validator (valid generated models with 1-3 of ~35 spec-level faults: identifiers, duplicate names/ids, dangling references, interfaces, broken MathML in components and resets, cyclic units, imports), "
            "Analyser (12 constraint variants of ground-truth models: dropped equation / initial value, second definition, several or initialised VOI, non-first-order ODE, non-equality, unlinked units, validation failure, null model; units-mismatch equations; external variables on VOI / other model / non-primary / null), "
            "Importer strict and permissive (missing files, base path in a missing directory, in-memory library, files that are empty / not XML / not CellML / CellML 1.x / carry related and unrelated parser errors = the removeError path, nested imports and cycles, null model, reuse), Printer (broken math in components and resets), "
            "Annotator (no / null / destroyed model, unknown, duplicate and wrong-type identifiers, null / inconsistent / foreign items). After EVERY call: issueCount = errors+warnings+messages, per-level accessors enumerate exactly the issues of their level in order, indices at and far beyond the counts give null, "
            "description non-empty, heading/url retrievable, the item answers through exactly the accessor documented for its type; a null / false / empty / failing-type result requires a non-empty issue list. C15_enum enumerates all 132 ReferenceRule and 15 CellmlElementType enumerators (list generated from issue.h / enums.h before every build). "
            "Exploration: finds forgotten addIssue calls, misaligned level indices, missing table rows and mistyped items on the paths generated; cannot show absence on paths it does not generate.",
    "note": "Rules no service emits are reachable only by re-labelling a real issue through src/issue_p.h (C15_enum; the evidence notes list which rules the public stream provoked). MATH items have no public accessor (component() is documented for COMPONENT only): the oracle there is 'no accessor answers'. "
            "assignAllIds()/assignIds() returning false is a failure only without a model. Trusts the kit's model generators and XML writer; does not judge whether the reported issues are the right ones (C04/C05/C07).",
}

PLAN = {
    "level": "exploration",
    "quick": [replays("C13"), tape("C13", 120000, size=400)],
    "thorough": [replays("C13"), tape("C13", 1500000, size=500)],
    "class_floors": {"x:id>assignAllIds": 0.03, "x:id>assignIds": 0.03, "x:id>assignId": 0.03, "x:add>assignAllIds": 0.005, "x:add>assignIds": 0.01, "x:remove>assignIds": 0.003,
                     "x:equiv>assignId": 0.0005, "pre-ids:auto-shaped": 0.2, "pre-ids:has-duplicates": 0.1, "printer-leg:new-ids": 0.1, "a:assignId:map_variables": 0.002,
                     "a:assignId:connection": 0.002, "a:assignIds:unit": 0.01, "a:clearAllIds": 0.05, "a:lookups": 0.05, "imports-shared-allowed": 0.05},
}
CLAIM = {
    "engine": "rapidcheck-tape",
    "technique": "property-based testing of call histories (stateful): generated models with none/unique/duplicated/auto-shaped ids, histories of annotator calls interleaved with API edits, judged against a reference id index (independent traversal) and, for the printer, ids collected from the document with libxml2",
    "text": "Random exploration (tens of thousands of model x history pairs per run; every assign entry point, every CellmlElementType, every assignId overload incl. pairs that are no item, 18 edit kinds incl. partially labelled connections and ids inside MathML) of identifier assignment. Each assign call is bracketed by two independent traversals of the model: completeness, preservation, freshness against the pre-call traversal, distinctness, item(id) identity, and ids()/duplicateIds()/itemCount()/items() against the traversal; printModel(model, true) is checked on the document text. Finds stale-cache and index defects; cannot show absence.",
    "note": "Trusts the harness traversal (public getters only) and libxml2. Connections whose variable pairs hold two different non-empty connection ids are discarded as ambiguous; MathML ids are reserved ids (must not be repeated or changed) but are not expected from the lookups.",
}

PLAN = {
    "level": "exploration",
    "quick": [replays("C14"), tape("C14", 10000, size=450)],
    "thorough": [replays("C14"), tape("C14", 200000, size=500)],
    "class_floors": {
        "cellml-1.0": 0.2, "cellml-1.1": 0.2, "encapsulation-group": 0.2, "component-level-units": 0.1,
        "public-before-private": 0.05, "private-before-public": 0.05, "math-with-units": 0.1,
        "cellml-ns-on-math": 0.02, "cellml-ns-on-model": 0.02, "cellml-ns-on-component": 0.02, "cellml-ns-on-cn": 0.02,
        "cmeta-id": 0.1, "old-spelling": 0.1, "extras": 0.1, "import": 0.03, "connection": 0.1,
        "special:explicit-none": 0.02, "special:spelling-in-math": 0.005, "special:split-groups": 0.01, "special:deep-extras": 0.02,
        "special:math-element-id": 0.01, "special:mathml-ns-on-ancestor": 0.01, "special:group-connection-id": 0.01, "special:split-trees": 0.005, "special:scoped-units-copies": 0.005,
        "mathml-prefixed": 0.03, "cellml-elements-prefixed": 0.1, "cmeta-id-in-math": 0.05, "cmeta-declared-on-model-only": 0.02,
        "validator-accepts-original": 0.05,
        "reuse-subcase": 0.15, "reuse:second-is-1.x": 0.07, "reuse:second-is-2.0": 0.03, "reuse:first-has-component-level-units": 0.03,
    },
}
CLAIM = {
    "engine": "rapidcheck-tape",
    "technique": "property-based testing: generated valid models rewritten to CellML 1.0/1.1 by an independent writer, permissive parse compared with the API-built 2.0 model through an independent canonical dump (translation round trip), plus issue-level, strict-refusal and validator oracles",
    "text": "Random exploration (ten thousand generated matched 1.x/2.0 pairs per quick run) of the permissive transformation: namespaces 1.0 and 1.1, encapsulation groups, map_components in both orders, public/private interface attributes in both orders, units declared inside components, cmeta:id, liter/meter, cellml:units bound to the 1.x namespace on math / model / component / cn under several prefixes, RDF and extension content, permuted attributes and children. The oracle shares no code with the parser (own writer, own dump through public getters, own MathML canonicaliser, libxml2 self-check of the writer). Finds content loss, wrong interface merging, wrong issue levels, namespaces left behind and strict-mode acceptance; cannot show absence.",
    "note": "Trusts libxml2 (same version the library links), the harness's writer/dump/canonicaliser and the generator's validity (validator consulted on 20 % of cases). Nine input classes that isolate findings (explicit \"none\", liter/meter on cn, several encapsulation groups, sibling component_ref trees, RDF/extension content below units/connection/group/import, cmeta:id on math, MathML namespace on an ancestor, ids on group/connection, component-scoped copies of units) are generated separately so that they cannot mask the main class.",
}

PLAN = {
    "level": "exploration",
    "quick": [replays("C08"), tape("C08", 12000, size=300)],
    "thorough": [replays("C08"), tape("C08", 120000, size=400, worker_timeout=4 * 3600)],
    "class_floors": {"has:compatible-scaled-pair-in-regime": 0.1, "has:pair-outside-exp1-regime": 0.1, "imported-units": 0.1, "user-base-unit": 0.3,
                     "depth>=3": 0.08, "consumer:analyser": 0.2, "consumer:flattened": 0.01, "metamorphic:child-permutation": 0.05,
                     "metamorphic:import-indirection": 0.03, "has:undefined": 0.05, "fractional-exponents": 0.1,
                     "parentless-undefined-units": 0.05, "has:imported-base-unit-alias-pair": 0.005},
}
CLAIM = {
    "engine": "rapidcheck-tape",
    "technique": "property-based testing: generated acyclic units worlds (standard/user base units, prefixes, exponents, multipliers, nested and imported definitions), judged by a reference reduction written from the CellML 2.0 text, algebraic laws on the full pair/triple matrices, metamorphic relations and a differential comparison Units vs Validator vs Analyser/Generator",
    "text": "Random exploration (thousands of generated units worlds per run; every ordered pair and triple of each world, ~170 pairs per world) of Units::compatible / scalingFactor / equivalent against an independent base-exponent and SI-scale reduction (vp::reduceUnits), of the equivalence-relation and cocycle laws on the library's own answers, of invariance under child permutation, {a^1} wrapping and import indirection, and of the consumers: the Validator's connection verdict and 10^k hint, the factor in the Analyser's equation AST and in the generated C statement, and the Analyser's units warning. Finds wrong reductions, wrong scales and disagreements between the three implementations; cannot show absence.",
    "note": "Trusts the reference reduction and its SI table (typed in independently of src/utilities.h), exact binary exponents (no tolerance question), 1e-9 relative tolerance on factors. Outside the exponent-1 regime only laws and mutual agreement are claimed; consumer comparisons there are excluded by construction (counted) except in 6% 'probe' cases that keep the known disagreement reproducible. Imported-units consumers are judged on the flattened model.",
}

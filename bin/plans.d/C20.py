PLAN = {
    "level": "exploration",
    "quick": [replays("C20"), tape("C20", 1200, size=600)],
    "thorough": [replays("C20"), tape("C20", 15000, size=700)],
    "class_floors": {"executed": 0.5, "ode": 0.12, "U:subset-of-S": 0.1, "special:voi": 0.02, "special:non-primary": 0.04, "special:duplicate": 0.04, "special:foreign": 0.04,
                     "marked:state": 0.08, "marked:nla_unknown": 0.04, "marked:algebraic": 0.05, "marked:computed_constant": 0.1, "marked:constant": 0.2, "dep-on:external": 0.1, "dep-on:algebraic": 0.02,
                     "stale-order": 0.1, "declared-dep-on-unmarked-state": 0.1, "state-based-only-through-declared-dependency(feeds-a-rate)": 0.025,
                     "stale-order+state-based-only-through-declared-dependency": 0.02,
                     "shape-marked:initial-value-chain": 0.03, "shape-marked:nla-parameter": 0.02, "shape-marked:rate-read": 0.005,
                     "stale-order+rate-needs-consumer-of-external-without-state-dependence": 0.01, "dependency-declared-on-second-object-of-class": 0.01,
                     "nla-system-pruned-of-an-external-unknown": 0.02, "constant-initialised-by-external": 0.015},
}
CLAIM = {
    "engine": "rapidcheck-tape",
    "technique": "property-based testing against a reference model: generated ground-truth models and under-constrained variants, random external markings with declared dependencies, differential comparison of the analysis with and without externals, generated C and Python executed with a recording callback and compared with a re-evaluation of the ground truth",
    "text": "Random exploration of (model, set of removed definitions, set of markings incl. VOI / non-primary / duplicate / foreign, declared dependencies). Oracles: exactly the primary variables of the marked classes are EXTERNAL with one placeholder equation; classes that do not depend on a marked class keep type, equation types and primary variable; the model is valid and of the predicted type when every unknown is marked; messages match the special markings; at every callback invocation the declared dependencies already hold their reference values and external entries hold only callback returns (entries are reset to NaN between methods); all other array entries equal the reference evaluation with the externals bound to the harness-chosen values; C and Python agree. Finds wrong sets / types / messages, dropped or mis-ordered dependencies and wrong values for the generated cases; cannot show absence.",
    "note": "Trusts the ground-truth generator and evaluator (kit/gt, kit/expr, kit/c20_ref), cc and python3. Declared dependency cycles, NLA systems of which only some unknowns are marked and variants the analyser still reads as valid are excluded (counted). Ordering against an NLA unknown is not observable (unknowns are pre-loaded with the solution). Six listed findings are matched by narrow signatures (known_findings.json).",
}

PLAN = {
    "level": "exploration",
    "quick": [replays("C10"), tape("C10", 160000, size=600)],
    "thorough": [replays("C10"), tape("C10", 2000000, size=600)],
    "class_floors": {"top:model": 0.08, "top:component": 0.08, "top:variable": 0.04, "top:units": 0.05, "top:reset": 0.015, "top:import_source": 0.02,
                     "permuted-inside": 0.1, "irrelevant:equivalence-edit": 0.02, "irrelevant:outside-the-entity": 0.02, "depth:2": 0.05, "probe-known": 0.02,
                     "local-import-reference": 0.1, "mut:comp.local-import-ref": 0.02, "mut:units.local-import-ref": 0.01, "mut:comp.import-source-removed": 0.002},
}
CLAIM = {
    "engine": "rapidcheck-tape",
    "technique": "property-based metamorphic testing: copy / child permutation / single catalogue mutation of generated models, every pair judged in both directions against a reference model of equality",
    "text": "Random exploration of pairs and triples of entities (all six types) built from one generated spec and from copies of it carrying a permutation and at most one mutation per step (every attribute and child kind of the statement, any depth, plus edits that must not matter: equivalences, parents, siblings). The oracle is a reference equality computed from the spec alone, so symmetry, detection of every covered change, child-count sensitivity and transitivity are all decided per pair. Finds attributes equals() forgets, asymmetric matching and multiplicity errors; cannot show absence.",
    "note": "Trusts the spec->API builder (kit/spec.cpp) and the reference equality (kit/c10_specmut.cpp); pairs that fall under the two listed findings are asserted in ~4% of the cases and excluded otherwise.",
}

import json
import os
import re
import time


def _sharded_catalogue(runner, stage):
    """Bounded-exhaustive tier, split over `shards` processes. The C07 binary decodes --bound as
    maxN + 10 * orderMode + 100 * shard + 10000 * shards (maxN: library files, orderMode 1: fault-first scenarios only, 0: both orders);
    a shard enumerates the choice sequences whose first branching choice (number of files x main import kind x shape of f1) is its own.
    `exhaustive_complete` is reported only when every shard enumerated its part completely."""
    shards = stage.get("shards", 16)
    t_start = time.time()
    binary = stage.get("binary", "C07")
    hdir = runner.build("asan", [binary])
    exe = os.path.join(hdir, binary)
    procs = []
    for sh in range(shards):
        st = dict(stage)
        st["binary"] = binary
        st["bound"] = stage["maxn"] + 10 * stage["order_mode"] + 100 * sh + 10000 * shards
        st["case_timeout"] = stage.get("case_timeout", 900)
        p = runner.spawn_worker(exe, st, "ex", runner.seed, 0, sh, 0)
        p["st"] = st
        procs.append(p)
    parts = [p["part"] for p in procs]
    while procs:
        time.sleep(0.05)
        for p in list(procs):
            rc = p["proc"].poll()
            if rc is None:
                if time.time() - p["t0"] > stage.get("worker_timeout", 3600):
                    p["proc"].kill()
                    runner.notes.append("shard %d exceeded the worker time limit; the enumeration is incomplete" % p["w"])
                    procs.remove(p)
                    runner.collect_part(p["part"])
                continue
            procs.remove(p)
            def _text(stream, path):
                # bin/check redirects the workers' output to files (older versions: pipes)
                if stream is not None:
                    return stream.read()
                try:
                    return open(path, errors="replace").read()
                except OSError:
                    return ""
            out = _text(p["proc"].stdout, p["part"] + ".stdout")
            err = _text(p["proc"].stderr, p["part"] + ".stderr")
            runner.collect_part(p["part"])
            if rc == 0:
                continue
            if rc == 10:
                m = re.search(r"VP-FAIL property=\S+ sig=(.*) replay=(\S+)", out)
                if m:
                    runner.consider_violation(exe, p["st"], m.group(2), m.group(1))
                else:
                    runner.notes.append("shard exit 10 without VP-FAIL line")
                continue
            if rc == 20:
                import sys
                sys.stderr.write(err[-3000:])
                print("CHECK-BROKEN property=C07 harness error")
                sys.exit(2)
            # the worker itself died (library calls run in forked children, so this is unexpected) or hit the case time limit
            cur = p["part"] + ".cur"
            if os.path.exists(cur):
                import hashlib
                import shutil
                data = open(cur, "rb").read()
                dest = os.path.join(runner.replay_dir, "%s-crash-%s.tape" % (binary, hashlib.sha1(data).hexdigest()[:16]))
                shutil.copyfile(cur, dest)
                runner.consider_crash(exe, p["st"], dest, err)
    # exhaustive only if every shard completed
    complete = 0
    evaluations = 0
    for part in parts:
        try:
            d = json.load(open(part))
        except Exception:
            continue
        evaluations += d.get("evaluations", 0)
        complete += 1 if d.get("counters", {}).get("exhaustive_complete", 0) == 1 else 0
    if complete != shards:
        for part in parts:
            try:
                d = json.load(open(part))
                d.setdefault("counters", {})["exhaustive_complete"] = 0
                json.dump(d, open(part, "w"))
            except Exception:
                pass
        runner.notes.append("bounded catalogue: only %d of %d shards enumerated their part completely (a violation stops a shard)" % (complete, shards))
    else:
        runner.notes.append(binary + ": bounded catalogue (at most %d library files, %s): all %d shards complete, %d choice sequences, %.0f s wall" % (
            stage["maxn"], "fault-first scenarios" if stage["order_mode"] == 1 else "both scenario orders", shards, evaluations, time.time() - t_start))


PLAN = {
    "level": "fault_enumeration",
    "quick": [
        replays("C07"),
        custom("C07:catalogue-ex(<=2 library files)", _sharded_catalogue, maxn=2, order_mode=0, shards=8),
        tape("C07", 8000, size=300, case_timeout=900),
        replays("C07_ext"),
        custom("C07_ext:catalogue-ex(<=2 library files)", _sharded_catalogue, binary="C07_ext", maxn=2, order_mode=1, shards=8),
        tape("C07_ext", 4000, size=300, case_timeout=900),
    ],
    "thorough": [
        replays("C07"),
        custom("C07:catalogue-ex(<=3 library files)", _sharded_catalogue, maxn=3, order_mode=0, shards=16),
        tape("C07", 300000, size=400, case_timeout=900),
        replays("C07_ext"),
        custom("C07_ext:catalogue-ex(<=3 library files)", _sharded_catalogue, binary="C07_ext", maxn=3, order_mode=1, shards=16),
        tape("C07_ext", 120000, size=400, case_timeout=900),
    ],
    "class_floors": {
        "fault:back-edge": 0.08, "fault:units-cycle": 0.04, "fault:entity-removed": 0.04, "fault:entity-renamed": 0.04, "fault:file-missing": 0.03, "fault:not-cellml": 0.03,
        "fault:truncated-0-bytes": 0.015, "fault:truncated-in-declaration": 0.015, "fault:truncated-in-start-tag": 0.02, "fault:truncated-before-closing-tag": 0.015,
        "fault-depth:2": 0.08, "fault-depth:3": 0.04, "cycle-length:2": 0.03, "cycle-length:3": 0.01, "imports:units+components": 0.15, "imports:components": 0.02,
        "route:library": 0.2, "route:files": 0.4, "order:healthy-fault-repair": 0.08, "verdict:UNSAT": 0.3, "verdict:SAT": 0.02, "fault-harmless": 0.003,
        "generator:layered": 0.1, "generator:chain": 0.1, "permissive": 0.03, "cellml-1.1-file": 0.015, "unrelated-parser-error": 0.03, "shared-import-element": 0.05, "diamond": 0.1,
    },
    "replay_binary": "C07",
}
CLAIM = {
    "engine": "exhaustive-tape (bounded catalogue of import chains, 16 shards) + rapidcheck-tape",
    "technique": "fault enumeration over import graphs generated as data, judged by a reference satisfiability model (depth-first search over entity-level dependency edges); every library call runs in a forked child with a time limit",
    "text": "Import graphs are data: files f0..fn, each with imported / defined units and components, unit children, variable and cn units, encapsulated children; files only import from files with a larger index, so no entity depends on itself. "
            "One fault from the catalogue of the statement is applied to the data - file missing; truncated at 0 bytes, inside the XML declaration, inside a start tag, before the closing tag; replaced by well-formed non-CellML XML; referenced entity removed or renamed; "
            "back-edge closing an entity-level import cycle of length 1..n (through f0 too); cycle of ordinary units inside an imported model - and undone again. The files are written to a run-private directory (or registered with addModel()), and "
            "resolveImports / hasUnresolvedImports / flattenModel are driven with the fault, after the repair on the same importer (removeAllModels()) and on a new importer, optionally after a healthy first round. Every call runs in a forked child with a 20 s limit "
            "(a time-out is re-run with 300 s before it is reported as a hang; crashes are attributed to the call that was running). A reference search over the data says for every import element of f0 whether it can be satisfied; compared with it: the return value of "
            "resolveImports (true exactly when satisfiable), hasUnresolvedImports() after true, flattenModel non-null after true / null with an issue after false, at least one issue whose item is each failing import element of f0 and none on a satisfiable one, and the Logger invariants after every call. "
            "The bounded tier enumerates EVERY scenario of a catalogue of chains (4 main import kinds x 5 unit / 7 component shapes per file x every applicable fault x file and library route x both scenario orders): "
            "quick: at most 2 library files (about 2 000 scenarios, exhaustive: true refers to this bound); thorough: at most 3 library files (about 26 000 scenarios); "
            "the random tier adds chains of up to 8 files and layered random graphs of up to 9 files with diamonds, repeated imports, unused broken imports, sub-directories, CellML 1.1 files under a permissive importer and unrelated parser errors in imported files.",
    "note": "props/C07_ext.cpp (same source, C07_EXT defined; a second binary so that the saved tapes of props/C07.cpp keep their meaning) adds the dimensions found missing by the independent exploration: a parser error inside the definition of an entity "
            "(two imports from one file, only one affected, both orders), a library entry replaced by a null model after a first resolution, components encapsulated below an import element that is itself a child of a concrete component, nested directories in which a relative href recurs "
            "or in which files at different depths have the same text, and every resolve / flatten of the fault state made twice (the answer must not depend on the call count). "
            "Trusts the harness's reference model and XML writer. A dangling local reference (unit child / variable units naming units that do not exist) is not judged. Graphs whose files import each other without an entity-level cycle are never generated (excluded by the statement). "
            "Known defects are probed once per process; while present their triggers are kept out of the routine scenarios by construction (counted as excluded:*) and let through in a sample (matched by known_findings.json); a known hang is never sampled (replays/C07/slow-*.tape, run by hand). "
            "Hang confirmation uses a 300 s limit on the sanitised build. Liveness beyond the limits and graphs beyond the generated sizes are not covered.",
}

from fuzzstage import fuzz

_corpus = ["$VERIF/corpus/C01", "$REPO/tests/resources"]
PLAN = {
    "level": "exploration",
    "quick": [
        replays("C01_struct", case_timeout=300), replays("C01_bytes", case_timeout=300),
        tape("C01_struct", 960, size=500, case_timeout=300),
        # the same generator on the unsanitised build with the usual 8 MiB stack: recursion whose depth grows with the input
        # (libstdc++ std::regex, recursive descent over deep documents) is invisible under the 1 GiB stack of the ASan workers
        replays("C01_struct", flavour="plain", case_timeout=300, name="replays:C01_struct:plain"),
        tape("C01_struct", 1600, size=500, case_timeout=300, flavour="plain", seed_offset=500, name="C01_struct:rc:plain-8MiB-stack"),
        fuzz("C01_struct", 30, workers=8, corpus=[], max_len=2048, dictionary=None, timeout=120, random_seeds=64),
        fuzz("C01_bytes", 30, workers=8, corpus=_corpus, max_len=65536, dictionary="$VERIF/support/cellml.dict", timeout=120, prefix_config_byte=[0, 3], max_seed_size=6000, max_seeds=40, pinned=["$VERIF/corpus/C01"]),
    ],
    "thorough": [
        replays("C01_struct", case_timeout=300), replays("C01_bytes", case_timeout=300),
        tape("C01_struct", 20000, size=600, case_timeout=300),
        replays("C01_struct", flavour="plain", case_timeout=300, name="replays:C01_struct:plain"),
        tape("C01_struct", 40000, size=600, case_timeout=300, flavour="plain", seed_offset=500, name="C01_struct:rc:plain-8MiB-stack", max_restarts=64),  # the known n-ary chain kills a worker about once per 900 cases
        fuzz("C01_struct", 600, workers=10, corpus=[], max_len=4096, timeout=120, random_seeds=256),
        fuzz("C01_bytes", 600, workers=6, corpus=_corpus, max_len=65536, dictionary="$VERIF/support/cellml.dict", timeout=120, prefix_config_byte=[0, 3, 7], max_seed_size=20000, max_seeds=400, pinned=["$VERIF/corpus/C01"]),
        fuzz("C01_bytes", 120, workers=4, corpus=[], max_len=65536, dictionary="$VERIF/support/cellml.dict", timeout=120, name="C01_bytes:libfuzzer:empty-corpus"),
    ],
    "class_floors": {"stage:parsed": 0.3, "stage:analysed-valid": 0.005},
}
CLAIM = {
    "engine": "libfuzzer-asan + rapidcheck-tape",
    "technique": "coverage-guided fuzzing (libFuzzer, ASan+UBSan) of the whole pipeline at byte level and with a structure-aware hostile-edit generator, plus rapidcheck runs of the same generator on the sanitised build and on the unsanitised build with an 8 MiB stack; crash/sanitizer/exception/time-out oracle with side conditions",
    "text": "Every input (random almost-valid documents with hostile edits, coverage-guided byte mutations of the repository's test resources) is pushed through parse, validate, print, re-parse, queries, import resolution and flattening, analysis and C/Python generation under ASan+UBSan; any signal, sanitizer report, uncaught exception, confirmed stack exhaustion or confirmed hang is a violation, as are unexplained failures and incoherent issue lists. Exploration only: it cannot show absence, and deep states need the structure-aware generator to aim at them.",
    "note": "Trusts the sanitizers to make memory errors and UB visible (the unsanitised 8 MiB-stack stage adds stack exhaustion that grows with the input, which the 1 GiB stack of the sanitised workers hides); libxml2 2.13.9 as linked by the baseline; stack-overflow and time-out reports count only after confirmation on the unsanitised build (8 MiB stack, 300 s).",
}

import os
import subprocess
import sys


def _entry_points_fresh(runner, stage):
    """The covered/total figure of the bad-argument table is relative to support/C09_entrypoints.txt; say so when the headers moved on."""
    here = os.path.dirname(os.path.dirname(os.path.dirname(os.path.abspath(__file__))))
    repo = runner.env.get("VERIF_REPO_ROOT", "/repo")
    r = subprocess.run([sys.executable, os.path.join(here, "bin", "c09_entrypoints.py"), repo], stdout=subprocess.PIPE, stderr=subprocess.DEVNULL, text=True)
    now = [l for l in r.stdout.splitlines() if l.strip()]
    listed = [l.strip() for l in open(os.path.join(here, "support", "C09_entrypoints.txt")) if l.strip() and not l.startswith("#")]
    if now != listed:
        new = sorted(set(now) - set(listed))
        gone = sorted(set(listed) - set(now))
        runner.notes.append("support/C09_entrypoints.txt is stale: %d entry points in the headers are not listed (%s), %d listed ones are gone (%s); run bin/c09_entrypoints.py --write and extend props/C09_args.cpp"
                            % (len(new), ", ".join(new[:8]), len(gone), ", ".join(gone[:8])))
    else:
        runner.notes.append("entry-point list is current (%d candidates)" % len(now))


PLAN = {
    "level": "exploration",
    "quick": [
        replays("C09"), replays("C09_ex"), replays("C09_args"),
        custom("C09:entry-point-list", _entry_points_fresh),
        tape("C09_args", 0, mode="ex", name="C09_args:table"),
        tape("C09", 96000, size=300),
        tape("C09_ex", 0, mode="ex", bound=2, name="C09_ex:ex2-asan"),
        tape("C09_ex", 0, mode="ex", bound=3, flavour="plain", name="C09_ex:ex3-plain"),
    ],
    "thorough": [
        replays("C09"), replays("C09_ex"), replays("C09_args"),
        custom("C09:entry-point-list", _entry_points_fresh),
        tape("C09_args", 0, mode="ex", name="C09_args:table"),
        tape("C09", 3000000, size=400),
        tape("C09_ex", 0, mode="ex", bound=3, name="C09_ex:ex3-asan"),
        tape("C09_ex", 20000000, mode="ex", bound=4, flavour="plain", name="C09_ex:ex4-plain(first 2e7)", worker_timeout=7200),
    ],
    "class_floors": {"lookalike-operand": 0.15, "linked-drop": 0.10, "mode:allow-known": 0.05, "rel:self-parented": 0.005, "rel:ancestor": 0.01, "rel:nested": 0.005, "rel:move": 0.10},
    "replay_binary": "C09",
}
CLAIM = {
    "engine": "rapidcheck-tape + bounded-exhaustive tape enumeration + forked bad-argument table",
    "technique": "model-based testing of API call histories against an identity-based containment model (random and bounded-exhaustive), plus an exhaustive bad-argument table with one forked process per call, all under ASan/UBSan",
    "text": "Histories of add/remove/take/replace/move/equivalence/drop calls over a small universe with structurally identical members are executed against the library and against a 200-line reference model of "
            "containment, liveness and equivalence; every list, parent link, equivalence set and object lifetime is compared after every call (random histories of up to ~100 calls; every history of 3 calls, quick, or 4 calls, "
            "thorough, over one-family reduced universes). Every public method taking an entity, index or name (174 entry points listed from the headers) is called with null / never-added / owner-destroyed / one-past-the-end / "
            "unknown-name arguments in a forked child and must refuse without crash or change. Exploration: finds wrong-sibling, cycle, double-listing and crash defects; cannot show absence beyond the enumerated bounds.",
    "note": "Trusts the harness's containment model, equals() (used only to decide which outcomes are allowed for structurally equal operands) and the kit's canonical dump. "
            "Adding an entity to the container that already holds it is outside the claim and never generated. Known defects are listed per (operation, operand relation) in known_findings.json.",
}

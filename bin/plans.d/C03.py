import json
import os
import re
import time


def _sharded_sweep(runner, stage):
    """The bounded-exhaustive operator sweep split over `shards` processes: C03_sweep decodes --bound = 100 * shard + 10000 * shards
    and every shard enumerates all (parent form, variant) choice sequences but runs only its own share, so that the whole
    space (61 parent forms x 5 variants, ~24 000 operator pairs / triples) is covered in the wall time of 1/shards of it."""
    shards = stage.get("shards", 16)
    t_start = time.time()
    binary = "C03_sweep"
    hdir = runner.build("asan", [binary])
    exe = os.path.join(hdir, binary)
    procs = []
    for sh in range(shards):
        st = dict(stage)
        st["binary"] = binary
        st["bound"] = 100 * sh + 10000 * shards
        st["case_timeout"] = stage.get("case_timeout", 600)
        p = runner.spawn_worker(exe, st, "ex", runner.seed, 0, sh, 0)
        p["st"] = st
        procs.append(p)
    parts = [p["part"] for p in procs]
    while procs:
        time.sleep(0.05)
        for p in list(procs):
            rc = p["proc"].poll()
            if rc is None:
                if time.time() - p["t0"] > stage.get("worker_timeout", 3600):
                    p["proc"].kill()
                    runner.notes.append("sweep shard %d exceeded the worker time limit; the enumeration is incomplete" % p["w"])
                    procs.remove(p)
                    runner.collect_part(p["part"])
                continue
            procs.remove(p)
            try:
                out = open(p["part"] + ".stdout", errors="replace").read()
                err = open(p["part"] + ".stderr", errors="replace").read()
            except OSError:
                out, err = "", ""
            runner.collect_part(p["part"])
            if rc == 0:
                continue
            if rc == 10:
                m = re.search(r"VP-FAIL property=\S+ sig=(.*) replay=(\S+)", out)
                if m:
                    runner.consider_violation(exe, p["st"], m.group(2), m.group(1))
                else:
                    runner.notes.append("sweep shard exit 10 without VP-FAIL line")
                continue
            if rc == 20:
                import sys
                sys.stderr.write(err[-3000:])
                print("CHECK-BROKEN property=C03 harness error (sweep)")
                sys.exit(2)
            cur = p["part"] + ".cur"
            if os.path.exists(cur):
                import hashlib
                import shutil
                os.makedirs(runner.replay_dir, exist_ok=True)
                data = open(cur, "rb").read()
                dest = os.path.join(runner.replay_dir, "%s-crash-%s.tape" % (binary, hashlib.sha1(data).hexdigest()[:16]))
                shutil.copyfile(cur, dest)
                runner.consider_crash(exe, p["st"], dest, err)
    complete = 0
    for part in parts:
        try:
            d = json.load(open(part))
        except Exception:
            continue
        complete += 1 if d.get("counters", {}).get("exhaustive_complete", 0) == 1 else 0
    if complete != shards:
        for part in parts:
            try:
                d = json.load(open(part))
                d.setdefault("counters", {})["exhaustive_complete"] = 0
                json.dump(d, open(part, "w"))
            except Exception:
                pass
        runner.notes.append("operator sweep: only %d of %d shards enumerated their part completely (a violation stops a shard)" % (complete, shards))
    else:
        runner.notes.append("operator sweep: all %d shards complete (61 parent forms x 5 variants), %.0f s wall" % (shards, time.time() - t_start))


PLAN = {
    "level": "translation_validation",
    "quick": [
        replays("C03"), replays("C03_sweep"),
        custom("C03_sweep:ex sharded (all 61 parent forms x 5 variants)", _sharded_sweep, shards=16),
        tape("C03", 1600, size=300),
    ],
    "thorough": [
        replays("C03"), replays("C03_sweep"),
        custom("C03_sweep:ex sharded (all 61 parent forms x 5 variants, ~24 000 operator pairs/triples)", _sharded_sweep, shards=16),
        tape("C03", 24000, size=400),
    ],
    "class_floors": {"type:ode": 0.15, "type:dae": 0.03, "type:nla": 0.03, "type:algebraic": 0.1, "scaled-connection": 0.1, "multi-component": 0.3,
                     # shapes added after the independent exploration (notes/C03.md), fractions of the C03 random stage
                     "shape:nla-sparse-system": 0.03, "shape:nla-dependent": 0.04, "shape:rate-reader": 0.1, "shape:rate-reader-scaled-voi": 0.03,
                     "shape:init-by-name-constant": 0.2, "shape:init-by-name-scaled": 0.05, "shape:init-by-name-declared-before": 0.1,
                     "shape:init-by-name-state": 0.05, "shape:exotic-real-upper-e": 0.2, "op:plus-piecewise-in-piece": 0.05, "op:unary-plus": 0.1},
}
CLAIM = {
    "engine": "rapidcheck-tape + exhaustive-tape",
    "technique": "property-based translation validation: generated ground-truth models, generated C compiled and run, generated Python executed, every value compared with an independent reference evaluator; bounded-exhaustive operator-pair sweep",
    "text": "Every generated program (C and Python, for each generated model) is executed and each array entry - initial states, constants, computed constants, rates and variables at two evaluation points - is compared with a reference evaluator written for the harness; NLA objective functions are evaluated at the constructed solution; C and Python are compared with each other. Both tiers enumerate (sharded over 16 processes) every (parent operator, position, child operator) pair, also with a unary minus / not / divide / unary plus in between, which is the space the generator's parenthesisation rules quantify over. Validates the translation for the programs generated, not for all programs.",
    "note": "Trusts the harness's reference evaluator (kit/expr.cpp), the system C compiler and Python interpreter; expressions are kept inside the domain where C, Python and the reference must agree (margin 2e-3, tolerance 1e-7); NLA systems are checked at the constructed solution, not solved.",
}

PLAN = {
    "level": "translation_validation",
    "quick": [
        replays("C03"), replays("C03_sweep"),
        tape("C03_sweep", 40, size=60, name="C03_sweep:rc (random parent forms x variants)"),
        tape("C03", 1600, size=300),
    ],
    "thorough": [
        replays("C03"), replays("C03_sweep"),
        tape("C03_sweep", 0, mode="ex", name="C03_sweep:ex (all 61 parent forms x 5 variants, ~24 000 operator pairs/triples)"),
        tape("C03", 24000, size=400),
    ],
    "class_floors": {"type:ode": 0.15, "type:dae": 0.03, "type:nla": 0.03, "type:algebraic": 0.1, "scaled-connection": 0.1, "multi-component": 0.3,
                     # shapes added after the independent exploration (notes/C03.md), fractions of the C03 random stage
                     "shape:nla-sparse-system": 0.03, "shape:nla-dependent": 0.04, "shape:rate-reader": 0.1, "shape:rate-reader-scaled-voi": 0.03,
                     "shape:init-by-name-constant": 0.2, "shape:init-by-name-scaled": 0.05, "shape:init-by-name-declared-before": 0.1,
                     "shape:init-by-name-state": 0.05, "shape:exotic-real-upper-e": 0.2, "op:plus-piecewise-in-piece": 0.05, "op:unary-plus": 0.1},
}
CLAIM = {
    "engine": "rapidcheck-tape + exhaustive-tape",
    "technique": "property-based translation validation: generated ground-truth models, generated C compiled and run, generated Python executed, every value compared with an independent reference evaluator; bounded-exhaustive operator-pair sweep",
    "text": "Every generated program (C and Python, for each generated model) is executed and each array entry - initial states, constants, computed constants, rates and variables at two evaluation points - is compared with a reference evaluator written for the harness; NLA objective functions are evaluated at the constructed solution; C and Python are compared with each other. The thorough tier additionally enumerates every (parent operator, position, child operator) pair, also with a unary minus / not / divide / unary plus in between, which is the space the generator's parenthesisation rules quantify over. Validates the translation for the programs generated, not for all programs.",
    "note": "Trusts the harness's reference evaluator (kit/expr.cpp), the system C compiler and Python interpreter; expressions are kept inside the domain where C, Python and the reference must agree (margin 2e-3, tolerance 1e-7); NLA systems are checked at the constructed solution, not solved.",
}

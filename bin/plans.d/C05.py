PLAN = {
    "level": "exploration",
    "quick": [replays("C05"), tape("C05", 1200, size=250)],
    # the analyser's address space grows by ~2 MB per case under ASan (not released until exit), so the thorough budget is
    # cut into stages whose workers each run 125 cases (< 1 GB per worker) instead of one stage with 1 000 per worker
    "thorough": [replays("C05")] + [tape("C05", 2000, size=350, seed_offset=200 * k, name="C05:rc/%d" % k) for k in range(8)],
    "class_floors": {
        "type:ode": 0.15, "type:dae": 0.05, "type:nla": 0.04, "type:algebraic": 0.1,
        "variant-type:underconstrained": 0.1, "variant-type:overconstrained": 0.02, "variant-type:unsuitably_constrained": 0.01, "variant-type:invalid": 0.08,
        "multi-component": 0.4, "nla-with-guesses": 0.05, "nla-single-unknown": 0.02, "reads-nla-unknown": 0.03, "initial-value-on-another-instance": 0.03,
        "names:class-members-differ": 0.2, "names:collision-across-components": 0.15, "names:primary-name-reused-in-computing-component": 0.04, "primary-variable-changed": 0.03,
        "shape:rate-reader": 0.02, "shape:downstream-nla": 0.04, "shape:sparse-nla-system": 0.04, "shape:mixed-guess-nla-system": 0.04, "shape:self-reference": 0.04,
        "comments-in-math": 0.1, "transform:comments-in-math": 0.2, "variant:coupled-rates": 0.01,
        "transform:permute-components": 0.2, "transform:permute-variables": 0.2, "transform:permute-equations": 0.2, "transform:reverse-connections": 0.2, "transform:swap-sides": 0.2,
        "transform:rename-components": 0.2, "transform:rename-units": 0.2, "transform:rename-variables/2": 0.05, "transform:rename-variables/3": 0.05, "transform:rename-variables/4": 0.05,
    },
}
CLAIM = {
    "engine": "rapidcheck-tape",
    "technique": "property-based testing against ground truth by construction, structural invariants of the result through public accessors, and metamorphic relations (permutation, re-splitting, reversal, side swap, consistent renaming); fault injection for the non-valid model types",
    "text": "Thousands of generated models per run (random dependency graphs of constants, computed constants, algebraic variables, ODE states and implicit NLA systems with and without initial guesses over 1-4 connected components, "
            "initial values on any instance of a class, variables computed from NLA unknowns) are analysed; the reported model type, the role of every class of connected variables and the kind of equation computing it are compared with the "
            "construction; every valid AnalyserModel is checked for well-formedness (each class exactly once, dense indices, one direct equation or one NLA system per computed variable, variables<->equations symmetry, square NLA systems with "
            "symmetric siblings, dependencies covering every non-constant variable read, acyclic direct dependencies); 1-3 permuted / re-split / reversed / renamed members of a metamorphic family per model must be classified identically "
            "class by class; 0-2 constraint variants per model must give the expected under-/over-/unsuitably-constrained or invalid type with an error. Explores; cannot show absence.",
    "note": "Ground truth follows the library's conventions where the semantics leave a choice (initialised variable without equation = constant; NLA unknown with constant inputs may be computed_constant or algebraic); variants whose outcome "
            "depends on reading an equation the other way round are not generated. A failure that disappears under class-uniform variable names is attributed to the name-based unknown detection.",
}

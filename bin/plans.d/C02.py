PLAN = {
    "level": "exploration",
    "quick": [replays("C02"), tape("C02", 20000, size=300)],
    "thorough": [replays("C02"), tape("C02", 500000, size=400)],
    "class_floors": {"class-B": 0.1, "reset": 0.05, "import": 0.05, "multi-map-connection": 0.02, "encapsulation-depth>=2": 0.02,
                     # extensions (independent exploration): each is 5-6 % of the cases by construction (10 % for the class B one)
                     "ext:deep-encapsulation": 0.02, "ext:deep-math": 0.02, "ext:ancestor-namespaces": 0.02, "ext:reals-17-digits": 0.02,
                     "ext:nonfinite-reals": 0.02, "ext:connection-id-changed": 0.02, "ext:ws-control-chars": 0.03},
}
CLAIM = {
    "engine": "rapidcheck-tape",
    "technique": "property-based testing: generated valid and hostile-text models, print/parse round trip against an independent canonical dump",
    "text": "Random exploration (tens of thousands of generated models per run, all features of the statement, plus documents at the XML depth limit, 17-digit and non-finite unit reals, connection ids changed after creation, tab/LF/CR in attribute text, namespace prefixes declared on the model element) of the print->parse round trip with an oracle that shares no code with Printer/Parser: own dump through public getters, own MathML canonicaliser, libxml2 well-formedness check. Finds content loss, escaping and issue-reporting defects; cannot show absence.",
    "note": "Trusts libxml2 (same version the library links), the harness's dump/canonicaliser and the validity of the model generator (validator consulted lazily before a validator-only claim is judged).",
}

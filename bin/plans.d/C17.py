_HELPERS = ["xor_func", "min", "max", "sec", "csc", "cot", "sech", "csch", "coth", "asec", "acsc", "acot", "asech", "acsch", "acoth",
            "eq_func", "neq_func", "lt_func", "leq_func", "gt_func", "geq_func", "and_func", "or_func", "not_func"]
_FLOORS = {"type:ode": 0.07, "type:dae": 0.05, "type:nla": 0.05, "type:algebraic": 0.1,
           "nla-systems>=2": 0.08, "nla-multi-equation-system": 0.12, "nla-systems-interleaved": 0.03, "unary-plus-on": 0.15, "odd-scale": 0.01, "externals:1": 0.08, "externals:2": 0.03,
           "external-role:state": 0.01, "external-role:computed_constant": 0.03, "nla-system": 0.05, "helpers:0": 0.08,
           "nonvalid:underconstrained": 0.03, "nonvalid:overconstrained": 0.03, "nonvalid:invalid": 0.005, "nonvalid:unknown": 0.01,
           "nonvalid:null": 0.01, "nonvalid:unsuitably_constrained": 0.001}
# every helper-requiring operator has to occur in the equations of the generated code of at least 1 % of all cases
_FLOORS.update({"helper:" + h: 0.01 for h in _HELPERS})
PLAN = {
    "level": "translation_validation",
    "quick": [replays("C17"), tape("C17", 1000, size=300)],
    "thorough": [replays("C17"), tape("C17", 20000, size=400)],
    "class_floors": _FLOORS,
}
CLAIM = {
    "engine": "rapidcheck-tape",
    "technique": "property-based translation validation of declarations: generated ground-truth models (with external variables and helper-operator quota), generated C compiled with -Wall -Wextra, linked with an address-taking probe and run, generated Python executed; counts, info tables, buffer sizes, signatures and helper sets compared with the AnalyserModel and the model's equations; non-valid models must give empty code",
    "text": "For every generated program pair (C and Python of one analysed model: ODE / DAE / NLA / algebraic, 0-2 external variables) the check compares STATE_COUNT / VARIABLE_COUNT and every VOI_INFO / STATE_INFO / VARIABLE_INFO entry (name, units, component, type) read from the running program with the analyser variable of that index, the declared char[N] sizes with the strings, the number of table initialisers with the counts, the prototypes of model.h with the definitions of model.c and with the signature the (ODE, externals) combination calls for (compiler verdict, text comparison and a probe that takes each declared function's address with the expected type and links), the enumerators and typedefs, the compiler diagnostics (only unused-parameter / unused-variable allowed), and the set of helper functions defined and called in both texts with the operators that occur in the equations the code keeps. A quota of small equations guarantees every helper-requiring operator occurs in >= 1 % of the cases (per-helper counts are in the class histogram; a class below its floor prints GENERATOR-HEALTH). 30 % of the cases are models that are not valid (under-, over-, unsuitably constrained, invalid, UNKNOWN, null) for which all four code strings must be empty. Validates the programs generated, not all programs.",
    "note": "Trusts the system C compiler (gcc, -std=c99) and python3, the text layout of the two built-in profiles for locating definitions and calls, and the ground-truth generator for which operators an equation contains; values computed by the code are C03's subject, the classification of models C05's, the behaviour of external variables C20's.",
}

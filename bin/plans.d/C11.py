PLAN = {
    "level": "exploration",
    "quick": [replays("C11"), tape("C11", 70000, size=500)],
    "thorough": [replays("C11"), tape("C11", 800000, size=500)],
    "class_floors": {"entity:model": 0.1, "entity:component": 0.1, "entity:units": 0.05, "entity:variable": 0.05, "entity:reset": 0.02,
                     "reset-without-order": 0.01, "import-source": 0.03, "equivalence-with-ids": 0.01, "variable-units-owned-by-model": 0.05,
                     "mutated:clone": 0.3, "mutated:original": 0.3, "probe-known": 0.03,
                     "foreign-reset-variable:Component::clone": 0.03, "foreign-reset-variable:Model::clone": 0.03, "foreign-reset-variable:other-component": 0.02,
                     "local-import-reference": 0.1, "foreign-reset-variable:parentless": 0.03, "foreign-reset-variable:unset": 0.03},
}
CLAIM = {
    "engine": "rapidcheck-tape",
    "technique": "property-based testing: clone of every entity kind of generated (valid and invalid) models compared by an independent ordered dump, object identity, Printer output and a follow-up mutation of either side",
    "text": "Random exploration of clone() on models, components, units, variables and resets of generated models, with an oracle made of public getters only: ordered dump including presence flags, held unit definitions, equivalence ids and import-source grouping; equals() both ways; parent(); disjointness of the two object graphs; identical Printer output; and independence under one API mutation (all setter / add / remove / equivalence operations, at any depth) of original or clone; an appended sub-case gives a reset a variable / test variable outside its own component (another component's, parentless, or none) before Component::clone() / Model::clone(). Finds attributes clone() forgets or invents, shared sub-objects and broken re-targeting; cannot show absence.",
    "note": "Trusts the spec->API builder and the dump (kit/spec.cpp, props/C11.cpp). Listed defects are repaired on the clone (counted) so the search continues past them; ~6% of the cases assert them.",
}

PLAN = {
    "level": "translation_validation",
    "quick": [replays("C06"), tape("C06", 800, size=300, case_timeout=300)],
    "thorough": [replays("C06"), tape("C06", 12000, size=400, case_timeout=300)],
    "class_floors": {
        "chain-depth:2": 0.1, "chain-depth:3": 0.02, "diamond": 0.02, "duplicate-import": 0.08, "component-name-clash": 0.01, "plan:units-name-clash": 0.02,
        "imported-component-with-encapsulated-children": 0.1, "imported-units": 0.15, "library-units-needed-by-cn-only": 0.01,
        "scaled-units-across-the-boundary": 0.03, "resolved-through-addModel": 0.2, "resolved-from-files": 0.2, "resolved-from-files+main-parsed": 0.15,
        "type:ode": 0.15, "type:dae": 0.03, "type:nla": 0.03, "type:algebraic": 0.1,
    },
}
CLAIM = {
    "engine": "rapidcheck-tape",
    "technique": "property-based differential testing against a reference known by construction: import forests cut out of one ground-truth model, flattenModel compared with the unsplit model (structure, equivalences, units reduced independently, validity, analysis, values of the compiled generated C code), dumps of the inputs before/after",
    "text": "Each case cuts one generated ground-truth model (known roles and values, C03 machinery) into a main model and 1-5 library models - imported components with encapsulated children and internal connections, chains up to depth 4, diamonds, one library component or units imported several times, units used by cn only, library-side names chosen to clash with importer-side names - resolves the imports (addModel keys or files in a run-private directory) and flattens. Because the forest was cut from a model whose meaning is known, the expected flat model is that model: the flat model must be import-free, validate when the inputs do, have the same components, variables, equivalence classes and (independently reduced) units, be analysed with the same type and roles, and its compiled C code must give the ground-truth values; the main and library models must dump identically before and after. Exploration of the quantifier's shapes with a by-construction oracle; finds lost connections, wrong or dangling units, renaming faults, mutation of inputs and crashes; cannot show absence. The input shapes of the known findings (listed in known_findings.json) are excluded by construction most of the time (counted in the evidence) and left in at a low rate so that each finding stays observed.",
    "note": "Trusts the ground-truth generator and reference evaluator shared with C03, the harness's own units reduction, dump and XML writer, the system C compiler. resolveImports() leaves imported units that only encapsulated children use unresolved (C07's subject): the harness then resolves the library models explicitly (counted). Validator false positives on valid forests (imported units of connected variables not followed; two imports of one units_ref from one href) make the validity clause vacuous for those cases (counted as classes).",
}

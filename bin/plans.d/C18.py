# C18: two harnesses share the property id. C18 (ASan build): generated connection graphs, query orders, repetition.
# C18_addr (plain build, owns operator new/delete): Variable objects placed at constructed colliding addresses.
PLAN = {
    "level": "exploration",
    "quick": [
        replays("C18"),
        replays("C18_addr", flavour="plain"),
        tape("C18", 3000, size=300),
        tape("C18_addr", 120000, size=120, flavour="plain"),
    ],
    "thorough": [
        replays("C18"),
        replays("C18_addr", flavour="plain"),
        tape("C18", 60000, size=300),
        tape("C18_addr", 4000000, size=120, flavour="plain"),
    ],
    # floors are fractions of ALL cases of the run; the graph classes come from the C18 stage only (about 2.5% of the quick
    # and 1.5% of the thorough cases), so they are set to roughly a third of what that stage normally yields
    "class_floors": {
        "parts(size>=2)>=2": 0.003, "shape:cycle": 0.001, "shape:clique": 0.001, "shape:star": 0.001, "shape:chain": 0.001, "removal-splits-a-part": 0.0025,
        "mode=free": 0.0015, "two-analyser-models": 0.0005, "history:edit": 0.003, "history:rewire": 0.0005, "history:fresh-model": 0.0005, "history:addresses-recycled": 0.5, "family:cantor-wrap": 0.2, "family:equal-xor": 0.03, "family:equal-low32": 0.03, "family:equal-sum": 0.03,
    },
    "assumptions": [
        "class floors are computed over the cases of both harnesses together (graph classes come from C18 only, address families from C18_addr only)",
    ],
}
CLAIM = {
    "engine": "rapidcheck-tape",
    "technique": "property-based testing against a reference model (union-find reachability over the harness's own edge set), plus an allocator-owning harness that places the queried objects at constructively solved colliding addresses",
    "text": "Domain 1: thousands of generated connection graphs (chains, stars, cycles, cliques, trees, random parts, isolated variables, temporary and removed equivalences) built through the API; every ordered pair asked through "
            "Variable::hasEquivalentVariable(v,true) in three phases and through AnalyserModel::areEquivalentVariables of really analysed models in tape-chosen orders with repetition and interleaving; then the same Analyser is re-used for 1-3 further analyses after tape-chosen edits of the equivalence graph (toggle, rewire, freshly built model, unchanged) and each new analyser model "
            "is asked all pairs again and its verdict compared with a fresh Analyser's. Domain 2: a plain-build harness replaces "
            "global operator new/delete, maps pages with MAP_FIXED_NOREPLACE and puts the Variable objects of two pairs at addresses from families that defeat lossy pair keys (equal sum/xor/difference/low-32/linear combination/page, and "
            "64-bit wrap-around collisions of the Cantor pairing solved in closed form), then analyses a valid model on those objects and asks every pair; afterwards the model is released, new objects are placed at the same addresses with another connection scenario and analysed by the same Analyser. Finds wrong cached answers end to end without any hook in the library; "
            "cannot show absence, and a lossy key outside the constructed families would go unnoticed.",
    "note": "Domain 2 runs unsanitised (the allocator is ours) and assumes the x86-64 Linux user address-space layout; the modelled key formula only aims the generator, the verdict comes from the real function against the reference.",
}

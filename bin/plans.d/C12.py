PLAN = {
    "level": "exploration",
    # Two flavours of the same harness. asan (ASan+UBSan, ~200 ms CPU per case: three executions of the history, MathML
    # validation dominates) sees memory errors and undefined behaviour along the histories; plain (g++, glibc malloc, ~70 ms
    # per case) recycles freed memory at once, so behaviour that depends on where objects happen to be allocated shows up
    # (under ASan freed memory is quarantined and address order rarely changes). Budgets are case counts.
    "quick": [replays("C12", prefix="C12-known-"), replays("C12", flavour="plain", prefix="C12-plain-", name="replays:C12:plain"),
              tape("C12", 1200, size=1500, case_timeout=300), tape("C12", 2400, size=1500, flavour="plain", case_timeout=300, name="C12:rc:plain", seed_offset=500)],
    "thorough": [replays("C12", prefix="C12-known-"), replays("C12", flavour="plain", prefix="C12-plain-", name="replays:C12:plain"),
                 tape("C12", 30000, size=2000, case_timeout=300), tape("C12", 60000, size=2000, flavour="plain", case_timeout=300, name="C12:rc:plain", seed_offset=500)],
    "class_floors": {"probe:parse": 0.08, "probe:print": 0.06, "probe:validate": 0.04, "probe:analyse": 0.08, "probe:generate": 0.03, "probe:resolve": 0.03, "probe:flatten": 0.04,
                     "probe:annotate": 0.015, "instance:reused-after-use": 0.3, "x:print>parse": 0.02, "x:parse>parse": 0.05, "x:analyse>analyse": 0.04, "x:validate>validate": 0.02,
                     "x:resolve>flatten": 0.01, "x:analyse>generate": 0.03, "probe-has-issues": 0.1, "input:doc:garbage": 0.01, "input:doc:almost valid": 0.01, "input:model:broken": 0.05,
                     "analyser-reuse:same-units-name-other-meaning": 0.04, "analyser-reuse:redefined-after-original": 0.015, "analyser-reuse:original-after-redefined": 0.015,
                     "library-files:with-parse-error": 0.03, "library-files:clean": 0.03, "flatten:no-imports": 0.03, "input-has-unlinked-units": 0.03, "input-has-unlinked-units:flatten": 0.008, "result-mutated-then-input-compared": 0.1,
                     "am-type:invalid": 0.03, "am-type:algebraic": 0.03, "flatten:ok": 0.03, "import-forest": 0.2},
}
CLAIM = {
    "engine": "rapidcheck-tape",
    "technique": "property-based testing of call histories with a metamorphic oracle (the same call first thing in a fresh process / at its place in a history on a reused instance / at the same place on a new instance / twice in a row), process state isolated per execution by fork, plus before/after dumps of every argument and of every result still held",
    "text": "Random exploration (thousands of pool x history pairs per run: documents valid/1.x/almost-valid/garbage, API-built analysable/generic/broken models, import forests registered with Importer::addModel; 2-12 calls of parse, print, validate, analyse, generate, resolveImports, flattenModel, annotator lookups on shared or new instances). The worker never calls libCellML or libxml2 itself; each case is executed in forked children so hidden process-global state is exactly what the executed calls left behind. Observations (independent raw-math model dump, issue lists, returned text, a dump of the AnalyserModel through public accessors) of the probe call must agree across the four executions, arguments must dump identically before/after Printer, Validator, Analyser, Generator and flattenModel, and models / AnalyserModels / generator code held from earlier calls must not change. Finds history dependence, instance-state leaks, missing issue-list resets and input mutation; cannot show absence.",
    "note": "Trusts the harness dumps (public getters only), mathCanon (harness-side libxml2, run only after the last library call of a child) and fork() as the reset of process state. Differences that vanish under canonical MathML after a Printer::printModel call are attributed to the listed xmlKeepBlanksDefault finding. Importer libraries are addModel-only (no file is read); a new Importer instance is given the same library model objects because issue texts depend on the library. State hidden in libxml2 that influences no dumped observation, and multi-threaded interleavings, are out of reach.",
}

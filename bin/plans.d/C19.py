PLAN = {
    "level": "exploration",
    # one harness, the first tape value picks the helper: a third of the cases each
    "quick": [replays("C19"), tape("C19", 160000, size=300)],
    "thorough": [replays("C19"), tape("C19", 2400000, size=400)],
    "class_floors": {
        "helper=fixVariableInterfaces": 0.25, "helper=linkUnits": 0.25, "helper=clean": 0.25,
        # fixVariableInterfaces
        "eq:parent-child": 0.10, "eq:siblings": 0.03, "eq:top-level-siblings": 0.08, "eq:bad:grandparent": 0.02, "eq:bad:other-model": 0.02,
        "eq:bad:parentless-variable": 0.015, "eq:bad:loose-component": 0.01, "eq:bad:cousin": 0.003,
        "iface:garbage": 0.04, "iface:insufficient": 0.06, "iface:excessive": 0.06, "iface:exactly-sufficient": 0.08, "iface:absent": 0.08,
        "fix:expect-true": 0.10, "fix:expect-false": 0.06,
        # linkUnits
        "link:by-name/defined": 0.06, "link:by-name/undefined": 0.02, "link:own-object": 0.06, "link:foreign-object": 0.03,
        "link:foreign-object/name-also-defined-here": 0.015, "link:unowned-definition/defined": 0.05, "link:standard-name": 0.06, "link:absent": 0.06,
        "link:expect-true": 0.10, "link:expect-false": 0.06,
        # clean
        "clean:empty-component-depth=2": 0.04, "clean:empty-component-depth=3": 0.03, "clean:empty-component-depth=4": 0.02, "clean:empty-inside-empty": 0.015,
        "clean:empty-inside-import": 0.005, "clean:empty-first-sibling": 0.04, "clean:empty-middle-sibling": 0.04, "clean:adjacent-empty-siblings": 0.03,
        "clean:look-alike:only-id": 0.04, "clean:look-alike:only-name": 0.04, "clean:look-alike:only-math": 0.04, "clean:look-alike:import": 0.03,
        "clean:look-alike:only-variable": 0.04, "clean:look-alike:only-reset": 0.04, "clean:empty-units": 0.08, "clean:units-look-alike:only-id": 0.02,
        "clean:units-look-alike:only-name": 0.02, "clean:units-look-alike:only-child": 0.02, "clean:units-look-alike:import": 0.02,
        "clean:bare-component-kept-for-its-children": 0.04,
    },
}
CLAIM = {
    "engine": "rapidcheck-tape",
    "technique": "property-based testing: generated component trees / units situations / seeded models, post-conditions recomputed by a reference model kept in the harness (interface requirement from the tree, linking situation table, documented emptiness on the spec) and cross-checked against the Validator",
    "text": "Random exploration (tens of thousands of cases per helper and run). fixVariableInterfaces: trees of depth <= 4 with equivalences of every relation kind (siblings, parent/child, grandparent, cousin, other model, component in no model, parentless variable) and every interface string class; expected return value, sufficiency, 'sufficient stays identical', no collateral change and a Validator without interface issues are checked. linkUnits: seven ways a variable can hold units x defined / undefined / foreign names; return value, hasUnlinkedUnits() before and after, object identity per variable. clean: valid generated models seeded with bare components / units and look-alikes at every depth and sibling position; the result must equal the spec with exactly the documented-empty items removed. Cannot show absence.",
    "note": "Trusts the harness's reference rules (written from the CellML 2.0 definition and the API documentation) and the kit's dump. A component holding only an encapsulation id is accepted either way; imports without a name count as not empty.",
}

# C16 — numeric text. The exhaustive stages enumerate every string of length 0..5 over the 10-symbol alphabet in all eight
# numeric positions (bound 155: cn positions observed with many cn elements per MathML block, grouped by the verdict the
# reference expects and re-run one document per string whenever a block is inconclusive; bound 55: one document per string
# and position). The exhaustive driver is one process; the harness farms the library work out to VERIF_CORES forked
# children (props/C16.cpp "worker pool"). The plain (unsanitised) build is used where the volume is (a MathML block costs
# 15 ms there and 70 ms under ASan, all of it inside libxml2's DTD handling); the random tier runs under ASan+UBSan.
PLAN = {
    "level": "exploration",
    "quick": [
        replays("C16"),
        tape("C16", 0, mode="ex", bound=155, flavour="plain", case_timeout=300),
        tape("C16", 3500, size=300, case_timeout=600),
    ],
    "thorough": [
        replays("C16"),
        tape("C16", 0, mode="ex", bound=155, flavour="asan", case_timeout=600),
        tape("C16", 0, mode="ex", bound=55, flavour="plain", case_timeout=600),
        tape("C16", 60000, size=400, case_timeout=600),
    ],
    # floors are fractions of all evaluations, most of which are the 111 111 enumerated strings: they only guard against a
    # random-tier generator that stops producing a class at all
    "class_floors": {
        "kind:extreme": 0.002, "kind:long": 0.001, "kind:long-wide-alphabet": 0.001, "kind:near-miss:digits-dropped": 0.0003,
        "kind:near-miss:insert": 0.0002, "kind:printer-random-bits": 0.001, "kind:printer-random-decimal": 0.002,
        "unit@exponent:real-overflow/issue": 0.0003, "reset@order:integer-out-of-range/issue": 0.0003,
        "printer-locale:numpunct-facet": 0.002, "kind:cn-context": 0.0003, "cn-context:bvar-degree:combined-overflow": 0.00001,
        "history-entry:global-numpunct-locale": 0.0005,
        "history:range-error-before": 0.005, "history:same-document-range-error": 0.003, "history:none": 0.5,
        "history-entry:exponent-overflow": 0.001, "history-entry:multiplier-underflow": 0.001, "history-entry:order-huge-integer": 0.001,
        "history-entry:printer-subnormal-reparsed": 0.001, "history-entry:cn-overflow": 0.0002, "history-entry:analyser-generator-tiny-initial-value": 0.0002,
    },
}
CLAIM = {
    "engine": "bounded-exhaustive tape enumeration + rapidcheck-tape",
    "technique": "bounded-exhaustive enumeration of all strings up to length 5 over a 10-symbol alphabet in every numeric position against regular-expression reference recognisers, plus property-based testing of longer strings, near-misses, extreme magnitudes and printer round trips",
    "text": "Every string of length 0..5 over {0,1,9,+,-,.,e,E,blank,a} (111 111 strings, digits being one class in every recogniser) is placed in each of the eight numeric positions of a small CellML 2.0 document and sent through the strict Parser and the Validator; verdict, converted value and out-of-range reporting are compared with two regular expressions written from the statement plus strtod/strtoll, and any exception is a failure. 'exhaustive: true' means this space was completed (x_exhaustive_space_bound<b> gives the bounds and whether cn elements shared MathML blocks). Recognition must not depend on what was recognised before: short strings (exhaustively) and random strings are also observed after a tape-chosen history of range-error texts went through the services in the same process, and inside a document that contains such a text; both observations must agree with each other and with the reference, and each random case runs in a forked child so that a failure reproduces in a fresh process. The combined value of an e-notation cn (significand x 10^exponent) is judged as well, also with the cn as bvar/root degree, logbase and power exponent through Analyser and Generator; the printer leg includes infinite/NaN values (the validator must report them) and printing under a global C++ locale with decimal comma and digit grouping. A random tier adds strings up to 40 symbols, near-misses, extreme magnitudes and finite doubles/ints sent through Printer -> strict Parser and compared to 15 significant digits. Within the enumerated space the result is a proof by cases for these positions; beyond it (longer strings, other digits' positions) it is sampling.",
    "note": "Trusts glibc regexec/strtod/strtoll as the reference, the C locale, and that the validator reports at most one MATH_CN_FORMAT issue per cn element (used only by the batched cn observation; any inconclusive block is re-run one document per string; the thorough tier also runs the whole space unbatched). Not judged: cn text that is a real with an exponent part (specification: basic real only; statement: 'cn content').",
}

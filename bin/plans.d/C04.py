# C04 — validator: valid models pass, every single-rule fault is reported (fault enumeration).
# One harness, two stages with the same generator: under ASan+UBSan, and (for volume: a MathML block costs 15 ms there and
# 70 ms under ASan, all of it in libxml2's DTD handling) with the plain build. Case counts are budgets, not time limits.
# Measured cost per case (models of up to six components, 3-10 faulted copies each): 0.14 s plain, about 0.5 s under ASan; quick is
# about 1300 core-seconds (80 s on 16 free cores; measured 1840 for 800 + 6000 cases), thorough about 12 000.
# The family list is produced by the harness itself: C04_LIST_FAMILIES=1 .build/asan/h/C04 > bin/plans.d/C04.families
import os

_families = [l.strip() for l in open(os.path.join(os.path.dirname(os.path.abspath(__file__)), "C04.families")) if l.strip()]

PLAN = {
    "level": "fault_enumeration",
    "quick": [replays("C04"), replays("C04", flavour="plain"), tape("C04", 600, size=500, case_timeout=900), tape("C04", 4500, size=500, flavour="plain", seed_offset=500, case_timeout=900)],
    "thorough": [replays("C04"), replays("C04", flavour="plain"), tape("C04", 6000, size=500, case_timeout=900), tape("C04", 64000, size=500, flavour="plain", seed_offset=500, case_timeout=900)],
    # a family with zero hits is reported as GENERATOR-HEALTH (the floor is far below one case); the evidence also carries
    # x_family_validations with an entry, possibly 0, for every family of the catalogue
    "class_floors": dict([("fault:" + f, 1e-9) for f in _families] + [
        ("imports:resolved", 0.08), ("imports:unresolved", 0.08), ("fault-in-library-model", 0.02), ("mode=sweep", 0.08), ("at:enc1", 0.15), ("at:enc2+", 0.03),
        ("at:lib", 0.02), ("at:libkid", 0.002), ("hole-depth=1", 0.05), ("hole-depth=2", 0.03), ("profile=1", 0.3), ("profile=2", 0.06),
        # position of a faulted equivalence in the lists of its two variables, and what legal equivalences come before it
        ("fault-context:after-public+private-on-both-endpoints", 0.004), ("fault-context:before-public+private-on-both-endpoints", 0.004),
        ("fault-context:between-public-and-private-on-both-endpoints", 0.004), ("fault-context:after-public+private-on-one-endpoint", 0.004),
        ("fault-context:bare-endpoints", 0.004),
        # independent exploration: library units / inner connections of imported components, same-named component twin, document route
        ("at:lib-units-of-imported-variable", 0.004), ("document:cellml-prefix-declared-on-model", 0.01), ("document:prefixed-mathml-declared-on-math", 0.01),
        ("document:prefixed-mathml-declared-on-model", 0.01), ("base:variable-in-imported-units-mapped-to-compatible-local-units", 0.01), ("fault-context:after-public+private-type-equivalences", 0.004), ("fault-context:only-equivalence-of-its-variable", 0.006),
    ]),
}
CLAIM = {
    "engine": "rapidcheck-tape",
    "technique": "fault enumeration: generated valid models (imports resolved against in-memory library models for a share of them) x a catalogue of single-rule faults x tape-chosen or swept locations; acceptable rules per fault written from the rule catalogue",
    "text": "Every case generates a valid-by-construction CellML 2.0 model and demands zero validator issues, then injects single-rule violations from a catalogue (identifier syntax, uniqueness of names / ids / reset orders, dangling references, illegal interface / initial value / prefix, unreachable or insufficient or unit-incompatible mappings, parentless equivalent variables, unit cycles of length 1-3, incomplete resets, bad import references, and about 70 MathML faults: wrong root, malformed XML, unsupported elements, operand counts of every operator class, misplaced qualifiers, cn / ci faults, DTD violations) at locations the tape picks or, in sweep mode, at every applicable location of one family (top-level vs encapsulated components at each depth, first / middle / last item, first / last reset, component math vs test_value vs reset_value, nested MathML positions, library models reached through imports), rebuilds the model through the API and demands an ERROR citing a rule of the fault's acceptable set. Sampling over models; the fault families and location classes are enumerated (x_family_validations lists every family with its count).",
    "note": "Trusts the kit's model generator (a soundness defect found on the way is repaired in the harness and counted) and the acceptable rule sets (justified per family in notes/C04.md). Multi-fault interactions, rules the object model cannot express and rules the validator does not implement are out of scope.",
}

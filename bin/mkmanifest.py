#!/usr/bin/env python3
"""Regenerates MANIFEST.json from bin/plans.py (claimed checks) and bin/claims.py (texts). Properties without a plan
are listed under not_applicable with the reason given in claims.NOT_CLAIMED (or 'check not built yet')."""
import json
import os
import sys

HERE = os.path.dirname(os.path.dirname(os.path.abspath(__file__)))
sys.path.insert(0, os.path.join(HERE, "bin"))
import claims  # noqa: E402
import plans  # noqa: E402

ids = [json.loads(l)["id"] for l in open(os.path.join(HERE, "properties.jsonl"))]
checks = []
na = []
for i in ids:
    if i in plans.PLANS and i in claims.CLAIMS:
        c = claims.CLAIMS[i]
        checks.append({
            "property_id": i,
            "quick_cmd": "bin/check %s quick" % i,
            "thorough_cmd": "bin/check %s thorough" % i,
            "evidence_file": "evidence/%s.json" % i,
            "replay_cmd_template": c.get("replay", "bin/replay %s {path}" % i),
            "engine": c["engine"],
            "level_claimed": {"category": plans.PLANS[i].get("level", "exploration"), "text": c["text"], "design_ref": "DESIGN.md section 4, " + i},
            "level_note": c["note"],
            "technique": c["technique"],
        })
    else:
        na.append({"property_id": i, "reason": claims.NOT_CLAIMED.get(i, "check not built yet (work in progress; see DESIGN.md section 4)")})
m = {
    "version": 1,
    "setup_cmd": "bin/build.sh asan && bin/build.sh plain",
    "hooks": {
        "guard": "LIBCELLML_VERIF",
        "enable": "bin/build.sh passes -DLIBCELLML_VERIF in CMAKE_CXX_FLAGS when it builds /repo (asan and plain flavours)",
        "baseline_off_cmd": "bin/baseline_off.sh",
        "source_commits": claims.HOOK_COMMITS,
        "add_only": True,
    },
    "engines": claims.ENGINES,
    "checks": checks,
    "not_applicable": na,
    "notes": claims.NOTES,
}
json.dump(m, open(os.path.join(HERE, "MANIFEST.json"), "w"), indent=1)
print("MANIFEST.json: %d checks, %d not claimed" % (len(checks), len(na)))

#!/bin/bash
# Runs a command that edits /repo while holding the build locks of both flavours, so that no concurrent
# bin/build.sh compiles a file while it is being changed (ninja would then consider the stale object up to date).
HERE="$(cd "$(dirname "$0")/.." && pwd)"
mkdir -p "$HERE/.build/asan" "$HERE/.build/plain"
exec 8>"$HERE/.build/asan/.lock" 9>"$HERE/.build/plain/.lock"
flock 8; flock 9
"$@"
rc=$?
exit $rc

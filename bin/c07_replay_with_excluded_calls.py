#!/usr/bin/env python3
"""bin/c07_replay_with_excluded_calls.py <in.tape> <out.tape>

The C07 harness leaves a few library calls out of its routine scenarios because a known defect makes them crash or hang
(see notes/C07.md). A tape whose LAST choice decodes to 777777 (radix 1000003) makes the harness perform those calls. This
script replays <in.tape> once to learn how many choices the scenario reads, pads the tape with zeros up to that point and
appends the value that decodes to 777777, so that the known finding reproduces with a plain `bin/replay C07 <out.tape>`."""
import os
import re
import subprocess
import sys

HERE = os.path.dirname(os.path.dirname(os.path.abspath(__file__)))
M = 0xFFFFFFFF


def unmix(x):  # inverse of kit/tape.h tapeMix()
    x ^= x >> 16
    x = (x * 0x43021123) & M
    x ^= (x >> 15) ^ (x >> 30)
    x = (x * 0x1d69e2a5) & M
    x ^= x >> 16
    return x


def mix(x):
    x ^= x >> 16
    x = (x * 0x7feb352d) & M
    x ^= x >> 15
    x = (x * 0x846ca68b) & M
    x ^= x >> 16
    return x


def main():
    src, dst = sys.argv[1], sys.argv[2]
    text = open(src).read()
    tape = [int(v) for v in text[text.index("tape:") + 5:].split()]
    exe = os.path.join(os.environ.get("VERIF_BUILD_ROOT", os.path.join(HERE, ".build")), "asan", "h", "C07")
    env = dict(os.environ, VERIF_C07_DRY="1", VERIF_HOME=HERE, ASAN_OPTIONS="detect_leaks=0")
    out = subprocess.run([exe, "--replay", src], stdout=subprocess.PIPE, stderr=subprocess.DEVNULL, text=True, env=env).stdout
    m = re.search(r"choices read before the last one: (\d+)", out)
    if not m:
        sys.exit("cannot find the number of choices in the replay output")
    n = int(m.group(1))
    tape = (tape + [0] * n)[:n]
    magic = unmix(777777)
    assert mix(magic) % 1000003 == 777777
    tape.append(magic)
    head = [l for l in text.splitlines() if l.startswith("#")]
    head.append("# the last choice asks the harness to make the calls it normally leaves out (bin/c07_replay_with_excluded_calls.py)")
    open(dst, "w").write("\n".join(head) + "\ntape: " + " ".join(map(str, tape)) + " \n")


if __name__ == "__main__":
    main()

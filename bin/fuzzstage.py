"""libFuzzer campaign stage for bin/check (used by plans.d/C01.py and others).

fuzz(binary, seconds, workers=..., corpus=[dirs], max_len=..., dict=...) returns a custom stage. Each worker is an independent
libFuzzer process (own corpus directory, own -seed), fed with the seed corpus; a process that stops on a crash is restarted
with a new seed until the time budget is used. Artifacts: crash-*/leak-* are triaged (3 replays, signature, known findings,
stack-overflow / timeout confirmation on the plain build); slow-unit-*/oom-* are load noise and only counted."""
import hashlib
import os
import re
import shutil
import subprocess
import time


def fuzz(binary, seconds, workers=16, corpus=(), max_len=65536, dictionary=None, timeout=60, rss_mb=4096, max_seed_size=None, max_seeds=None, random_seeds=0, random_seed_len=768, **kw):
    """corpus: directories of seed files (sampled deterministically down to max_seeds, files above max_seed_size skipped);
    random_seeds: number of pseudo-random byte strings (a pure function of VERIF_SEED) added as seeds - for tape-decoded
    targets, whose interesting inputs are long tapes that libFuzzer would otherwise take long to grow from nothing."""
    d = {"kind": "custom", "name": "%s:libfuzzer" % binary, "binary": binary, "fn": run_fuzz, "seconds": seconds, "workers": workers,
         "corpus": list(corpus), "max_len": max_len, "dict": dictionary, "timeout": timeout, "rss_mb": rss_mb,
         "max_seed_size": max_seed_size, "max_seeds": max_seeds, "random_seeds": random_seeds, "random_seed_len": random_seed_len}
    d.update(kw)
    return d


def run_fuzz(r, st):
    import check_helpers as ch  # provided by bin/check at import time
    here = ch.HERE
    hdir = r.build("asan", [st["binary"]])
    exe = os.path.join(hdir, st["binary"] + ".fuzz")
    repo = os.environ.get("VERIF_REPO", "/repo")
    seeds = os.path.join(r.run_dir, "seeds-" + st["binary"])
    os.makedirs(seeds, exist_ok=True)
    n_seed = 0
    candidates = []
    for c in st["corpus"]:
        c = c.replace("$REPO", repo).replace("$VERIF", here)
        for root, _, files in os.walk(c):
            for f in sorted(files):
                candidates.append(os.path.join(root, f))
    limit = st.get("max_seed_size") or (st["max_len"] - 1)
    candidates = [p for p in candidates if os.path.isfile(p) and os.path.getsize(p) <= limit]
    # seed directories listed under "pinned" are used whole (hand-made seeds that aim at a region); only the rest is sampled
    pinned_dirs = [c.replace("$REPO", repo).replace("$VERIF", here).rstrip("/") + "/" for c in st.get("pinned", [])]
    pinned = [p for p in candidates if any(p.startswith(d) for d in pinned_dirs)]
    candidates = [p for p in candidates if p not in pinned]
    if st.get("max_seeds") and len(candidates) > st["max_seeds"]:
        # deterministic sample: order by a hash of (VERIF_SEED, path)
        candidates.sort(key=lambda p: hashlib.sha1(("%d:%s" % (r.seed, p)).encode()).hexdigest())
        candidates = sorted(candidates[: st["max_seeds"]])
    candidates = sorted(pinned) + candidates
    if st.get("random_seeds"):
        import random
        rng = random.Random(r.seed * 7919 + 13)
        for i in range(st["random_seeds"]):
            data = bytes(rng.getrandbits(8) for _ in range(st["random_seed_len"]))
            open(os.path.join(seeds, "rnd-%04d" % i), "wb").write(data)
            n_seed += 1
    for c in [None]:
        for root, _, files in [(None, None, candidates)]:
            for p in files:
                try:
                    if True:
                        data = open(p, "rb").read()
                        if st.get("prefix_config_byte"):
                            for cfg in st["prefix_config_byte"]:
                                open(os.path.join(seeds, "%s-%d" % (hashlib.sha1(data).hexdigest()[:16], cfg)), "wb").write(bytes([cfg]) + data)
                                n_seed += 1
                        else:
                            open(os.path.join(seeds, hashlib.sha1(data).hexdigest()[:16]), "wb").write(data)
                            n_seed += 1
                except OSError:
                    pass
    r.notes.append("%s: %d seed inputs" % (st["binary"], n_seed))
    deadline = time.time() + st["seconds"]
    procs = []
    gen = 0

    def spawn(w, g):
        cdir = os.path.join(r.run_dir, "corpus-%s-w%d" % (st["binary"], w))
        os.makedirs(cdir, exist_ok=True)
        part = os.path.join(r.run_dir, "%s-fuzz-w%d-g%d.json" % (st["binary"], w, g))
        left = max(1, int(deadline - time.time()))
        cmd = [exe, cdir, seeds, "-max_total_time=%d" % left, "-seed=%d" % (r.seed * 1000 + w * 7 + g * 100003 + 1), "-max_len=%d" % st["max_len"], "-timeout=%d" % st["timeout"],
               "-rss_limit_mb=%d" % st["rss_mb"], "-artifact_prefix=%s/" % os.path.join(r.run_dir, "art-%s-w%d-g%d" % (st["binary"], w, g)), "-print_final_stats=1", "-verbosity=0"]
        os.makedirs(os.path.join(r.run_dir, "art-%s-w%d-g%d" % (st["binary"], w, g)), exist_ok=True)
        if st.get("dict"):
            cmd.append("-dict=" + st["dict"].replace("$VERIF", here))
        env = dict(r.env, VP_PART=part, VP_SEED=str(r.seed))
        log = open(part + ".log", "w")
        p = subprocess.Popen(cmd, stdout=log, stderr=subprocess.STDOUT, env=env, cwd=r.run_dir, preexec_fn=ch.big_stack)
        return {"proc": p, "w": w, "g": g, "part": part, "art": os.path.join(r.run_dir, "art-%s-w%d-g%d" % (st["binary"], w, g)), "log": part + ".log"}

    for w in range(st["workers"]):
        procs.append(spawn(w, 0))
    stats = {"execs": 0, "cov": 0, "ft": 0, "corpus": 0, "restarts": 0, "slow_or_oom_artifacts": 0}
    seen_sigs = {}
    while procs:
        time.sleep(0.2)
        for p in list(procs):
            if p["proc"].poll() is None:
                if time.time() > deadline + st["timeout"] + 60:
                    p["proc"].kill()
                continue
            procs.remove(p)
            r.collect_part(p["part"])
            log = open(p["log"], errors="replace").read()
            m = re.search(r"stat::number_of_executed_units:\s*(\d+)", log)
            if m:
                stats["execs"] += int(m.group(1))
            for m in re.finditer(r"cov: (\d+) ft: (\d+) corp: (\d+)", log):
                stats["cov"] = max(stats["cov"], int(m.group(1)))
                stats["ft"] = max(stats["ft"], int(m.group(2)))
                stats["corpus"] = max(stats["corpus"], int(m.group(3)))
            arts = sorted(os.listdir(p["art"])) if os.path.isdir(p["art"]) else []
            for a in arts:
                ap = os.path.join(p["art"], a)
                if a.startswith("crash-") or a.startswith("leak-") or a.startswith("timeout-"):
                    triage_artifact(r, st, exe, ap, log, seen_sigs)
                else:
                    stats["slow_or_oom_artifacts"] += 1
            if time.time() < deadline - 5 and not r.violations and stats["restarts"] < st.get("max_restarts", 200):
                stats["restarts"] += 1
                gen += 1
                procs.append(spawn(p["w"], gen))
    r.fuzz_stats = getattr(r, "fuzz_stats", {})
    r.fuzz_stats[st["binary"]] = stats
    r.notes.append("%s libFuzzer: %s" % (st["binary"], stats))


def triage_artifact(r, st, exe, art, log, seen_sigs):
    import check_helpers as ch
    sigs = []
    last = ""
    for _ in range(3):
        try:
            pr = subprocess.run([exe, art, "-timeout=%d" % st["timeout"], "-rss_limit_mb=%d" % st["rss_mb"]], stdout=subprocess.PIPE, stderr=subprocess.STDOUT, text=True, errors="replace", env=r.env, cwd=r.run_dir, timeout=st["timeout"] + 120,
                                preexec_fn=ch.big_stack)
            out = pr.stdout
            rc = pr.returncode
        except subprocess.TimeoutExpired:
            out = "VP-CASE-TIMEOUT"
            rc = 30
        if rc == 0:
            sigs.append(None)
        else:
            m = re.search(r"VP-SEMANTIC-FAIL sig=(.*)", out)
            if m:
                sigs.append(m.group(1).strip())
            elif "ERROR: libFuzzer: timeout" in out or rc == 30:
                sigs.append("hang|?")
            else:
                sigs.append(ch.crash_signature(out))
            last = out
    if None in sigs or len(set(sigs)) != 1:
        r.notes.append("artifact %s did not reproduce deterministically (%s); discarded" % (os.path.basename(art), sigs))
        return
    sig = sigs[0]
    if sig in seen_sigs:
        return
    seen_sigs[sig] = art
    kind = sig.split("|")[0]
    data = open(art, "rb").read()
    os.makedirs(r.replay_dir, exist_ok=True)
    dest = os.path.join(r.replay_dir, "%s-%s.bin" % (st["binary"], hashlib.sha1(data).hexdigest()[:16]))
    shutil.copyfile(art, dest)
    if kind in ("asan:stack-overflow", "hang"):
        hdir = r.build("plain", [st["binary"]])
        pexe = os.path.join(hdir, st["binary"])
        rc, out, err = r.replay(pexe, dest, timeout=300 if kind == "hang" else 120)
        if rc in (0, 10):
            r.notes.append("%s on the sanitised build only (plain build returns); not a violation" % sig)
            os.remove(dest)
            return
    k = ch.known_for(r.prop, sig)
    if k is not None:
        r.known_lines[k["signature"]] = k["what"]
        os.remove(dest)
        return
    open(dest + ".report.txt", "w").write(last[-20000:])
    r.violations.append({"replay": dest, "sig": sig})

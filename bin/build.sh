#!/bin/bash
# Build libCellML from the working tree of ${VERIF_REPO:-/repo} with the repository's own CMake, then the
# harnesses of /verif against the resulting static archive. Incremental; safe to call concurrently (flock).
# usage: bin/build.sh <asan|plain> [target ...]      (no targets = all harnesses)
set -euo pipefail
FLAVOUR="${1:-asan}"; shift || true
HERE="$(cd "$(dirname "$0")/.." && pwd)"
REPO="${VERIF_REPO:-/repo}"
TAG="$FLAVOUR"
if [ "$REPO" != "/repo" ]; then
  TAG="$FLAVOUR-$(echo -n "$REPO" | md5sum | cut -c1-8)"
fi
B="${VERIF_BUILD_ROOT:-$HERE/.build}/$TAG"
mkdir -p "$B/lib" "$B/h"
exec 9>"$B/.lock"
flock 9

case "$FLAVOUR" in
  asan)
    CXX=clang++
    FLAGS="-g -O1 -fsanitize=fuzzer-no-link,address,undefined -fno-sanitize-recover=undefined -fno-omit-frame-pointer -DLIBCELLML_VERIF"
    ;;
  plain)
    CXX=g++
    FLAGS="-g -O1 -DLIBCELLML_VERIF"
    ;;
  *) echo "unknown flavour $FLAVOUR" >&2; exit 2;;
esac

LOG="$B/build.log"
: > "$LOG"
if [ ! -f "$B/lib/build.ninja" ]; then
  # Use the libxml2 the baseline build of the repository uses (miniconda's 2.13.9 config package), if recorded.
  XMLDIR=""
  for c in "$REPO/_build/CMakeCache.txt" /repo/_build/CMakeCache.txt; do
    if [ -f "$c" ]; then XMLDIR="$(sed -n 's/^LibXml2_DIR:PATH=//p' "$c" | head -1)"; [ -n "$XMLDIR" ] && break; fi
  done
  [ -z "$XMLDIR" ] && [ -d /root/miniconda/lib/cmake/libxml2 ] && XMLDIR=/root/miniconda/lib/cmake/libxml2
  XMLARG=()
  if [ -n "$XMLDIR" ] && [ -d "$XMLDIR" ]; then XMLARG=(-DLibXml2_DIR="$XMLDIR"); fi
  cmake "${XMLARG[@]}" -G Ninja -S "$REPO" -B "$B/lib" -DCMAKE_CXX_COMPILER="$CXX" -DCMAKE_CXX_FLAGS="$FLAGS" \
    -DBUILD_TYPE=Debug -DBUILD_SHARED=OFF -DUNIT_TESTS=OFF -DBINDINGS_PYTHON=OFF -DCOVERAGE=OFF -DLLVM_COVERAGE=OFF \
    -DMEMCHECK=OFF -DCLANG_TIDY=OFF -DCOMPILER_CACHE=OFF >>"$LOG" 2>&1 || { cat "$LOG" >&2; echo "CHECK-BROKEN: configuring $REPO failed" >&2; exit 2; }
fi
ninja -C "$B/lib" cellml >>"$LOG" 2>&1 || { tail -50 "$LOG" >&2; echo "CHECK-BROKEN: building $REPO failed" >&2; exit 2; }

python3 "$HERE/bin/hbuild.py" "$FLAVOUR" "$B" "$REPO" "$@" >>"$LOG" 2>&1 || { tail -60 "$LOG" >&2; echo "CHECK-BROKEN: building harnesses failed" >&2; exit 2; }
echo "$B"

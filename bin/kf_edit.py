#!/usr/bin/env python3
"""Atomic edits of known_findings.json (several people work on it at once): every call takes a file lock, re-reads the
file, applies ONE change and writes it back (temp file + rename).

usage:
  bin/kf_edit.py add '<json object>'            append an entry (property, status, signature|commit, what, replay ...)
  bin/kf_edit.py fix <property> '<signature>' <commit> [replay]
                                                turn the known entry with exactly this signature into a fixed one
                                                (status fixed, commit, signature_was; replay replaced when given)
  bin/kf_edit.py set <property> '<signature>' <field> '<value>'
                                                set one field of the entry with this signature / signature_was
  bin/kf_edit.py drop <property> '<signature>'  remove the entry (only for entries added by mistake)
  bin/kf_edit.py list <property>                print the entries of a property
"""
import fcntl
import json
import os
import sys

HOME = os.path.dirname(os.path.dirname(os.path.abspath(__file__)))
PATH = os.path.join(HOME, "known_findings.json")


def main():
    if len(sys.argv) < 3:
        print(__doc__)
        return 2
    cmd = sys.argv[1]
    os.makedirs(os.path.join(HOME, ".build"), exist_ok=True)
    with open(os.path.join(HOME, ".build", "known_findings.lock"), "w") as lock:
        fcntl.flock(lock, fcntl.LOCK_EX)
        data = json.load(open(PATH))
        fs = data["findings"]

        def find(prop, sig):
            hits = [e for e in fs if e["property"] == prop and (e.get("signature") == sig or e.get("signature_was") == sig)]
            if len(hits) != 1:
                sys.exit("kf_edit: %d entries match %s %s" % (len(hits), prop, sig))
            return hits[0]

        if cmd == "list":
            for e in fs:
                if e["property"] == sys.argv[2]:
                    print(e["status"], e.get("signature") or e.get("signature_was") or "", e.get("commit", ""), "|", e["what"][:100])
            return 0
        if cmd == "add":
            e = json.loads(sys.argv[2])
            for k in ("property", "status", "what"):
                if k not in e:
                    sys.exit("kf_edit: entry needs " + k)
            if e["status"] == "known" and "signature" not in e:
                sys.exit("kf_edit: a known entry needs a signature")
            if e["status"] == "fixed" and "commit" not in e:
                sys.exit("kf_edit: a fixed entry needs a commit")
            fs.append(e)
        elif cmd == "fix":
            e = find(sys.argv[2], sys.argv[3])
            e["status"] = "fixed"
            e["commit"] = sys.argv[4]
            if "signature" in e:
                e["signature_was"] = e.pop("signature")
            if len(sys.argv) > 5:
                e["replay"] = sys.argv[5]
        elif cmd == "set":
            e = find(sys.argv[2], sys.argv[3])
            e[sys.argv[4]] = sys.argv[5]
        elif cmd == "drop":
            fs.remove(find(sys.argv[2], sys.argv[3]))
        else:
            print(__doc__)
            return 2
        fs.sort(key=lambda e: (e["property"], 0 if e["status"] == "fixed" else 1))
        tmp = PATH + ".tmp%d" % os.getpid()
        json.dump(data, open(tmp, "w"), indent=1, ensure_ascii=False)
        os.replace(tmp, PATH)
    return 0


if __name__ == "__main__":
    sys.exit(main())

#!/usr/bin/env python3
"""Generate and run a ninja build for the harnesses (kit/ + props/) against a libCellML static archive.

usage: hbuild.py <flavour> <build dir> <repo> [target ...]
Directives in the first lines of a props/*.cpp file:
  // VP-BUILD: standalone        -> has its own main(), not linked with kit/main.cpp / rapidcheck
  // VP-BUILD: flavour=plain     -> only built in that flavour
  // VP-BUILD: fuzz              -> additionally linked with kit/fuzz_main.cpp and libFuzzer as <name>.fuzz (asan only)
  // VP-BUILD: libs=-ldl         -> extra link flags
"""
import os
import re
import subprocess
import sys

flavour, B, repo = sys.argv[1:4]
targets = sys.argv[4:]
HERE = os.path.dirname(os.path.dirname(os.path.abspath(__file__)))
H = os.path.join(B, "h")
os.makedirs(H, exist_ok=True)

cache = open(os.path.join(B, "lib", "CMakeCache.txt")).read()


def cache_get(key):
    m = re.search(r"^%s(?::\w+)?=(.*)$" % re.escape(key), cache, re.M)
    return m.group(1).strip() if m else ""


xml_dir = cache_get("LibXml2_DIR")
if xml_dir and os.path.isdir(xml_dir):
    prefix = os.path.normpath(os.path.join(xml_dir, "..", "..", ".."))
    xml_inc = [os.path.join(prefix, "include", "libxml2"), os.path.join(prefix, "include")]
    xml_link = "-L%s -Wl,-rpath,%s -lxml2 -lz" % (os.path.join(prefix, "lib"), os.path.join(prefix, "lib"))
else:
    inc = cache_get("LIBXML2_INCLUDE_DIR") or "/usr/include/libxml2"
    lib = cache_get("LIBXML2_LIBRARY") or "-lxml2"
    xml_inc = [inc]
    xml_link = "%s -lz" % lib

if flavour == "asan":
    cxx = "clang++"
    flags = "-std=gnu++17 -g -O1 -fsanitize=fuzzer-no-link,address,undefined -fno-sanitize-recover=undefined -fno-omit-frame-pointer"
    link_san = "-fsanitize=address,undefined"
else:
    cxx = "g++"
    flags = "-std=gnu++17 -g -O1"
    link_san = ""

# Files generated from the headers of the repository under test live in the build directory (never in /verif itself, which a
# check run must not modify): gen/c15_enums.inc = X-macro lists of Issue::ReferenceRule, Issue::Level and CellmlElementType.
gen_dir = os.path.join(B, "h", "gen")
os.makedirs(gen_dir, exist_ok=True)
_r = subprocess.run([sys.executable, os.path.join(HERE, "bin", "c15_enums.py"), repo, "--write", os.path.join(gen_dir, "c15_enums.inc")], stdout=subprocess.PIPE, stderr=subprocess.STDOUT, text=True)
if _r.returncode != 0:
    sys.stderr.write(_r.stdout)
    sys.exit(2)

incs = ["-I" + os.path.join(repo, "src", "api"), "-I" + os.path.join(repo, "src", "api", "libcellml", "module"), "-I" + os.path.join(B, "lib", "src", "api"), "-I" + os.path.join(HERE, "kit"), "-I" + gen_dir] + ["-I" + i for i in xml_inc]
# Internal headers are available to harnesses that say so explicitly (hidden-visibility symbols link from the static archive).
incs_internal = ["-I" + os.path.join(repo, "src"), "-I" + os.path.join(B, "lib", "src")]
archive = os.path.join(B, "lib", "src", "libcellmld.a")

kit_srcs = sorted(f for f in os.listdir(os.path.join(HERE, "kit")) if f.endswith(".cpp") and f not in ("main.cpp", "fuzz_main.cpp"))
prop_srcs = sorted(f for f in os.listdir(os.path.join(HERE, "props")) if f.endswith(".cpp"))


def directives(path):
    d = {"standalone": False, "flavour": None, "fuzz": False, "libs": "", "internal": False}
    with open(path, errors="replace") as fh:
        for _ in range(12):
            line = fh.readline()
            m = re.match(r"\s*//\s*VP-BUILD:\s*(.*)", line)
            if not m:
                continue
            for tok in m.group(1).split():
                if tok == "standalone":
                    d["standalone"] = True
                elif tok == "fuzz":
                    d["fuzz"] = True
                elif tok == "internal":
                    d["internal"] = True
                elif tok.startswith("flavour="):
                    d["flavour"] = tok.split("=", 1)[1]
                elif tok.startswith("libs="):
                    d["libs"] += " " + tok.split("=", 1)[1]
    return d


out = []
out.append("cxx = %s" % cxx)
out.append("flags = %s -DLIBCELLML_VERIF -Wall -Wno-unused-function %s" % (flags, " ".join(incs)))
out.append("rule cc\n  command = $cxx $flags $extra -MD -MF $out.d -c $in -o $out\n  depfile = $out.d\n  deps = gcc\n  description = CC $out")
out.append("rule link\n  command = $cxx %s $lflags -o $out $in %s %s $libs\n  description = LINK $out" % (link_san, archive, xml_link))
kit_objs = []
for s in kit_srcs:
    o = "kit_" + s[:-4] + ".o"
    out.append("build %s: cc %s" % (o, os.path.join(HERE, "kit", s)))
    kit_objs.append(o)
out.append("build main.o: cc %s" % os.path.join(HERE, "kit", "main.cpp"))
have_fuzz_main = os.path.exists(os.path.join(HERE, "kit", "fuzz_main.cpp"))
if flavour == "asan" and have_fuzz_main:
    out.append("build fuzz_main.o: cc %s" % os.path.join(HERE, "kit", "fuzz_main.cpp"))
all_bins = []
for s in prop_srcs:
    name = s[:-4]
    path = os.path.join(HERE, "props", s)
    d = directives(path)
    if d["flavour"] and d["flavour"] != flavour:
        continue
    o = "prop_" + name + ".o"
    out.append("build %s: cc %s" % (o, path))
    if d["internal"]:
        out.append("  extra = %s" % " ".join(incs_internal))
    if d["standalone"]:
        out.append("build %s: link %s %s | %s" % (name, o, " ".join(kit_objs), archive))
        out.append("  libs = %s" % d["libs"])
    else:
        out.append("build %s: link %s %s main.o | %s" % (name, o, " ".join(kit_objs), archive))
        out.append("  libs = -lrapidcheck %s" % d["libs"])
    all_bins.append(name)
    if d["fuzz"] and flavour == "asan" and have_fuzz_main:
        out.append("build %s.fuzz: link %s %s fuzz_main.o | %s" % (name, o, " ".join(kit_objs), archive))
        out.append("  lflags = -fsanitize=fuzzer\n  libs = %s" % d["libs"])
        all_bins.append(name + ".fuzz")
out.append("default %s" % " ".join(all_bins))
text = "\n".join(out) + "\n"
nf = os.path.join(H, "build.ninja")
if not os.path.exists(nf) or open(nf).read() != text:
    open(nf, "w").write(text)
want = []
for t in targets:
    for b in all_bins:
        if b == t or b.startswith(t + ".") or b.startswith(t + "_"):
            want.append(b)
    if t in all_bins and t not in want:
        want.append(t)
r = subprocess.call(["ninja", "-C", H] + sorted(set(want)))
sys.exit(r)

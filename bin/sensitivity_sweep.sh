#!/bin/bash
# bin/sensitivity_sweep.sh <result.tsv> [tier] [patch ...]
# Runs every deliberate property-breaking patch (default: mutants/*.patch and seeded/*/patch.diff) through the check of
# its property, like bin/mutation_check.sh, but on ONE scratch copy of the repository that is patched, checked and
# reverted in turn, so that the library is rebuilt incrementally. The scratch copy and its build output are removed at
# the end. One line per patch is appended to <result.tsv>: property, patch, DETECTED|MISSED|BROKEN, seconds, detail.
set -uo pipefail
HERE="$(cd "$(dirname "$0")/.." && pwd)"
OUTTSV="$(readlink -f "$1")"; shift
TIER="${1:-quick}"; [ $# -gt 0 ] && shift
if [ $# -gt 0 ]; then PATCHES=("$@"); else PATCHES=("$HERE"/mutants/*.patch "$HERE"/seeded/*/patch.diff); fi
S="$(mktemp -d /tmp/verif-sweep.XXXXXX)"
trap 'rm -rf "$S"' EXIT
mkdir -p "$S/repo" "$S/build"
git -C /repo archive HEAD | tar -x -C "$S/repo"
git -C /repo diff HEAD | (cd "$S/repo" && patch -p1 -s) 2>/dev/null || true
(cd "$S/repo" && git init -q . && git add -A >/dev/null 2>&1 && git -c user.email=v@v -c user.name=v commit -q -m base) || exit 2
BASE="$(git -C /repo rev-parse --short HEAD)"
for P in "${PATCHES[@]}"; do
  P="$(readlink -f "$P")"
  case "$P" in
    */seeded/*) PROP="$(basename "$(dirname "$P")" | sed 's/-.*//')"; NAME="seeded/$(basename "$(dirname "$P")")";;
    *) PROP="$(basename "$P" | sed 's/-.*//')"; NAME="$(basename "$P")";;
  esac
  if grep -q -P "^$PROP\t$NAME\t" "$OUTTSV" 2>/dev/null; then continue; fi
  git -C "$S/repo" checkout -q -- . ; git -C "$S/repo" clean -q -fd
  if ! (cd "$S/repo" && patch -p1 -s < "$P") >/dev/null 2>&1; then
    printf '%s\t%s\tBROKEN\t0\tpatch does not apply\t%s\n' "$PROP" "$NAME" "$BASE" >> "$OUTTSV"; continue
  fi
  rm -rf "$S/out"; mkdir -p "$S/out"
  START=$(date +%s)
  VERIF_REPO="$S/repo" VERIF_BUILD_ROOT="$S/build" VERIF_OUT="$S/out" VERIF_SEED="${VERIF_SEED:-1}" "$HERE/bin/check" "$PROP" "$TIER" > "$S/log.txt" 2>&1
  RC=$?
  END=$(date +%s)
  if [ $RC -eq 1 ] && grep -q "^VIOLATION property=$PROP" "$S/log.txt"; then
    printf '%s\t%s\tDETECTED\t%s\t%s\t%s\n' "$PROP" "$NAME" "$((END-START))" "$(grep -m1 '^VIOLATION-DETAIL' "$S/log.txt" | cut -c1-300 | tr '\t' ' ')" "$BASE" >> "$OUTTSV"
  elif [ $RC -eq 0 ]; then
    printf '%s\t%s\tMISSED\t%s\t\t%s\n' "$PROP" "$NAME" "$((END-START))" "$BASE" >> "$OUTTSV"
  else
    printf '%s\t%s\tBROKEN\t%s\t%s\t%s\n' "$PROP" "$NAME" "$((END-START))" "rc=$RC $(tail -3 "$S/log.txt" | tr '\n\t' '  ' | cut -c1-300)" "$BASE" >> "$OUTTSV"
  fi
  tail -1 "$OUTTSV"
done

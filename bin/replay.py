#!/usr/bin/env python3
import os, subprocess, sys
HERE = os.path.dirname(os.path.dirname(os.path.abspath(__file__)))
sys.path.insert(0, os.path.join(HERE, "bin"))
import plans
prop, path = sys.argv[1], os.path.abspath(sys.argv[2])
plan = plans.PLANS[prop]
binary = plan.get("replay_binary")
if binary is None:
    for st in plan["quick"]:
        if "binary" in st:
            binary = st["binary"]
            break
# choose the binary from the file name when several harnesses serve one property (e.g. C01-bytes-..., C09_args-...)
base = os.path.basename(path)
flavour = "asan"
for st in plan["quick"] + plan.get("thorough", []):
    b = st.get("binary")
    if b and base.startswith(b + "-"):
        binary = b
        flavour = st.get("flavour", "asan")
r = subprocess.run([os.path.join(HERE, "bin", "build.sh"), flavour, binary], stdout=subprocess.PIPE, text=True)
if r.returncode != 0:
    print("CHECK-BROKEN build failed"); sys.exit(2)
exe = os.path.join(r.stdout.strip().splitlines()[-1], "h", binary)
env = dict(os.environ, VERIF_HOME=HERE, LC_ALL="C", ASAN_OPTIONS="detect_leaks=0:exitcode=77", UBSAN_OPTIONS="print_stacktrace=1:halt_on_error=1:exitcode=77")
known = os.path.join(HERE, ".build", "known.tsv")
import json
with open(known, "w") as fh:
    import glob
    fs = []
    for p in [os.path.join(HERE, "known_findings.json")]:
        if os.path.exists(p):
            fs.extend(json.load(open(p)).get("findings", []))
    for f in fs:
        if f.get("status") == "known":
            fh.write("%s\t%s\t%s\n" % (f["property"], f["signature"], f["what"].replace("\n", " ")))
env["VERIF_KNOWN"] = known
if base.endswith(".rerun"):
    # history-dependent failure: the replay unit is a whole worker run (pure function of its seed)
    d = json.load(open(path))
    scratch = os.path.join(HERE, ".build", "run", "rerun-%d" % os.getpid())
    os.makedirs(scratch, exist_ok=True)
    rc = subprocess.call([exe] + d["args"] + ["--part", os.path.join(scratch, "part.json"), "--replays", os.path.join(scratch, "replays")], env=env)
    import shutil
    shutil.rmtree(scratch, ignore_errors=True)
elif os.path.exists(exe + ".fuzz") and not base.endswith(".tape"):
    rc = subprocess.call([exe + ".fuzz", path], env=env)
else:
    rc = subprocess.call([exe, "--replay", path], env=env)
sys.exit(0 if rc == 0 else 1)

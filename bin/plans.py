"""Per-property plans: which stages bin/check runs for the quick and the thorough tier.
Each property has a file bin/plans.d/<id>.py defining PLAN (and CLAIM for MANIFEST.json); helpers tape()/replays()/custom()
are injected into its namespace."""
import glob
import os


def tape(binary, cases, size=300, mode="rc", **kw):
    """Stage running a tape-driven harness: mode rc = rapidcheck random tapes (cases split over workers), ex = bounded-exhaustive."""
    d = {"kind": "tape", "name": "%s:%s" % (binary, mode), "binary": binary, "cases": cases, "size": size, "mode": mode}
    d.update(kw)
    return d


def replays(binary, **kw):
    """Stage replaying every saved replays/<id>/<prefix>*.tape (seconds-long regression tier)."""
    d = {"kind": "replays", "name": "replays:" + binary, "binary": binary}
    d.update(kw)
    return d


def custom(name, fn, **kw):
    """Stage implemented by a python callable fn(runner, stage) (libFuzzer campaigns, multi-process fault drivers...)."""
    d = {"kind": "custom", "name": name, "fn": fn}
    d.update(kw)
    return d


PLANS = {}
CLAIMS = {}
_here = os.path.dirname(os.path.abspath(__file__))
for _f in sorted(glob.glob(os.path.join(_here, "plans.d", "C*.py"))):
    _ns = {"tape": tape, "replays": replays, "custom": custom, "__file__": _f}
    exec(compile(open(_f).read(), _f, "exec"), _ns)
    _id = os.path.basename(_f)[:-3]
    if "PLAN" in _ns:
        PLANS[_id] = _ns["PLAN"]
    if "CLAIM" in _ns:
        CLAIMS[_id] = _ns["CLAIM"]

"""Per-property plans: which stages bin/check runs for the quick and the thorough tier."""


def tape(binary, cases, size=300, mode="rc", **kw):
    d = {"kind": "tape", "name": "%s:%s" % (binary, mode), "binary": binary, "cases": cases, "size": size, "mode": mode}
    d.update(kw)
    return d


def replays(binary, **kw):
    d = {"kind": "replays", "name": "replays:" + binary, "binary": binary}
    d.update(kw)
    return d


PLANS = {
    "C02": {
        "level": "exploration",
        "quick": [replays("C02"), tape("C02", 20000, size=400)],
        "thorough": [replays("C02"), tape("C02", 500000, size=500)],
        "class_floors": {"class-B": 0.1, "reset": 0.05, "import": 0.05, "multi-map-connection": 0.02, "encapsulation-depth>=2": 0.02},
    },
}

#!/bin/bash
# Runs the repository's own test suite with the verification guard OFF (no -DLIBCELLML_VERIF), in a build directory
# of ours configured like the baseline build (/repo/_build: default options, shared library, unit tests on), and
# compares the passing test cases with /root/.vp/BASELINE.json "stable_pass". Exit 0 iff every stable test passes.
set -uo pipefail
HERE="$(cd "$(dirname "$0")/.." && pwd)"
REPO="${VERIF_REPO:-/repo}"
B="${VERIF_BUILD_ROOT:-$HERE/.build}/baseline"
if [ "$REPO" != "/repo" ]; then B="$B-$(echo -n "$REPO" | md5sum | cut -c1-8)"; fi
mkdir -p "$B"
XMLDIR=""
for c in "$REPO/_build/CMakeCache.txt" /repo/_build/CMakeCache.txt; do
  if [ -f "$c" ]; then XMLDIR="$(sed -n 's/^LibXml2_DIR:PATH=//p' "$c" | head -1)"; [ -n "$XMLDIR" ] && break; fi
done
[ -z "$XMLDIR" ] && [ -d /root/miniconda/lib/cmake/libxml2 ] && XMLDIR=/root/miniconda/lib/cmake/libxml2
XMLARG=()
if [ -n "$XMLDIR" ] && [ -d "$XMLDIR" ]; then XMLARG=(-DLibXml2_DIR="$XMLDIR"); fi
if [ ! -f "$B/build.ninja" ]; then
  cmake "${XMLARG[@]}" -G Ninja -S "$REPO" -B "$B" -DCOVERAGE=OFF -DLLVM_COVERAGE=OFF -DMEMCHECK=OFF -DCLANG_TIDY=OFF -DCOMPILER_CACHE=OFF >"$B/configure.log" 2>&1 || { tail -30 "$B/configure.log"; echo "baseline configure failed"; exit 2; }
fi
ninja -C "$B" >"$B/build.log" 2>&1 || { tail -40 "$B/build.log"; echo "baseline build failed"; exit 2; }
rm -rf "$B/gtest-xml"; mkdir -p "$B/gtest-xml"
(cd "$B" && GTEST_OUTPUT="xml:$B/gtest-xml/" ctest -j16 --timeout 900 >"$B/ctest.log" 2>&1)
python3 - "$B" <<'EOF'
import glob, json, re, sys, xml.etree.ElementTree as ET
B = sys.argv[1]
passed, failed = set(), set()
for f in glob.glob(B + "/gtest-xml/*.xml"):
    try:
        root = ET.parse(f).getroot()
    except Exception as e:
        print("unreadable", f, e)
        continue
    for tc in root.iter("testcase"):
        name = "%s::%s" % (tc.get("classname"), tc.get("name"))
        bad = tc.find("failure") is not None or tc.find("error") is not None
        (failed if bad else passed).add(name)
log = open(B + "/ctest.log").read()
for m in re.finditer(r"Test\s+#\d+:\s+(\S+)\s+\.+\s*(Passed|\*\*\*\w+|Failed)", log):
    n = "%s::%s" % (m.group(1), m.group(1))
    (passed if m.group(2) == "Passed" else failed).add(n)
base = json.load(open("/root/.vp/BASELINE.json"))
stable = set(base["stable_pass"])
skipped = set()
missing = sorted(s for s in stable - passed if s not in skipped)
print("baseline_off: %d stable tests, %d passed here, %d not passing, %d skipped (python bindings not built)" % (len(stable), len(stable & passed), len(missing), len(skipped & (stable - passed))))
for s in missing[:50]:
    print("  NOT PASSING:", s, "(failed)" if s in failed else "(not run)")
sys.exit(1 if missing else 0)
EOF

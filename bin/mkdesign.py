#!/usr/bin/env python3
"""Refreshes the generated blocks of DESIGN.md (between <!-- BEGIN:x --> and <!-- END:x --> markers) from the files
they summarise, so that the document cannot drift from the machinery:

  findings        known_findings.json          -> table of section 3
  asbuilt:<ID>    notes/<ID>.md (sections Deviations, Blind spots) -> "As built" block at the top of each 4.<ID>
  sensitivity     notes/sensitivity.tsv                            -> table of section 10.1
  seeded          seeded/*/meta.json                               -> table of section 10.2
  manifest        MANIFEST.json                                    -> list of claimed checks in section 6

usage: bin/mkdesign.py            (rewrites DESIGN.md in place; prints what changed)
"""
import glob
import io
import json
import os
import re
import subprocess
import sys

HOME = os.path.dirname(os.path.dirname(os.path.abspath(__file__)))
IDS = ['C%02d' % i for i in range(1, 21)]


def findings():
    out = subprocess.run([sys.executable, os.path.join(HOME, 'bin', 'mkfindings.py'), '--short', '260'], capture_output=True, text=True).stdout
    return out.strip()


def section(text, pattern):
    """Body of the first '## ' section whose title matches pattern (regex, case-insensitive)."""
    heads = [(m.start(), m.group(1)) for m in re.finditer(r'^## (.*)$', text, re.M)]
    for i, (pos, title) in enumerate(heads):
        if re.search(pattern, title, re.I):
            end = heads[i + 1][0] if i + 1 < len(heads) else len(text)
            body = text[pos:end].split('\n', 1)[1] if '\n' in text[pos:end] else ''
            return title, body.strip()
    return None, ''


def asbuilt(pid):
    p = os.path.join(HOME, 'notes', pid + '.md')
    if not os.path.exists(p):
        return f'**As built.** No notes file for {pid}.'
    t = open(p).read()
    out = [f'**As built** (details, reproducers and measurements: `notes/{pid}.md`).']
    dt, d = section(t, r'^(decisions\s*/\s*)?deviations')
    if d:
        out.append('*Deviations from the design below:*\n\n' + d)
    bt, b = section(t, r'^blind spots')
    if b:
        out.append('*Measured / known blind spots:*\n\n' + b)
    for pat, label in ((r'independent exploration', 'Independent exploration'), (r'seeded changes', 'Seeded changes')):
        et, e = section(t, pat)
        if et:
            out.append(f'*{label}:* see the section "{et}" of `notes/{pid}.md` (what was found or missed, what was added to the check, dispositions, revert mutants).')
    return '\n\n'.join(out)


def sensitivity():
    p = os.path.join(HOME, 'notes', 'sensitivity.tsv')
    if not os.path.exists(p):
        return '(no sweep recorded yet: `bin/sensitivity_sweep.sh notes/sensitivity.tsv`)'
    rows = [l.rstrip('\n').split('\t') for l in open(p) if l.strip()]
    per = {}
    for r in rows:
        per.setdefault(r[0], []).append(r)
    lines = []
    tot = {'DETECTED': 0, 'MISSED': 0, 'BROKEN': 0}
    for r in rows:
        tot[r[2]] = tot.get(r[2], 0) + 1
    lines.append(f"{len(rows)} patches: {tot.get('DETECTED', 0)} detected, {tot.get('MISSED', 0)} missed, {tot.get('BROKEN', 0)} not applicable to the current tree / not compiling.\n")
    lines.append('| property | patch | result | seconds | signature of the violation | /repo base |')
    lines.append('|---|---|---|---|---|---|')
    for pid in sorted(per):
        for r in sorted(per[pid], key=lambda r: r[1]):
            det = r[4] if len(r) > 4 else ''
            m = re.search(r'sig=(.*)$', det)
            sig = (m.group(1) if m else det)[:(110 if r[2] == 'DETECTED' and 're-run' not in det else 400)].replace('|', '\\|')
            lines.append(f'| {r[0]} | `{r[1]}` | {r[2]} | {r[3]} | {("`" + sig + "`") if sig else ""} | {r[5] if len(r) > 5 else ""} |')
    return '\n'.join(lines)


def seeded():
    metas = [json.load(open(m)) for m in sorted(glob.glob(os.path.join(HOME, 'seeded', '*', 'meta.json')))]
    missed = [m for m in metas if m.get('result', '').startswith('MISSED')]
    lines = [f"{len(metas)} confirmed changes; {len(metas) - len(missed)} detected by the check as it stood, {len(missed)} missed at first (all detected after the extension described in the result column, except where it says otherwise).", '',
             '| id | change (authored by a fresh sub-agent that saw only the property text) | needs | result |', '|---|---|---|---|']
    for d in sorted(glob.glob(os.path.join(HOME, 'seeded', '*'))):
        mp = os.path.join(d, 'meta.json')
        if not os.path.exists(mp):
            continue
        m = json.load(open(mp))
        esc = lambda s: re.sub(r'\s+', ' ', s).replace('|', '\\|')
        lines.append(f"| `seeded/{os.path.basename(d)}` | {esc(m.get('summary', ''))} | {esc(m.get('needs', ''))} | {esc(m.get('result', ''))} |")
    return '\n'.join(lines)


def manifest():
    m = json.load(open(os.path.join(HOME, 'MANIFEST.json')))
    lines = ['| id | level | engine | technique |', '|---|---|---|---|']
    for c in m.get('checks', []):
        lines.append(f"| {c.get('property_id')} | {(c.get('level_claimed') or {}).get('category')} | {c.get('engine', '')} | {c.get('technique', '').replace('|', '/')} |")
    na = m.get('not_applicable', [])
    lines.append('')
    lines.append('`not_applicable`: ' + (', '.join(f"{x.get('property_id')} ({x.get('reason')})" for x in na) if na else 'none.'))
    return '\n'.join(lines)


def measured():
    lines = ['| id | tier | evaluations | distinct non-trivial | known findings met | wall s (at the load of that run) |', '|---|---|---|---|---|---|']
    for pid in IDS:
        p = os.path.join(HOME, 'evidence', pid + '.json')
        if not os.path.exists(p):
            lines.append(f'| {pid} | - | - | - | - | - |')
            continue
        d = json.load(open(p))
        c = d.get('coverage', {})
        lines.append(f"| {pid} | {d.get('tier')} | {c.get('evaluations')} | {c.get('distinct_nontrivial', c.get('nontrivial'))} | {len(c.get('known_findings_hit', {}) or {})} | {d.get('wall_s')} |")
    return '\n'.join(lines)


def main():
    path = os.path.join(HOME, 'DESIGN.md')
    text = open(path).read()
    gens = {'measured': measured, 'findings': findings, 'sensitivity': sensitivity, 'seeded': seeded, 'manifest': manifest}
    for pid in IDS:
        gens['asbuilt:' + pid] = (lambda p=pid: asbuilt(p))
    changed = []
    for key, fn in gens.items():
        b, e = f'<!-- BEGIN:{key} -->', f'<!-- END:{key} -->'
        if b not in text:
            if key.startswith('asbuilt:'):
                pid = key.split(':')[1]
                m = re.search(r'^### ' + pid + r' — .*$', text, re.M)
                if not m:
                    print('no heading for', pid)
                    continue
                text = text[:m.end()] + f'\n\n{b}\n{e}\n' + text[m.end():]
            else:
                print('marker missing:', key)
                continue
        i, j = text.index(b) + len(b), text.index(e)
        new = '\n' + fn().strip() + '\n'
        if text[i:j] != new:
            changed.append(key)
            text = text[:i] + new + text[j:]
    open(path, 'w').write(text)
    print('refreshed:', ', '.join(changed) if changed else 'nothing')


if __name__ == '__main__':
    main()

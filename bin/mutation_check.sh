#!/bin/bash
# bin/mutation_check.sh <property id> <patch file> [tier]
# Sensitivity test: applies a deliberate property-breaking patch to a scratch copy of the repository (never to /repo),
# runs the property's check against the copy and expects exit 1 with a VIOLATION line. Scratch copy, its build output and
# the evidence/replays of the run are removed afterwards. Prints DETECTED / MISSED / BROKEN.
set -uo pipefail
HERE="$(cd "$(dirname "$0")/.." && pwd)"
PROP="$1"; PATCH="$(readlink -f "$2")"; TIER="${3:-quick}"
S="$(mktemp -d /tmp/verif-scratch.XXXXXX)"
trap 'rm -rf "$S"' EXIT
mkdir -p "$S/repo" "$S/build" "$S/out"
git -C /repo archive HEAD | tar -x -C "$S/repo"
# uncommitted changes of /repo's working tree are part of "the current tree" too
git -C /repo diff HEAD | (cd "$S/repo" && patch -p1 -s) 2>/dev/null || true
if ! (cd "$S/repo" && patch -p1 -s < "$PATCH"); then echo "BROKEN patch does not apply: $PATCH"; exit 2; fi
START=$(date +%s)
VERIF_REPO="$S/repo" VERIF_BUILD_ROOT="$S/build" VERIF_OUT="$S/out" VERIF_SEED="${VERIF_SEED:-1}" "$HERE/bin/check" "$PROP" "$TIER" > "$S/log.txt" 2>&1
RC=$?
END=$(date +%s)
if [ $RC -eq 1 ] && grep -q "^VIOLATION property=$PROP" "$S/log.txt"; then
  echo "DETECTED $PROP $(basename "$PATCH") in $((END-START))s: $(grep -m1 '^VIOLATION-DETAIL' "$S/log.txt")"
  exit 0
elif [ $RC -eq 0 ]; then
  echo "MISSED $PROP $(basename "$PATCH") ($((END-START))s)"; tail -3 "$S/log.txt"
  exit 1
else
  echo "BROKEN $PROP $(basename "$PATCH") rc=$RC"; tail -15 "$S/log.txt"
  exit 2
fi

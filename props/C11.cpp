// C11 — clone() is a faithful, independent deep copy.
// Every kind of entity of generated models (valid or not) is cloned; the clone is compared with the original through an
// ordered dump over public getters (presence flags, unit definitions held by variables, equivalences with ids,
// import-source grouping), equals() in both directions, parent(), object identity between the two graphs, Printer output, and
// one API mutation of either side that must leave the other side's dump unchanged.
#include <libcellml>

#include <libxml/parser.h>

#include <functional>
#include <map>
#include <set>

#include "c10_specmut.h"
#include "gen.h"
#include "prop.h"
#include "spec.h"

using namespace vp;
using namespace vp::c10;
using namespace libcellml;

namespace {

// quoted, on one line (the localisation of a difference works line by line)
std::string q(const std::string &s)
{
    std::string o = "\"";
    for (char ch : s) {
        if (ch == '\n') {
            o += "\\n";
        } else if (ch == '\r') {
            o += "\\r";
        } else {
            o += ch;
        }
    }
    return o + "\"";
}

// ------------------------------------------------------------------------------------------------ extended dump

struct XDump
{
    bool modelRoot = false;
    ModelPtr root;
    std::map<const ImportSource *, int> srcIds;
    std::map<const Variable *, std::string> varAddr; // variable -> "component index path:variable index"
    std::string linkage; // per variable with units, in traversal order: which units object it holds

    // grouped: the entity is printed inside an <import> block, so which entities share one ImportSource object is content
    // (units objects held by variables are never printed; for them only the values are compared)
    std::string imp(const ImportedEntityPtr &e, bool grouped = true)
    {
        if (!e->isImport()) {
            return e->importReference().empty() ? std::string() : " import_reference_without_source=" + q(e->importReference());
        }
        auto s = e->importSource();
        if (!grouped) {
            return " import{url=" + q(s->url()) + " id=" + q(s->id()) + " ref=" + q(e->importReference()) + (s->hasModel() ? " resolved" : " unresolved") + "}";
        }
        auto it = srcIds.find(s.get());
        if (it == srcIds.end()) {
            int n = static_cast<int>(srcIds.size());
            it = srcIds.insert({s.get(), n}).first;
        }
        return " import{src#" + std::to_string(it->second) + " url=" + q(s->url()) + " id=" + q(s->id()) + " ref=" + q(e->importReference()) + (s->hasModel() ? " resolved" : " unresolved") + "}";
    }
    std::string units(const UnitsPtr &u, const std::string &ind, bool held = false)
    {
        std::string s = ind + "units name=" + q(u->name()) + " id=" + q(u->id()) + imp(u, !held) + "\n";
        for (size_t i = 0; i < u->unitCount(); ++i) {
            std::string ref, prefix, id;
            double e = 0, m = 0;
            u->unitAttributes(i, ref, prefix, e, m, id);
            s += ind + "  unit ref=" + q(ref) + " prefix=" + q(prefix) + " exponent=" + fmtDouble(e) + " multiplier=" + fmtDouble(m) + " id=" + q(id) + "\n";
        }
        return s;
    }
    std::string variable(const VariablePtr &v, const std::string &ind)
    {
        std::string s = ind + "variable name=" + q(v->name()) + " id=" + q(v->id()) + " initial=" + q(v->initialValue()) + " interface=" + q(v->interfaceType());
        auto u = v->units();
        if (u == nullptr) {
            return s + " units=<none>\n";
        }
        if (modelRoot) {
            // observation only (not part of the compared text): is the held units object one of the model's own?
            std::string link = "standalone";
            for (size_t i = 0; i < root->unitsCount(); ++i) {
                if (root->units(i) == u) {
                    link = "model-units#" + std::to_string(i);
                    break;
                }
            }
            linkage += link + ";";
        }
        s += "\n" + units(u, ind + "  held-", true);
        if (modelRoot) {
            std::vector<std::string> eqs;
            for (size_t j = 0; j < v->equivalentVariableCount(); ++j) {
                auto e = v->equivalentVariable(j);
                std::string target = "<expired>";
                if (e != nullptr) {
                    auto it = varAddr.find(e.get());
                    target = it != varAddr.end() ? it->second : "<outside this model> name=" + q(e->name());
                }
                eqs.push_back(ind + "  eq -> " + target + (e != nullptr ? " mapping_id=" + q(Variable::equivalenceMappingId(v, e)) + " connection_id=" + q(Variable::equivalenceConnectionId(v, e)) : std::string()) + "\n");
            }
            std::sort(eqs.begin(), eqs.end());
            for (const auto &l : eqs) {
                s += l;
            }
        }
        return s;
    }
    std::string resetVar(const VariablePtr &v, const ComponentPtr &owner, const std::string &ind, const char *role)
    {
        if (v == nullptr) {
            return ind + "  " + role + "=<none>\n";
        }
        if (owner != nullptr) {
            for (size_t i = 0; i < owner->variableCount(); ++i) {
                if (owner->variable(i) == v) {
                    return ind + "  " + role + "=own-variable#" + std::to_string(i) + "\n";
                }
            }
        }
        // not a variable of the owning component (or no owner): describe it by value
        XDump plain;
        return ind + "  " + role + "=detached\n" + plain.variable(v, ind + "    ");
    }
    std::string reset(const ResetPtr &r, const ComponentPtr &owner, const std::string &ind)
    {
        std::string s = ind + "reset id=" + q(r->id()) + " test_value_id=" + q(r->testValueId()) + " reset_value_id=" + q(r->resetValueId()) + " test_value=" + q(r->testValue()) + " reset_value=" + q(r->resetValue())
                        + " order=" + (r->isOrderSet() ? std::to_string(r->order()) : std::string("<unset>")) + "\n";
        s += resetVar(r->variable(), owner, ind, "variable");
        s += resetVar(r->testVariable(), owner, ind, "test_variable");
        return s;
    }
    std::string component(const ComponentPtr &c, const std::string &ind)
    {
        std::string s = ind + "component name=" + q(c->name()) + " id=" + q(c->id()) + imp(c) + " math=" + q(c->math()) + " encId=" + q(c->encapsulationId()) + "\n";
        for (size_t i = 0; i < c->variableCount(); ++i) {
            s += variable(c->variable(i), ind + "  ");
        }
        for (size_t i = 0; i < c->resetCount(); ++i) {
            s += reset(c->reset(i), c, ind + "  ");
        }
        for (size_t i = 0; i < c->componentCount(); ++i) {
            s += component(c->component(i), ind + "  ");
        }
        return s;
    }
    void addresses(const ComponentPtr &c, const std::string &path)
    {
        for (size_t i = 0; i < c->variableCount(); ++i) {
            varAddr[c->variable(i).get()] = path + ":" + std::to_string(i);
        }
        for (size_t i = 0; i < c->componentCount(); ++i) {
            addresses(c->component(i), path + "/" + std::to_string(i));
        }
    }
    std::string model(const ModelPtr &m)
    {
        modelRoot = true;
        root = m;
        for (size_t i = 0; i < m->componentCount(); ++i) {
            addresses(m->component(i), std::to_string(i));
        }
        std::string s = "model name=" + q(m->name()) + " id=" + q(m->id()) + " encId=" + q(m->encapsulationId()) + "\n";
        for (size_t i = 0; i < m->unitsCount(); ++i) {
            s += units(m->units(i), "  ");
        }
        for (size_t i = 0; i < m->componentCount(); ++i) {
            s += component(m->component(i), "  ");
        }
        return s;
    }
};

std::string xdump(const EntityPtr &e, Loc::Kind kind, std::string *linkage = nullptr)
{
    XDump d;
    switch (kind) {
    case Loc::MODEL: {
        std::string s = d.model(std::dynamic_pointer_cast<Model>(e));
        if (linkage != nullptr) {
            *linkage = d.linkage;
        }
        return s;
    }
    case Loc::COMP: return d.component(std::dynamic_pointer_cast<Component>(e), "");
    case Loc::UNITS: return d.units(std::dynamic_pointer_cast<Units>(e), "");
    case Loc::VAR: return d.variable(std::dynamic_pointer_cast<Variable>(e), "");
    case Loc::RESET: return d.reset(std::dynamic_pointer_cast<Reset>(e), nullptr, "");
    default: return "";
    }
}

EntityPtr cloneOf(const EntityPtr &e, Loc::Kind kind)
{
    switch (kind) {
    case Loc::MODEL: return std::dynamic_pointer_cast<Model>(e)->clone();
    case Loc::COMP: return std::dynamic_pointer_cast<Component>(e)->clone();
    case Loc::UNITS: return std::dynamic_pointer_cast<Units>(e)->clone();
    case Loc::VAR: return std::dynamic_pointer_cast<Variable>(e)->clone();
    case Loc::RESET: return std::dynamic_pointer_cast<Reset>(e)->clone();
    default: return nullptr;
    }
}

// ------------------------------------------------------------------------------------------------ object graph

struct Handle
{
    std::string kind; // Model Component Variable Reset Units HeldUnits ImportSource ResetVariable
    EntityPtr e;
    int depth = 0;
    ComponentPtr owner; // for Variable / Reset handles
};

void collectComp(const ComponentPtr &c, int depth, std::vector<Handle> &out);

void collectUnits(const UnitsPtr &u, const std::string &kind, int depth, std::vector<Handle> &out)
{
    out.push_back({kind, u, depth, nullptr});
    if (u->isImport()) {
        out.push_back({"ImportSource", u->importSource(), depth + 1, nullptr});
    }
}

void collectVar(const VariablePtr &v, const std::string &kind, int depth, const ComponentPtr &owner, std::vector<Handle> &out)
{
    out.push_back({kind, v, depth, owner});
    if (v->units() != nullptr) {
        collectUnits(v->units(), "HeldUnits", depth + 1, out);
    }
}

void collectReset(const ResetPtr &r, int depth, const ComponentPtr &owner, std::vector<Handle> &out)
{
    out.push_back({"Reset", r, depth, owner});
    for (const auto &v : {r->variable(), r->testVariable()}) {
        if (v != nullptr) {
            collectVar(v, "ResetVariable", depth + 1, nullptr, out);
        }
    }
}

void collectComp(const ComponentPtr &c, int depth, std::vector<Handle> &out)
{
    out.push_back({"Component", c, depth, nullptr});
    if (c->isImport()) {
        out.push_back({"ImportSource", c->importSource(), depth + 1, nullptr});
    }
    for (size_t i = 0; i < c->variableCount(); ++i) {
        collectVar(c->variable(i), "Variable", depth + 1, c, out);
    }
    for (size_t i = 0; i < c->resetCount(); ++i) {
        collectReset(c->reset(i), depth + 1, c, out);
    }
    for (size_t i = 0; i < c->componentCount(); ++i) {
        collectComp(c->component(i), depth + 1, out);
    }
}

std::vector<Handle> collect(const EntityPtr &e, Loc::Kind kind)
{
    std::vector<Handle> out;
    switch (kind) {
    case Loc::MODEL: {
        auto m = std::dynamic_pointer_cast<Model>(e);
        out.push_back({"Model", m, 0, nullptr});
        for (size_t i = 0; i < m->unitsCount(); ++i) {
            collectUnits(m->units(i), "Units", 1, out);
        }
        for (size_t i = 0; i < m->componentCount(); ++i) {
            collectComp(m->component(i), 1, out);
        }
        break;
    }
    case Loc::COMP: collectComp(std::dynamic_pointer_cast<Component>(e), 0, out); break;
    case Loc::UNITS: collectUnits(std::dynamic_pointer_cast<Units>(e), "Units", 0, out); break;
    case Loc::VAR: collectVar(std::dynamic_pointer_cast<Variable>(e), "Variable", 0, nullptr, out); break;
    case Loc::RESET: collectReset(std::dynamic_pointer_cast<Reset>(e), 0, nullptr, out); break;
    default: break;
    }
    return out;
}

// ------------------------------------------------------------------------------------------------ listed defects: repair

struct Repairs
{
    long resetOrder = 0, encId = 0, eqIds = 0, relinked = 0;
};

void variablesByAddress(const ComponentPtr &c, const std::string &path, std::map<std::string, VariablePtr> &byAddr, std::map<const Variable *, std::string> &addrOf)
{
    for (size_t i = 0; i < c->variableCount(); ++i) {
        std::string a = path + ":" + std::to_string(i);
        byAddr[a] = c->variable(i);
        addrOf[c->variable(i).get()] = a;
    }
    for (size_t i = 0; i < c->componentCount(); ++i) {
        variablesByAddress(c->component(i), path + "/" + std::to_string(i), byAddr, addrOf);
    }
}

// Model::clone() gives every variable the clone model's units of the same name, also when the original variable held a
// different (never linked) units object of that name.
void repairRelinkedUnits(const ModelPtr &o, const ModelPtr &cl, bool apply, Repairs &rp)
{
    std::map<std::string, VariablePtr> oBy, cBy;
    std::map<const Variable *, std::string> oAddr, cAddr;
    for (size_t i = 0; i < o->componentCount(); ++i) {
        variablesByAddress(o->component(i), std::to_string(i), oBy, oAddr);
    }
    for (size_t i = 0; i < cl->componentCount(); ++i) {
        variablesByAddress(cl->component(i), std::to_string(i), cBy, cAddr);
    }
    for (const auto &entry : oBy) {
        auto cvIt = cBy.find(entry.first);
        if (cvIt == cBy.end()) {
            continue;
        }
        auto ou = entry.second->units();
        auto cu = cvIt->second->units();
        if (ou != nullptr && cu != nullptr && ou->parent() == nullptr && cu->parent() == cl && !ou->equals(cu)) {
            ++rp.relinked;
            if (apply) {
                cvIt->second->setUnits(ou->clone());
            }
        }
    }
}

// Model::clone() re-creates equivalences without their mapping / connection ids.
void repairEquivalenceIds(const ModelPtr &o, const ModelPtr &cl, bool apply, Repairs &rp)
{
    std::map<std::string, VariablePtr> oBy, cBy;
    std::map<const Variable *, std::string> oAddr, cAddr;
    for (size_t i = 0; i < o->componentCount(); ++i) {
        variablesByAddress(o->component(i), std::to_string(i), oBy, oAddr);
    }
    for (size_t i = 0; i < cl->componentCount(); ++i) {
        variablesByAddress(cl->component(i), std::to_string(i), cBy, cAddr);
    }
    for (const auto &entry : oBy) {
        const VariablePtr &ov = entry.second;
        auto cvIt = cBy.find(entry.first);
        if (cvIt == cBy.end()) {
            continue;
        }
        for (size_t j = 0; j < ov->equivalentVariableCount(); ++j) {
            auto oe = ov->equivalentVariable(j);
            if (oe == nullptr || oAddr.count(oe.get()) == 0) {
                continue;
            }
            auto ceIt = cBy.find(oAddr[oe.get()]);
            if (ceIt == cBy.end() || !cvIt->second->hasEquivalentVariable(ceIt->second)) {
                continue;
            }
            const std::string mid = Variable::equivalenceMappingId(ov, oe), cid = Variable::equivalenceConnectionId(ov, oe);
            if (!mid.empty() && Variable::equivalenceMappingId(cvIt->second, ceIt->second).empty()) {
                ++rp.eqIds;
                if (apply) {
                    Variable::setEquivalenceMappingId(cvIt->second, ceIt->second, mid);
                }
            }
            if (!cid.empty() && Variable::equivalenceConnectionId(cvIt->second, ceIt->second).empty()) {
                ++rp.eqIds;
                if (apply) {
                    Variable::setEquivalenceConnectionId(cvIt->second, ceIt->second, cid);
                }
            }
        }
    }
}

void repairReset(const ResetPtr &o, const ResetPtr &cl, bool apply, Repairs &rp)
{
    if (!o->isOrderSet() && cl->isOrderSet() && cl->order() == 0) {
        ++rp.resetOrder;
        if (apply) {
            cl->removeOrder();
        }
    }
}

void repairComp(const ComponentPtr &o, const ComponentPtr &cl, bool apply, Repairs &rp)
{
    if (!o->encapsulationId().empty() && cl->encapsulationId().empty()) {
        ++rp.encId;
        if (apply) {
            cl->setEncapsulationId(o->encapsulationId());
        }
    }
    for (size_t i = 0; i < std::min(o->resetCount(), cl->resetCount()); ++i) {
        repairReset(o->reset(i), cl->reset(i), apply, rp);
    }
    for (size_t i = 0; i < std::min(o->componentCount(), cl->componentCount()); ++i) {
        repairComp(o->component(i), cl->component(i), apply, rp);
    }
}

Repairs repairKnown(const EntityPtr &o, const EntityPtr &cl, Loc::Kind kind, bool apply)
{
    Repairs rp;
    if (kind == Loc::MODEL) {
        auto mo = std::dynamic_pointer_cast<Model>(o), mc = std::dynamic_pointer_cast<Model>(cl);
        for (size_t i = 0; i < std::min(mo->componentCount(), mc->componentCount()); ++i) {
            repairComp(mo->component(i), mc->component(i), apply, rp);
        }
        repairEquivalenceIds(mo, mc, apply, rp);
        repairRelinkedUnits(mo, mc, apply, rp);
    } else if (kind == Loc::COMP) {
        repairComp(std::dynamic_pointer_cast<Component>(o), std::dynamic_pointer_cast<Component>(cl), apply, rp);
    } else if (kind == Loc::RESET) {
        repairReset(std::dynamic_pointer_cast<Reset>(o), std::dynamic_pointer_cast<Reset>(cl), apply, rp);
    }
    return rp;
}

std::string stripFrom(const std::string &s, const std::string &token)
{
    size_t p = s.rfind(token);
    return p == std::string::npos ? s : s.substr(0, p);
}

// Which kind of line differs first, with the two listed defects recognised by what exactly differs.
std::string localise(const std::string &a, const std::string &b, std::string *lines)
{
    std::istringstream ia(a), ib(b);
    std::string la, lb;
    while (true) {
        bool ga = static_cast<bool>(std::getline(ia, la));
        bool gb = static_cast<bool>(std::getline(ib, lb));
        if (!ga && !gb) {
            return "identical";
        }
        if (!ga || !gb || la != lb) {
            if (lines != nullptr) {
                *lines = "original: " + (ga ? la : std::string("<eof>")) + "\nclone:    " + (gb ? lb : std::string("<eof>"));
            }
            std::istringstream w(ga ? la : lb);
            std::string kind;
            w >> kind;
            if (ga && gb && kind == "reset" && stripFrom(la, " order=") == stripFrom(lb, " order=")) {
                return "reset-order-flag";
            }
            if (ga && gb && kind == "component" && stripFrom(la, " encId=") == stripFrom(lb, " encId=")) {
                return "component-encapsulation-id";
            }
            if (ga && gb && kind == "eq" && stripFrom(la, " mapping_id=") == stripFrom(lb, " mapping_id=")) {
                return "equivalence-ids";
            }
            if (kind.rfind("variable=", 0) == 0 || kind.rfind("test_variable=", 0) == 0) {
                return "reset-variable-target"; // which variable a reset refers to (own variable #i / detached / none)
            }
            std::string kindB;
            if (gb) {
                std::istringstream wb(lb);
                wb >> kindB;
            }
            if (kind.rfind("held-", 0) == 0 || kindB.rfind("held-", 0) == 0) {
                return "variable-held-units"; // the units definition held by a variable differs (attributes or children)
            }
            return kind;
        }
    }
}

// ------------------------------------------------------------------------------------------------ API mutations

// Applies one tape-chosen mutation to the object; returns its description ("" if nothing applicable).
std::string mutateObject(const Handle &h, const std::vector<Handle> &all, Src &src)
{
    std::vector<std::pair<std::string, std::function<void()>>> ops;
    auto named = std::dynamic_pointer_cast<NamedEntity>(h.e);
    ops.push_back({"setId", [&]() { h.e->setId(h.e->id() + "_x"); }});
    if (named != nullptr) {
        ops.push_back({"setName", [&]() { named->setName(named->name() + "_x"); }});
    }
    if (auto ce = std::dynamic_pointer_cast<ComponentEntity>(h.e)) {
        ops.push_back({"setEncapsulationId", [ce]() { ce->setEncapsulationId(ce->encapsulationId() + "_x"); }});
        ops.push_back({"addComponent", [ce]() { ce->addComponent(Component::create("added_x")); }});
        if (ce->componentCount() > 0) {
            ops.push_back({"removeComponent(index)", [ce, &src]() { ce->removeComponent(static_cast<size_t>(src.below(ce->componentCount()))); }});
        }
    }
    if (auto m = std::dynamic_pointer_cast<Model>(h.e)) {
        ops.push_back({"addUnits", [m]() { m->addUnits(Units::create("added_units_x")); }});
        if (m->unitsCount() > 0) {
            ops.push_back({"removeUnits(index)", [m, &src]() { m->removeUnits(static_cast<size_t>(src.below(m->unitsCount()))); }});
        }
    }
    if (auto c = std::dynamic_pointer_cast<Component>(h.e)) {
        ops.push_back({"appendMath", [c]() { c->appendMath("<math xmlns=\"http://www.w3.org/1998/Math/MathML\"><ci>x</ci></math>"); }});
        ops.push_back({"setImportReference", [c]() { c->setImportReference(c->importReference() + "_x"); }});
        ops.push_back({"setImportSource(new)", [c]() {
                           auto i = ImportSource::create();
                           i->setUrl("other_x.cellml");
                           c->setImportSource(i);
                       }});
        ops.push_back({"addVariable", [c]() { c->addVariable(Variable::create("added_x")); }});
        ops.push_back({"addReset", [c]() {
                           auto r = Reset::create();
                           r->setOrder(77);
                           c->addReset(r);
                       }});
        if (c->variableCount() > 0) {
            ops.push_back({"removeVariable(index)", [c, &src]() { c->removeVariable(static_cast<size_t>(src.below(c->variableCount()))); }});
        }
        if (c->resetCount() > 0) {
            ops.push_back({"removeReset(index)", [c, &src]() { c->removeReset(static_cast<size_t>(src.below(c->resetCount()))); }});
        }
    }
    if (auto v = std::dynamic_pointer_cast<Variable>(h.e)) {
        ops.push_back({"setInitialValue", [v]() { v->setInitialValue(v->initialValue() + "9"); }});
        ops.push_back({"setInterfaceType", [v]() { v->setInterfaceType(v->interfaceType() == "public" ? "private" : "public"); }});
        ops.push_back({"setUnits(name)", [v]() { v->setUnits("replaced_units_x"); }});
        if (v->units() != nullptr) {
            ops.push_back({"removeUnits", [v]() { v->removeUnits(); }});
        }
        if (v->equivalentVariableCount() > 0) {
            ops.push_back({"removeEquivalence", [v]() { Variable::removeEquivalence(v, v->equivalentVariable(0)); }});
            ops.push_back({"setEquivalenceMappingId", [v]() { Variable::setEquivalenceMappingId(v, v->equivalentVariable(0), "mapping_x"); }});
            ops.push_back({"setEquivalenceConnectionId", [v]() { Variable::setEquivalenceConnectionId(v, v->equivalentVariable(0), "connection_x"); }});
            ops.push_back({"removeAllEquivalences", [v]() { v->removeAllEquivalences(); }});
        }
        // a new equivalence with another variable of the same graph
        std::vector<VariablePtr> others;
        for (const auto &o : all) {
            auto ov = std::dynamic_pointer_cast<Variable>(o.e);
            if (ov != nullptr && ov != v && o.kind == "Variable" && o.owner != h.owner && !v->hasEquivalentVariable(ov)) {
                others.push_back(ov);
            }
        }
        if (!others.empty() && h.kind == "Variable") {
            ops.push_back({"addEquivalence", [v, others, &src]() { Variable::addEquivalence(v, others[src.below(others.size())], "mapping_new_x", "connection_new_x"); }});
        }
    }
    if (auto u = std::dynamic_pointer_cast<Units>(h.e)) {
        ops.push_back({"addUnit", [u]() { u->addUnit("candela", "kilo", 2.0, 3.0, "added_unit_x"); }});
        ops.push_back({"setImportReference", [u]() { u->setImportReference(u->importReference() + "_x"); }});
        ops.push_back({"setImportSource(new)", [u]() {
                           auto i = ImportSource::create();
                           i->setUrl("other_x.cellml");
                           u->setImportSource(i);
                       }});
        if (u->unitCount() > 0) {
            ops.push_back({"removeUnit(index)", [u, &src]() { u->removeUnit(static_cast<size_t>(src.below(u->unitCount()))); }});
            ops.push_back({"setUnitAttributeReference", [u, &src]() { u->setUnitAttributeReference(static_cast<size_t>(src.below(u->unitCount())), "lumen"); }});
            ops.push_back({"setUnitId", [u, &src]() { u->setUnitId(static_cast<size_t>(src.below(u->unitCount())), "unit_id_x"); }});
        }
    }
    if (auto r = std::dynamic_pointer_cast<Reset>(h.e)) {
        ops.push_back({"setOrder", [r]() { r->setOrder(r->order() + 5); }});
        if (r->isOrderSet()) {
            ops.push_back({"removeOrder", [r]() { r->removeOrder(); }});
        }
        ops.push_back({"setVariable(new)", [r]() { r->setVariable(Variable::create("reset_var_x")); }});
        ops.push_back({"setTestVariable(null)", [r]() { r->setTestVariable(nullptr); }});
        ops.push_back({"appendTestValue", [r]() { r->appendTestValue("<math xmlns=\"http://www.w3.org/1998/Math/MathML\"><ci>y</ci></math>"); }});
        ops.push_back({"setResetValue", [r]() { r->setResetValue("<math xmlns=\"http://www.w3.org/1998/Math/MathML\"><ci>z</ci></math>"); }});
        ops.push_back({"setTestValueId", [r]() { r->setTestValueId(r->testValueId() + "_x"); }});
        ops.push_back({"setResetValueId", [r]() { r->setResetValueId(r->resetValueId() + "_x"); }});
    }
    if (auto i = std::dynamic_pointer_cast<ImportSource>(h.e)) {
        ops.push_back({"setUrl", [i]() { i->setUrl(i->url() + "_x"); }});
    }
    auto &op = ops[src.below(ops.size())];
    op.second();
    return h.kind + "::" + op.first;
}

// ------------------------------------------------------------------------------------------------ wrapping for Printer

void detach(const EntityPtr &e, Loc::Kind kind)
{
    switch (kind) {
    case Loc::COMP: {
        auto comp = std::dynamic_pointer_cast<Component>(e);
        auto pe = std::dynamic_pointer_cast<ComponentEntity>(comp->parent());
        for (size_t i = 0; pe != nullptr && i < pe->componentCount(); ++i) {
            if (pe->component(i) == comp) {
                pe->takeComponent(i);
                break;
            }
        }
        break;
    }
    case Loc::VAR: {
        auto v = std::dynamic_pointer_cast<Variable>(e);
        auto pc = std::dynamic_pointer_cast<Component>(v->parent());
        for (size_t i = 0; pc != nullptr && i < pc->variableCount(); ++i) {
            if (pc->variable(i) == v) {
                pc->removeVariable(i);
                break;
            }
        }
        break;
    }
    case Loc::RESET: {
        auto r = std::dynamic_pointer_cast<Reset>(e);
        auto pc = std::dynamic_pointer_cast<Component>(r->parent());
        for (size_t i = 0; pc != nullptr && i < pc->resetCount(); ++i) {
            if (pc->reset(i) == r) {
                pc->removeReset(i);
                break;
            }
        }
        break;
    }
    case Loc::UNITS: {
        auto u = std::dynamic_pointer_cast<Units>(e);
        auto pm = std::dynamic_pointer_cast<Model>(u->parent());
        for (size_t i = 0; pm != nullptr && i < pm->unitsCount(); ++i) {
            if (pm->units(i) == u) {
                pm->removeUnits(i);
                break;
            }
        }
        break;
    }
    default: break;
    }
}

void dropEquivalences(const ComponentPtr &c)
{
    for (size_t i = 0; i < c->variableCount(); ++i) {
        c->variable(i)->removeAllEquivalences();
    }
    for (size_t i = 0; i < c->componentCount(); ++i) {
        dropEquivalences(c->component(i));
    }
}

// Puts a non-model entity (already without parent) into a scratch model so that Printer can serialise it.
ModelPtr wrap(const EntityPtr &e, Loc::Kind kind)
{
    if (kind == Loc::MODEL) {
        return std::dynamic_pointer_cast<Model>(e);
    }
    auto m = Model::create("wrapper");
    if (kind == Loc::COMP) {
        m->addComponent(std::dynamic_pointer_cast<Component>(e));
    } else if (kind == Loc::UNITS) {
        m->addUnits(std::dynamic_pointer_cast<Units>(e));
    } else {
        auto c = Component::create("wrapper_component");
        m->addComponent(c);
        if (kind == Loc::VAR) {
            c->addVariable(std::dynamic_pointer_cast<Variable>(e));
        } else {
            c->addReset(std::dynamic_pointer_cast<Reset>(e));
        }
    }
    return m;
}

// ------------------------------------------------------------------------------------------------ foreign reset variables

std::string sortedLinesOf(const std::string &text)
{
    std::vector<std::string> ls;
    std::istringstream is(text);
    std::string l;
    while (std::getline(is, l)) {
        ls.push_back(l);
    }
    std::sort(ls.begin(), ls.end());
    std::string o;
    for (const auto &x : ls) {
        o += x + "\n";
    }
    return o;
}

// What "faithful" means here was read off the unchanged library: Reset::clone() deep-copies both variables, and
// Component::clone() re-targets a cloned reset only at variables found in the reset's own component; a variable found nowhere
// there stays the parentless deep copy. So the clone never refers to the original's foreign variable object (nothing is shared),
// it prints the same variable= / test_variable= names and equals() (which compares a reset's variables by value) holds. The dump
// therefore describes a foreign variable by value ("detached" + name, id, initial value, interface, held units), for both sides.
// Not demanded: that a cloned *model* re-targets the reset at the clone's counterpart of a variable of another component
// (nothing in the statement promises it; the serialisation is the same either way).
void foreignResetVariables(Src &src, Case &c, const ModelSpec &spec, const std::function<Built()> &construct, bool probeKnown, bool unlinked)
{
    const unsigned plan = static_cast<unsigned>(src.below(4)); // 0 (also: tape exhausted) = no sub-case
    if (plan == 0 || spec.comps.empty()) {
        return;
    }
    Built t = construct();
    std::vector<VariablePtr> keepAlive;
    // the reset: an existing one, or a new one in a tape-chosen component
    std::vector<std::pair<size_t, size_t>> existing;
    for (size_t ci = 0; ci < t.resets.size(); ++ci) {
        for (size_t ri = 0; ri < t.resets[ci].size(); ++ri) {
            existing.emplace_back(ci, ri);
        }
    }
    size_t rc = 0;
    ResetPtr reset;
    if (!existing.empty() && src.below(3) != 0) {
        auto p = existing[src.below(existing.size())];
        rc = p.first;
        reset = t.resets[p.first][p.second];
    } else {
        rc = src.below(t.comps.size());
        reset = Reset::create();
        reset->setOrder(50);
        reset->setTestValue("<math xmlns=\"http://www.w3.org/1998/Math/MathML\"><ci>t</ci></math>");
        reset->setResetValue("<math xmlns=\"http://www.w3.org/1998/Math/MathML\"><ci>r</ci></math>");
        if (!t.vars[rc].empty()) {
            reset->setVariable(t.vars[rc][0]);
            reset->setTestVariable(t.vars[rc][t.vars[rc].size() - 1]);
        }
        t.comps[rc]->addReset(reset);
    }
    std::vector<VariablePtr> elsewhere;
    for (size_t ci = 0; ci < t.vars.size(); ++ci) {
        if (ci != rc) {
            elsewhere.insert(elsewhere.end(), t.vars[ci].begin(), t.vars[ci].end());
        }
    }
    std::vector<VariablePtr> foreignOnes;
    std::string what;
    auto choose = [&](const char *role, unsigned how) -> int {
        // 0 keep, 1 variable of another component, 2 parentless variable, 3 unset
        if (how == 1 && elsewhere.empty()) {
            how = 2;
        }
        VariablePtr v;
        if (how == 1) {
            v = elsewhere[src.below(elsewhere.size())];
            c.cls("foreign-reset-variable:other-component");
        } else if (how == 2) {
            v = Variable::create(std::string("orphan_") + role);
            v->setUnits("second");
            if (src.flip(50)) {
                v->setId(std::string("orphan_id_") + role);
                v->setInitialValue("3");
                v->setInterfaceType("public");
            }
            keepAlive.push_back(v);
            c.cls("foreign-reset-variable:parentless");
        } else if (how == 3) {
            c.cls("foreign-reset-variable:unset");
        }
        if (how != 0) {
            if (std::string(role) == "variable") {
                reset->setVariable(v);
            } else {
                reset->setTestVariable(v);
            }
            if (v != nullptr) {
                foreignOnes.push_back(v);
            }
            what += std::string(" ") + role + (how == 1 ? " := variable '" + v->name() + "' of another component;" : how == 2 ? " := parentless variable;" : " := none;");
        }
        return static_cast<int>(how);
    };
    unsigned howVar = static_cast<unsigned>(src.below(4));
    unsigned howTest = static_cast<unsigned>(src.below(4));
    if (howVar == 0 && howTest == 0) {
        howTest = 1;
    }
    choose("variable", howVar);
    choose("test_variable", howTest);

    // the cloned entity: the component that owns the reset, one of its ancestors, or the whole model
    const bool modelLevel = src.below(2) == 1;
    EntityPtr entity = t.model;
    Loc::Kind kind = Loc::MODEL;
    if (!modelLevel) {
        ComponentPtr comp = t.comps[rc];
        size_t up = src.below(3);
        while (up-- > 0) {
            auto pc = std::dynamic_pointer_cast<Component>(comp->parent());
            if (pc == nullptr) {
                break;
            }
            comp = pc;
        }
        entity = comp;
        kind = Loc::COMP;
    }
    const std::string type = kindName(kind);
    c.cls(std::string("foreign-reset-variable:") + (modelLevel ? "Model::clone" : "Component::clone"));
    c.count("foreign_reset_subcases");
    c.text += "\nsub-case: reset of component #" + std::to_string(rc) + " gets" + what + " then " + (modelLevel ? "the model" : "component '" + std::dynamic_pointer_cast<Component>(entity)->name() + "'") + " is cloned";
    c.hash = hashStr(c.text);

    const std::string od = xdump(entity, kind);
    EntityPtr clone = cloneOf(entity, kind);
    VP_CHECK(c, clone != nullptr, "C11.null|" + type, "clone() returned nullptr");
    VP_CHECK(c, xdump(entity, kind) == od, "C11.input-modified|" + type, "clone() changed the original: " << firstDiff(od, xdump(entity, kind)));
    if (auto pe = std::dynamic_pointer_cast<ParentedEntity>(clone)) {
        VP_CHECK(c, pe->parent() == nullptr, "C11.parent|" + type, "the clone has a parent");
    }
    repairKnown(entity, clone, kind, !probeKnown);
    const std::string cd = xdump(clone, kind);
    if (cd != od) {
        std::string lines;
        std::string locn = localise(od, cd, &lines);
        bool listed = locn == "reset-order-flag" || locn == "component-encapsulation-id" || locn == "equivalence-ids";
        if (kind == Loc::MODEL && unlinked && locn == "variable-held-units") {
            c.fail("C11.equals|model:relinked-variable-units", "the clone's variable holds another units definition than the original's:\n" + lines);
            return;
        }
        c.fail("C11.faithful|" + (listed ? locn : type + ":" + locn), "the clone's dump differs from the original's (reset with a variable outside its component):\n" + lines);
        return;
    }
    {
        bool oc = entity->equals(clone), co = clone->equals(entity);
        VP_CHECK(c, oc && co, "C11.equals|" + type, "original.equals(clone)=" << oc << " clone.equals(original)=" << co << " (reset with a variable outside its component)");
    }
    // nothing shared: in particular the clone must not refer to the original's foreign variable object
    std::vector<Handle> cloneHandles = collect(clone, kind);
    {
        std::map<const Entity *, std::string> mine;
        for (const auto &h : collect(t.model, Loc::MODEL)) {
            mine[h.e.get()] = h.kind;
        }
        for (const auto &h : collect(entity, kind)) {
            mine[h.e.get()] = h.kind;
        }
        for (const auto &h : cloneHandles) {
            auto it = mine.find(h.e.get());
            if (it != mine.end() && !(h.kind == "ImportSource" && !probeKnown)) {
                c.fail("C11.independent|shared:" + h.kind, "the clone and the original graph share one " + h.kind + " object (" + it->second + " in the original)");
                return;
            }
        }
    }
    // changing the foreign variable on the original side leaves the clone alone, and the other way round
    for (const auto &v : foreignOnes) {
        v->setName(v->name() + "_renamed");
    }
    VP_CHECK(c, xdump(clone, kind) == cd, "C11.independent|clone-changed:ResetVariable::setName", "renaming the original reset's foreign variable changed the clone: " << firstDiff(cd, xdump(clone, kind)));
    const std::string od2 = xdump(entity, kind);
    for (const auto &h : cloneHandles) {
        if (h.kind == "ResetVariable") {
            std::dynamic_pointer_cast<Variable>(h.e)->setInitialValue("42");
        }
    }
    VP_CHECK(c, xdump(entity, kind) == od2, "C11.independent|original-changed:ResetVariable::setInitialValue", "changing the cloned reset's variable changed the original: " << firstDiff(od2, xdump(entity, kind)));

    // Printer (fresh pair, because of the renames above; wrapping moves the component out of its model)
    {
        EntityPtr pc = cloneOf(entity, kind);
        repairKnown(entity, pc, kind, !probeKnown);
        if (kind == Loc::COMP) {
            detach(entity, kind);
            dropEquivalences(std::dynamic_pointer_cast<Component>(entity));
        }
        ModelPtr wo = wrap(entity, kind), wc = wrap(pc, kind);
        auto printer = Printer::create();
        std::string po = sortedLinesOf(printer->printModel(wo));
        std::string pcs = sortedLinesOf(printer->printModel(wc));
        VP_CHECK(c, po == pcs, "C11.faithful|print:" + type, "Printer output of original and clone differ (lines sorted; reset with a variable outside its component): " << firstDiff(po, pcs));
        c.count("printed_pairs");
    }
}

// ------------------------------------------------------------------------------------------------ the predicate

void run(Src &mainSrc, Case &c)
{
    xmlKeepBlanksDefault(1);
    Src &src = mainSrc;
    // ---- plan
    const bool probeKnown = src.flip(6);
    static const unsigned shapeCounts[4] = {0, 1, 1, 2};
    const unsigned nShapes = shapeCounts[src.below(4)];
    static const std::vector<Loc::Kind> kinds = {Loc::MODEL, Loc::COMP, Loc::UNITS, Loc::VAR, Loc::RESET};
    const Loc::Kind wantKind = kinds[src.below(kinds.size())];
    const bool mutateClone = src.flip(50);
    const bool unlinkSome = src.flip(20);
    const bool resolveImports = src.flip(30);
    GenOpts opt;
    opt.hostileText = src.flip(8);
    PreSrc pick(mainSrc, 8); // reserved for the follow-up mutation (object, operation, operand)
    PreSrc late(mainSrc, 32);
    ModelSpec spec = genValidModel(src, opt);
    std::string shapes;
    for (unsigned i = 0; i < nShapes; ++i) {
        std::string l = applyShape(spec, late);
        if (!l.empty()) {
            shapes += (shapes.empty() ? "" : ", ") + l;
            c.cls("shape:" + l);
        }
    }
    // import references on components / units that are not imports (decisions from the tail of the pre-drawn block, so that
    // the sequential decisions and every saved tape stay what they were)
    const unsigned nLocalRefs = static_cast<unsigned>(late.tail(0, 8)) >= 5 ? static_cast<unsigned>(late.tail(0, 8)) - 4 : 0;
    std::string localRefs;
    for (unsigned i = 0; i < nLocalRefs; ++i) {
        std::string l = addLocalImportReference(spec, late.tail(1 + i, 1u << 20), "lref_" + std::to_string(i));
        if (!l.empty()) {
            localRefs += (localRefs.empty() ? "" : ", ") + l;
        }
    }
    const bool localRefViaSource = late.tail(4, 2) == 1;
    if (!localRefs.empty()) {
        c.cls("local-import-reference");
    }
    Loc loc = chooseLoc(spec, late, {wantKind});
    if (loc.kind != wantKind) {
        loc = chooseLoc(spec, late, kinds);
    }
    const Loc::Kind kind = loc.kind;
    const std::string type = kindName(kind);

    // API-level history applied identically to the model under test and to its twin (used for the Printer comparison)
    std::vector<std::pair<int, int>> unlinked;
    if (unlinkSome) {
        for (size_t ci = 0; ci < spec.comps.size(); ++ci) {
            for (size_t k = 0; k < spec.comps[ci].vars.size(); ++k) {
                if (!spec.comps[ci].vars[k].units.empty() && late.flip(50)) {
                    unlinked.emplace_back(static_cast<int>(ci), static_cast<int>(k));
                }
            }
        }
    }
    std::vector<ModelPtr> keepModels;
    auto construct = [&]() {
        Built b = buildApi(spec, nullptr);
        applyLocalImportReferences(spec, b, localRefViaSource);
        for (const auto &p : unlinked) {
            // what a user gets who names the units of a variable and never calls linkUnits()
            auto v = b.vars[static_cast<size_t>(p.first)][static_cast<size_t>(p.second)];
            v->setUnits(spec.comps[static_cast<size_t>(p.first)].vars[static_cast<size_t>(p.second)].units);
        }
        if (resolveImports) {
            for (auto &i : b.imports) {
                auto im = Model::create("imported_model");
                keepModels.push_back(im);
                i->setModel(im);
            }
        }
        return b;
    };
    Built b = construct();
    EntityPtr orig = entityAt(b, loc);

    // ---- features (non-trivial rule)
    std::vector<Handle> origHandles = collect(orig, kind);
    bool hasUnsetOrder = false, hasImport = false, hasEqIds = false, hasLinkedUnits = false, hasEncId = false;
    for (const auto &h : origHandles) {
        if (h.kind == "ImportSource") {
            hasImport = true;
        }
        if (auto r = std::dynamic_pointer_cast<Reset>(h.e)) {
            hasUnsetOrder = hasUnsetOrder || !r->isOrderSet();
        }
        if (auto cc = std::dynamic_pointer_cast<Component>(h.e)) {
            hasEncId = hasEncId || !cc->encapsulationId().empty();
        }
        if (auto v = std::dynamic_pointer_cast<Variable>(h.e)) {
            if (v->units() != nullptr && v->units()->parent() != nullptr) {
                hasLinkedUnits = true;
            }
            if (kind == Loc::MODEL) {
                for (size_t j = 0; j < v->equivalentVariableCount(); ++j) {
                    auto e = v->equivalentVariable(j);
                    if (e != nullptr && (!Variable::equivalenceMappingId(v, e).empty() || !Variable::equivalenceConnectionId(v, e).empty())) {
                        hasEqIds = true;
                    }
                }
            }
        }
    }

    const std::string origDump = xdump(orig, kind);
    const std::string origModelDump = dumpModel(b.model, DUMP_ORDERED | DUMP_RAW_MATH | DUMP_PTR_IMPORTS);

    // ---- clone
    EntityPtr clone = cloneOf(orig, kind);
    c.text = "cloned entity: " + locText(spec, loc) + "\nshape transformations: " + (shapes.empty() ? "none" : shapes) + (localRefs.empty() ? "" : "\nimport reference without import source (" + std::string(localRefViaSource ? "source set, reference set, source removed" : "set directly") + ") on: " + localRefs) + (unlinked.empty() ? "" : "\n" + std::to_string(unlinked.size()) + " variables hold a fresh units object of the right name instead of the model's (never linked)")
             + (resolveImports ? "\nimport sources have a model attached" : "") + (probeKnown ? "\n(listed findings are asserted in this case)" : "") + "\n--- model ---\n" + specToText(spec);
    c.cls("entity:" + type);
    if (hasUnsetOrder) c.cls("reset-without-order");
    if (hasImport) c.cls("import-source");
    if (hasEqIds) c.cls("equivalence-with-ids");
    if (hasLinkedUnits) c.cls("variable-units-owned-by-model");
    if (hasEncId) c.cls("component-encapsulation-id");
    if (!unlinked.empty()) c.cls("unlinked-variable-units");
    if (probeKnown) c.cls("probe-known");
    VP_CHECK(c, clone != nullptr, "C11.null|" + type, "clone() returned nullptr");
    VP_CHECK(c, dumpModel(b.model, DUMP_ORDERED | DUMP_RAW_MATH | DUMP_PTR_IMPORTS) == origModelDump && xdump(orig, kind) == origDump, "C11.input-modified|" + type, "clone() changed the original: " << firstDiff(origDump, xdump(orig, kind)));
    if (auto pe = std::dynamic_pointer_cast<ParentedEntity>(clone)) {
        VP_CHECK(c, pe->parent() == nullptr && !pe->hasParent(), "C11.parent|" + type, "the clone has a parent");
    }

    // ---- listed defects: neutralised on the clone (counted) unless this case asserts them
    {
        Repairs rp = repairKnown(orig, clone, kind, !probeKnown);
        if (!probeKnown) {
            if (rp.resetOrder > 0) {
                c.count("excluded:C11.faithful|reset-order-flag", rp.resetOrder);
                c.cls("repaired:reset-order-flag");
            }
            if (rp.encId > 0) {
                c.count("excluded:C11.faithful|component-encapsulation-id", rp.encId);
                c.cls("repaired:component-encapsulation-id");
            }
            if (rp.eqIds > 0) {
                c.count("excluded:C11.faithful|equivalence-ids", rp.eqIds);
                c.cls("repaired:equivalence-ids");
            }
            if (rp.relinked > 0) {
                c.count("excluded:C11.equals|model:relinked-variable-units", rp.relinked);
                c.cls("repaired:relinked-variable-units");
            }
        }
    }

    // ---- faithful: same dump, equal both ways
    const std::string cloneDump = xdump(clone, kind);
    if (cloneDump != origDump) {
        std::string lines;
        std::string locn = localise(origDump, cloneDump, &lines);
        bool listed = locn == "reset-order-flag" || locn == "component-encapsulation-id" || locn == "equivalence-ids";
        if (kind == Loc::MODEL && !unlinked.empty() && locn == "variable-held-units") {
            // the variable holds a different units definition than the original's did: equals() is false for that reason
            bool oc = orig->equals(clone), co = clone->equals(orig);
            c.fail("C11.equals|model:relinked-variable-units", "original.equals(clone)=" + std::to_string(oc) + " clone.equals(original)=" + std::to_string(co) + "; the clone's variable holds another units definition than the original's:\n" + lines);
            return;
        }
        c.fail("C11.faithful|" + (listed ? locn : type + ":" + locn), "the clone's dump differs from the original's:\n" + lines);
        return;
    }
    if (kind == Loc::MODEL) {
        std::string lo, lc;
        xdump(orig, kind, &lo);
        xdump(clone, kind, &lc);
        if (lo != lc) {
            c.cls("clone-links-variable-units-differently");
            c.count("units_linkage_differs");
        }
    }
    {
        bool oc = orig->equals(clone), co = clone->equals(orig);
        VP_CHECK(c, oc && co, "C11.equals|" + type, "original.equals(clone)=" << oc << " clone.equals(original)=" << co);
    }

    // ---- independent: no object shared between the two graphs, equivalences stay inside the clone
    std::vector<Handle> cloneHandles = collect(clone, kind);
    {
        std::map<const Entity *, std::string> mine;
        for (const auto &h : collect(b.model, Loc::MODEL)) {
            mine[h.e.get()] = h.kind;
        }
        for (const auto &h : origHandles) {
            mine[h.e.get()] = h.kind;
        }
        std::set<const Variable *> cloneVars;
        for (const auto &h : cloneHandles) {
            if (h.kind == "Variable") {
                cloneVars.insert(static_cast<const Variable *>(std::dynamic_pointer_cast<Variable>(h.e).get()));
            }
        }
        for (const auto &h : cloneHandles) {
            auto it = mine.find(h.e.get());
            if (it != mine.end()) {
                if (h.kind == "ImportSource" && !probeKnown) {
                    c.count("excluded:C11.independent|shared:ImportSource");
                    c.cls("excluded:shared-import-source");
                    continue;
                }
                if (h.kind == "ImportSource") {
                    // decided by experiment: is a change made through the clone visible in the original's dump?
                    auto imp = std::dynamic_pointer_cast<ImportSource>(h.e);
                    const std::string oldUrl = imp->url();
                    imp->setUrl(oldUrl + "_changed_through_the_clone");
                    const std::string after = dumpModel(b.model, DUMP_ORDERED | DUMP_RAW_MATH | DUMP_PTR_IMPORTS);
                    imp->setUrl(oldUrl);
                    if (after == origModelDump) {
                        c.cls("shared-import-source-not-observable");
                        continue;
                    }
                    c.fail("C11.independent|shared:ImportSource", "the clone holds the original's ImportSource object; clone->importSource()->setUrl(...) changed the original model's dump: " + firstDiff(origModelDump, after));
                    return;
                }
                c.fail("C11.independent|shared:" + h.kind, "the clone and the original graph share one " + h.kind + " object (" + it->second + " in the original), so a change made through one side is visible in the other");
                return;
            }
            if (h.kind == "Variable") {
                auto v = std::dynamic_pointer_cast<Variable>(h.e);
                if (kind != Loc::MODEL) {
                    VP_CHECK(c, v->equivalentVariableCount() == 0, "C11.independent|lone-clone-equivalence:" + type, "a lone clone carries " << v->equivalentVariableCount() << " equivalences");
                } else {
                    for (size_t j = 0; j < v->equivalentVariableCount(); ++j) {
                        auto e = v->equivalentVariable(j);
                        VP_CHECK(c, e != nullptr && cloneVars.count(e.get()) != 0, "C11.independent|equivalence-leaves-clone", "variable " << v->name() << " of the cloned model is equivalent to a variable that is not in the cloned model");
                    }
                }
            }
        }
    }

    // ---- one mutation of either side leaves the other side's dump unchanged
    bool nested = false;
    std::string mutation;
    {
        std::vector<Handle> pool;
        for (const auto &h : (mutateClone ? cloneHandles : origHandles)) {
            if (h.kind == "ImportSource" && !probeKnown) {
                continue; // listed: shared with the other side
            }
            pool.push_back(h);
        }
        // prefer nested objects
        std::vector<Handle> nestedPool;
        for (const auto &h : pool) {
            if (h.depth >= 1) {
                nestedPool.push_back(h);
            }
        }
        const std::vector<Handle> &from = (!nestedPool.empty() && pick.below(10) != 9) ? nestedPool : pool;
        const Handle h = from[pick.below(from.size())];
        nested = h.depth >= 1;
        const std::string touchedBefore = mutateClone ? cloneDump : origDump;
        mutation = mutateObject(h, mutateClone ? cloneHandles : origHandles, pick);
        const std::string touchedAfter = xdump(mutateClone ? clone : orig, kind);
        c.cls(std::string("mutated:") + (mutateClone ? "clone" : "original"));
        c.cls("mutation:" + mutation);
        if (touchedAfter == touchedBefore) {
            c.count("mutation_without_visible_effect");
        }
        if (mutateClone) {
            std::string after = xdump(orig, kind);
            std::string afterModel = dumpModel(b.model, DUMP_ORDERED | DUMP_RAW_MATH | DUMP_PTR_IMPORTS);
            VP_CHECK(c, after == origDump && afterModel == origModelDump, "C11.independent|" + std::string(h.kind == "ImportSource" ? "shared:ImportSource" : "original-changed:" + mutation),
                     "after " << mutation << " on the clone the original changed: " << (after != origDump ? firstDiff(origDump, after) : firstDiff(origModelDump, afterModel)));
        } else {
            std::string after = xdump(clone, kind);
            VP_CHECK(c, after == cloneDump, "C11.independent|" + std::string(h.kind == "ImportSource" ? "shared:ImportSource" : "clone-changed:" + mutation), "after " << mutation << " on the original the clone changed: " << firstDiff(cloneDump, after));
        }
    }
    c.text += "\nmutation afterwards: " + mutation + " on the " + (mutateClone ? "clone" : "original");
    c.hash = hashStr(c.text);
    c.weight = c.text.size();
    c.nontrivial = (hasUnsetOrder || hasImport || hasEqIds || hasLinkedUnits) && nested;

    // ---- Printer: same serialisation (on a twin built from the same spec, because wrapping moves the entity)
    {
        Built t = construct();
        EntityPtr te = entityAt(t, loc);
        EntityPtr tc = cloneOf(te, kind);
        repairKnown(te, tc, kind, !probeKnown);
        if (kind != Loc::MODEL) {
            detach(te, kind);
            if (kind == Loc::COMP) {
                dropEquivalences(std::dynamic_pointer_cast<Component>(te)); // documented: not copied for a lone component / variable
            } else if (kind == Loc::VAR) {
                std::dynamic_pointer_cast<Variable>(te)->removeAllEquivalences();
            }
        }
        ModelPtr wo = wrap(te, kind), wc = wrap(tc, kind);
        auto printer = Printer::create();
        // same content: the same multiset of lines (one element per line); the order of map_variables inside a connection
        // follows the order of a variable's equivalence list, which is not content
        auto sortedLines = [](const std::string &text) {
            std::vector<std::string> ls;
            std::istringstream is(text);
            std::string l;
            while (std::getline(is, l)) {
                ls.push_back(l);
            }
            std::sort(ls.begin(), ls.end());
            std::string o;
            for (const auto &x : ls) {
                o += x + "\n";
            }
            return o;
        };
        std::string po = sortedLines(printer->printModel(wo));
        std::string pc = sortedLines(printer->printModel(wc));
        if (po != pc) {
            std::string lines;
            std::string locn = localise(xdump(te, kind), xdump(tc, kind), &lines);
            bool listed = locn == "reset-order-flag" || locn == "component-encapsulation-id" || locn == "equivalence-ids";
            c.fail("C11.faithful|" + (listed ? locn : "print:" + type), "Printer output of original and clone differ (lines sorted): " + firstDiff(po, pc));
            return;
        }
        c.count("printed_pairs");
    }

    // ---- appended sub-case: resets whose variable / test variable is NOT a variable of the reset's own component
    // (another component's variable, a parentless variable, or none). Such resets exist only through the API. The choices
    // are read after everything above, so tapes recorded before this sub-case existed replay exactly as they did.
    foreignResetVariables(mainSrc, c, spec, construct, probeKnown, !unlinked.empty());
}

} // namespace

namespace vp {
Property property = {
    "C11",
    "exploration",
    "rapidcheck tapes: a generated model (valid by construction, then 0-2 validity-breaking shape transformations: duplicated siblings, resets without order / variable / value; optionally variables that were never linked to the model's units and "
    "import sources with a model attached) is built through the API; one tape-chosen model / component / units / variable / reset is cloned. Checked: the clone's ordered dump over public getters (isOrderSet, encapsulation ids, import "
    "references and the grouping of entities by import source, unit definitions held by variables, equivalences with mapping / connection ids) is identical to the original's; equals() both ways; no parent; "
    "no object of the clone's graph is an object of the original's; lone clones carry no equivalences and a cloned model's equivalences stay inside it; Printer output of both has the same lines; and one API mutation (setter, add / remove child, "
    "equivalence edit, edit of a held units / import source / reset variable) applied to the original or to the clone leaves the other side's dump unchanged. "
    "Non-trivial: the entity has a reset without order, an import source, an equivalence with ids or a variable whose units are owned by the model, and the mutation touches a nested object. Distinct = hash of the case text.",
    run,
    nullptr,
    {"the two listed clone defects (reset order flag, component encapsulation id) are repaired on the clone through the API before the remaining checks and the shared ImportSource is skipped, except in ~6% of the cases which assert them",
     "the model attached to an import source (ImportSource::model) is not treated as part of the clone's state", "whether a cloned model's variables hold the clone's own units objects is observed (class) but not asserted: it is not serialised; sharing a units object with the original is caught by the identity check"},
};
}

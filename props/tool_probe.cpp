// VP-BUILD: standalone
// Triage tool (not a check): tool_probe <file> [strict|permissive] — parse, validate, print issues, analyse, generate.
#include <libcellml>

#include <fstream>
#include <iostream>
#include <sstream>

#include "prop.h"
#include "spec.h"

namespace vp {
Property property = {"tool", "other", "", nullptr};
}

int main(int argc, char **argv)
{
    std::ifstream in(argv[1]);
    std::stringstream ss;
    ss << in.rdbuf();
    bool strict = argc < 3 || std::string(argv[2]) == "strict";
    auto parser = libcellml::Parser::create(strict);
    auto model = parser->parseModel(ss.str());
    std::cout << "--- parser issues\n" << vp::dumpIssues(parser);
    if (model == nullptr) {
        std::cout << "null model\n";
        return 0;
    }
    auto validator = libcellml::Validator::create();
    validator->validateModel(model);
    std::cout << "--- validator issues (" << validator->errorCount() << " errors)\n" << vp::dumpIssues(validator);
    if (argc > 3 && std::string(argv[3]) == "dump") {
        std::cout << "--- dump\n" << vp::dumpModel(model);
    }
    auto analyser = libcellml::Analyser::create();
    analyser->analyseModel(model);
    std::cout << "--- analyser issues\n" << vp::dumpIssues(analyser);
    std::cout << "--- analyser model type " << libcellml::AnalyserModel::typeAsString(analyser->model()->type()) << "\n";
    auto gen = libcellml::Generator::create();
    gen->setModel(analyser->model()); if (getenv("VP_PY")) gen->setProfile(libcellml::GeneratorProfile::create(libcellml::GeneratorProfile::Profile::PYTHON));
    std::cout << "--- code bytes " << gen->implementationCode().size() << "\n";
    if (argc > 3 && std::string(argv[3]) == "code") {
        std::cout << gen->interfaceCode() << "\n=====\n" << gen->implementationCode();
    }
    return 0;
}

// VP-BUILD: fuzz
// C01 (structure aware) — almost-valid documents: a valid generated model (2.0, or rewritten to 1.0/1.1) with 0-4 hostile
// edits (numbers, names, reference cycles, MathML arity, namespaces, structure, truncation), through the whole pipeline.
#include <algorithm>

#include "gen.h"
#include "pipeline.h"
#include "prop.h"
#include "spec.h"

using namespace vp;

namespace {

std::vector<size_t> findAll(const std::string &s, const std::string &pat)
{
    std::vector<size_t> r;
    size_t p = 0;
    while ((p = s.find(pat, p)) != std::string::npos) {
        r.push_back(p);
        p += pat.size();
    }
    return r;
}

// replace the value of one occurrence of attr="..." (attr includes the leading space)
bool setAttr(std::string &doc, Src &src, const std::string &attr, const std::string &value)
{
    auto occ = findAll(doc, " " + attr + "=\"");
    if (occ.empty()) {
        return false;
    }
    size_t p = src.pick(occ) + attr.size() + 3;
    size_t e = doc.find('"', p);
    if (e == std::string::npos) {
        return false;
    }
    doc.replace(p, e - p, value);
    return true;
}

std::string attrValueAt(const std::string &doc, size_t pos, const std::string &attr)
{
    size_t p = doc.find(" " + attr + "=\"", pos);
    if (p == std::string::npos) {
        return "";
    }
    p += attr.size() + 3;
    size_t e = doc.find('"', p);
    return e == std::string::npos ? "" : doc.substr(p, e - p);
}

const std::vector<std::string> &hostileNumbers()
{
    static const std::vector<std::string> v = {"-", ".", "-.", "-e5", "e", "1e", "1e999", "+5", "99999999999", "-99999999999999999999", "", " ", "1 ", "0x10", "1e-999", "--1", "1.2.3", "NaN", "inf", "1e+3", "+", "٣", "1,5", "2147483648", "-2147483649", "1E", ".e1", "00000000000000000000000000000001"};
    return v;
}

const std::vector<std::string> &hostileNames()
{
    static const std::vector<std::string> v = {"", " ", "a&amp;b", "x&lt;y", "q&quot;r", "NOT ORIGIN: &amp;x&amp;", "NOT ORIGIN: &amp;a;b&amp;", "NOT ORIGIN: ", "&amp;", ";", "&amp;;&amp;", "Cyclic dependencies", "\xC2\xB5", "\xE6\x97\xA5", "\xF0\x9F\x98\x80", "9lives", "a b", "second", "dimensionless",
                                               "aaaaaaaaaaaaaaaaaaaaaaaaaaaaaaaaaaaaaaaaaaaaaaaaaaaaaaaaaaaaaaaaaaaaaaaaaaaaaaaaaaaaaaaaaaaaaaaaaaaaaaaaaaaaaaaaaaaaaaaaaaaaaaaaaaaaaaaaaaaaaaaaaaaaaaaaaaaaaaaaaaaaaaaaaaaaaaaaaaaaaaaaaaaaaaaaaaaaaaaaaaaaaaaaaaaaaaaaaaaaaaaaaaaaaaaaaaaaaaaaaaaaaaaaaaaaaaaaaaaaaaaaaaaaa", "-", "_", "%s%n", "../../etc/passwd"};
    return v;
}

const std::vector<std::string> &mathElements()
{
    static const std::vector<std::string> v = {"eq", "neq", "lt", "leq", "gt", "geq", "and", "or", "xor", "not", "plus", "minus", "times", "divide", "power", "root", "abs", "exp", "ln", "log", "ceiling", "floor", "min", "max", "rem", "diff",
                                               "sin", "cos", "tan", "sec", "csc", "cot", "sinh", "cosh", "tanh", "sech", "csch", "coth", "arcsin", "arccos", "arctan", "arcsec", "arccsc", "arccot", "arcsinh", "arccosh", "arctanh", "arcsech", "arccsch", "arccoth",
                                               "pi", "exponentiale", "true", "false", "infinity", "notanumber", "piecewise", "piece", "otherwise", "degree", "logbase", "bvar", "sep", "apply", "ci", "cn", "sum", "lambda", "semantics", "csymbol"};
    return v;
}

std::string applyEdit(std::string doc, Src &src, Case &c)
{
    switch (src.below(29)) { // kinds 0-21 keep their numbers; new kinds are appended (the default branch is kind 19)
    case 0: { // hostile number in a numeric attribute
        static const std::vector<std::string> attrs = {"exponent", "multiplier", "prefix", "order", "initial_value"};
        std::string a = src.pick(attrs);
        if (setAttr(doc, src, a, src.pick(hostileNumbers()))) {
            c.cls("edit:number@" + a);
        }
        break;
    }
    case 1: { // hostile cn text
        auto occ = findAll(doc, "<cn ");
        if (!occ.empty()) {
            size_t p = doc.find('>', src.pick(occ));
            size_t e = p == std::string::npos ? p : doc.find('<', p);
            if (e != std::string::npos) {
                doc.replace(p + 1, e - p - 1, src.pick(hostileNumbers()));
                c.cls("edit:number@cn");
            }
        }
        break;
    }
    case 2: { // operator swap -> arity violations of every kind
        std::vector<size_t> occ;
        for (const auto &op : {"<plus/>", "<times/>", "<minus/>", "<eq/>", "<divide/>", "<power/>", "<root/>", "<log/>", "<and/>", "<not/>", "<min/>", "<rem/>", "<sin/>", "<abs/>", "<lt/>", "<diff/>", "<max/>", "<xor/>"}) {
            for (size_t p : findAll(doc, op)) {
                occ.push_back(p);
            }
        }
        if (!occ.empty()) {
            size_t p = src.pick(occ);
            size_t e = doc.find("/>", p);
            doc.replace(p, e + 2 - p, "<" + src.pick(mathElements()) + "/>");
            c.cls("edit:math-operator-swap");
        }
        break;
    }
    case 3: { // drop an operand
        auto occ = findAll(doc, src.flip(50) ? "<ci>" : "<cn ");
        if (!occ.empty()) {
            size_t p = src.pick(occ);
            size_t e = doc.find(doc.compare(p, 4, "<ci>") == 0 ? "</ci>" : "</cn>", p);
            if (e != std::string::npos) {
                doc.erase(p, e + 5 - p);
                c.cls("edit:math-drop-operand");
            }
        }
        break;
    }
    case 4: { // duplicate an operand (or nest an element into ci/cn)
        auto occ = findAll(doc, "<ci>");
        if (!occ.empty()) {
            size_t p = src.pick(occ);
            size_t e = doc.find("</ci>", p);
            if (e != std::string::npos) {
                std::string el = doc.substr(p, e + 5 - p);
                if (src.flip(30)) {
                    doc.insert(p + 4, el); // <ci><ci>x</ci>x</ci>
                    c.cls("edit:math-element-in-ci");
                } else {
                    doc.insert(p, el);
                    c.cls("edit:math-duplicate-operand");
                }
            }
        }
        break;
    }
    case 5: { // hostile name / reference text
        static const std::vector<std::string> attrs = {"name", "units", "variable", "test_variable", "component", "component_1", "component_2", "variable_1", "variable_2", "units_ref", "component_ref", "xlink:href", "interface", "id"};
        std::string a = src.pick(attrs);
        if (setAttr(doc, src, a, src.pick(hostileNames()))) {
            c.cls("edit:text@" + a);
        }
        break;
    }
    case 6: { // retarget a unit reference to a user units name (cycles of length 1..n)
        std::vector<std::string> names;
        for (size_t p : findAll(doc, "<units ")) {
            std::string n = attrValueAt(doc, p, "name");
            if (!n.empty()) {
                names.push_back(n);
            }
        }
        auto occ = findAll(doc, "<unit ");
        if (!names.empty() && !occ.empty()) {
            size_t p = src.pick(occ);
            size_t a = doc.find(" units=\"", p);
            if (a != std::string::npos) {
                size_t e = doc.find('"', a + 8);
                doc.replace(a + 8, e - a - 8, src.pick(names));
                c.cls("edit:units-cycle-candidate");
            }
        } else if (!names.empty()) {
            // make a base unit refer to itself or to another one
            size_t p = src.pick(findAll(doc, "<units "));
            size_t e = doc.find("/>", p);
            size_t gt = doc.find('>', p);
            if (e != std::string::npos && e + 1 == gt) {
                doc.replace(e, 2, "><unit units=\"" + src.pick(names) + "\"/></units>");
                c.cls("edit:units-cycle-candidate");
            }
        }
        break;
    }
    case 7: { // make an import point at something hostile / at itself
        static const std::vector<std::string> hrefs = {"", "self.cellml", ".", "..", "/dev/null", "a/../../b.cellml", "%00", "file:///x", "http://[::1", "lib0.cellml"};
        if (setAttr(doc, src, "xlink:href", src.pick(hrefs))) {
            c.cls("edit:href");
        }
        break;
    }
    case 8: { // namespace edits
        static const std::vector<std::string> ns = {"http://www.cellml.org/cellml/2.0#", "http://www.cellml.org/cellml/1.1#", "http://www.cellml.org/cellml/1.0#", "http://www.w3.org/1998/Math/MathML", "http://www.w3.org/1999/xlink", "urn:foreign", ""};
        std::string from = src.pick(ns), to = src.pick(ns);
        auto occ = findAll(doc, "\"" + from + "\"");
        if (!from.empty() && from == to && !occ.empty()) {
            // the same namespace bound a second (and third) time, under other prefixes, by adjacent declarations
            size_t p = src.pick(occ);
            size_t e = p + from.size() + 2;
            std::string extra = " xmlns:dup1=\"" + from + "\"";
            if (src.flip(40)) {
                extra += " xmlns:dup2=\"" + from + "\"";
            }
            doc.insert(e, extra);
            c.cls("edit:namespace-bound-twice");
        } else if (!from.empty() && !occ.empty()) {
            size_t p = src.pick(occ);
            doc.replace(p + 1, from.size(), to);
            c.cls("edit:namespace");
        }
        break;
    }
    case 9: { // truncation at any byte
        if (!doc.empty()) {
            doc.resize(src.below(doc.size()));
            c.cls("edit:truncate");
        }
        break;
    }
    case 10: { // deep nesting
        size_t depth = 10 + src.below(4) * 120; // 10 .. 370
        std::string open, close;
        bool math = src.flip(50) && doc.find("<ci>") != std::string::npos;
        if (math) {
            for (size_t i = 0; i < depth; ++i) {
                open += "<apply><plus/>";
                close += "<cn cellml:units=\"dimensionless\">1</cn></apply>";
            }
            size_t p = src.pick(findAll(doc, "<ci>"));
            size_t e = doc.find("</ci>", p);
            if (e != std::string::npos) {
                doc.insert(e + 5, close);
                doc.insert(p, open);
                c.cls("edit:deep-math");
            }
        } else {
            size_t p = doc.find("</model>");
            if (p != std::string::npos) {
                std::string enc = "<encapsulation>";
                for (size_t i = 0; i < depth; ++i) {
                    enc += "<component_ref component=\"c" + std::to_string(i) + "\">";
                }
                for (size_t i = 0; i < depth; ++i) {
                    enc += "</component_ref>";
                }
                enc += "</encapsulation>";
                doc.insert(p, enc);
                c.cls("edit:deep-encapsulation");
            }
        }
        break;
    }
    case 11: { // many siblings
        size_t n = 50 + src.below(4) * 250; // up to 800 (validation is quadratic in the number of siblings; larger counts only burn time)
        static const std::vector<std::string> what = {"<ci>", "<variable ", "<unit ", "<component ", "<map_variables "};
        std::string w = src.pick(what);
        auto occ = findAll(doc, w);
        if (!occ.empty()) {
            size_t p = src.pick(occ);
            size_t e = w == "<ci>" ? doc.find("</ci>", p) : doc.find("/>", p);
            if (e != std::string::npos) {
                e += w == "<ci>" ? 5 : 2;
                std::string el = doc.substr(p, e - p);
                if (el.size() * n < 60000) {
                    std::string many;
                    for (size_t i = 0; i < n; ++i) {
                        many += el;
                    }
                    doc.insert(p, many);
                    c.cls("edit:many-siblings");
                }
            }
        }
        break;
    }
    case 12: { // DTD / entities / CDATA / PI / comments
        switch (src.below(5)) {
        case 0: {
            size_t p = doc.find("<model");
            if (p != std::string::npos) {
                doc.insert(p, "<!DOCTYPE model [<!ENTITY e \"x\"><!ENTITY f \"&e;&e;&e;&e;&e;&e;&e;&e;\"><!ENTITY g \"&f;&f;&f;&f;&f;&f;&f;&f;\">]>");
                setAttr(doc, src, "name", "&g;");
            }
            break;
        }
        case 1: {
            auto occ = findAll(doc, "<ci>");
            if (!occ.empty()) {
                doc.insert(src.pick(occ) + 4, "<![CDATA[<x>]]>");
            }
            break;
        }
        case 2: {
            auto occ = findAll(doc, ">");
            if (!occ.empty()) {
                doc.insert(src.pick(occ) + 1, "<?pi data?>");
            }
            break;
        }
        case 3: {
            auto occ = findAll(doc, ">");
            if (!occ.empty()) {
                doc.insert(src.pick(occ) + 1, "<!-- c -->");
            }
            break;
        }
        default: {
            auto occ = findAll(doc, ">");
            if (!occ.empty()) {
                doc.insert(src.pick(occ) + 1, "stray text &amp; more");
            }
        }
        }
        c.cls("edit:xml-constructs");
        break;
    }
    case 13: { // delete a required attribute
        static const std::vector<std::string> attrs = {"name", "units", "variable", "test_variable", "component_1", "component_2", "variable_1", "variable_2", "component", "xlink:href", "units_ref", "component_ref", "order"};
        std::string a = src.pick(attrs);
        auto occ = findAll(doc, " " + a + "=\"");
        if (!occ.empty()) {
            size_t p = src.pick(occ);
            size_t e = doc.find('"', p + a.size() + 3);
            if (e != std::string::npos) {
                doc.erase(p, e + 1 - p);
                c.cls("edit:delete-attribute");
            }
        }
        break;
    }
    case 14: { // duplicate or delete a whole element
        static const std::vector<std::string> what = {"<component ", "<units ", "<connection ", "<encapsulation", "<reset ", "<import ", "<math ", "<test_value", "<reset_value", "<component_ref "};
        std::string w = src.pick(what);
        auto occ = findAll(doc, w);
        if (!occ.empty()) {
            size_t p = src.pick(occ);
            std::string tag = w.substr(1, w.find_first_of(" ", 1) == std::string::npos ? std::string::npos : w.find_first_of(" ", 1) - 1);
            size_t selfClose = doc.find("/>", p);
            size_t gt = doc.find('>', p);
            size_t e;
            if (selfClose != std::string::npos && selfClose + 1 == gt) {
                e = gt + 1;
            } else {
                e = doc.find("</" + tag + ">", p);
                if (e == std::string::npos) {
                    break;
                }
                e += tag.size() + 3;
            }
            std::string el = doc.substr(p, e - p);
            if (src.flip(50)) {
                doc.insert(p, el);
                c.cls("edit:duplicate-element");
            } else {
                doc.erase(p, e - p);
                c.cls("edit:delete-element");
            }
        }
        break;
    }
    case 15: { // encapsulation reference to self / ancestor / unknown
        std::vector<std::string> names;
        for (size_t p : findAll(doc, "<component_ref ")) {
            names.push_back(attrValueAt(doc, p, "component"));
        }
        if (!names.empty() && setAttr(doc, src, "component", src.pick(names))) {
            c.cls("edit:encapsulation-retarget");
        }
        break;
    }
    case 16: { // initial_value naming a variable (itself, a sibling, an unknown one)
        std::vector<std::string> names;
        for (size_t p : findAll(doc, "<variable ")) {
            names.push_back(attrValueAt(doc, p, "name"));
        }
        auto occ = findAll(doc, "<variable ");
        if (!occ.empty()) {
            size_t p = src.pick(occ);
            std::string self = attrValueAt(doc, p, "name");
            doc.insert(p + 9, " initial_value=\"" + (src.flip(50) ? self : src.pick(names)) + "\"");
            c.cls("edit:initial-value-reference");
        }
        break;
    }
    case 17: { // move an element into the wrong parent
        auto occ = findAll(doc, "<variable ");
        size_t m = doc.find("</model>");
        if (!occ.empty() && m != std::string::npos) {
            size_t p = src.pick(occ);
            size_t e = doc.find("/>", p);
            if (e != std::string::npos && e < m) {
                std::string el = doc.substr(p, e + 2 - p);
                doc.insert(m, el);
                c.cls("edit:wrong-parent");
            }
        }
        break;
    }
    case 18: { // qualifier in the wrong place / bvar with cn / diff of an expression
        auto occ = findAll(doc, "<apply>");
        if (!occ.empty()) {
            static const std::vector<std::string> junk = {"<bvar><cn cellml:units=\"second\">1</cn></bvar>", "<degree><ci>x</ci></degree>", "<logbase/>", "<apply><diff/><bvar><ci>t</ci></bvar><apply><plus/><ci>x</ci><ci>y</ci></apply></apply>", "<piecewise/>", "<piecewise><piece><cn cellml:units=\"second\">1</cn></piece></piecewise>", "<apply/>", "<otherwise/>",
                                                           "<apply><diff/><bvar><ci>t</ci><degree><cn cellml:units=\"dimensionless\">2</cn></degree></bvar><ci>x</ci></apply>"};
            doc.insert(src.pick(occ) + 7, src.pick(junk));
            c.cls("edit:math-misplaced-qualifier");
        }
        break;
    }
    case 20: { // a cn in e-notation with hostile mantissa / exponent (1<sep/>999: a number out of the range of a double)
        auto occ = findAll(doc, "<cn ");
        if (!occ.empty()) {
            static const std::vector<std::string> parts = {"1", "999", "-999", "308", "309", "-400", "1e5", "", ".", "-", "2.5", "99999999999", "+3", " 7 "};
            size_t o = src.pick(occ);
            size_t p = doc.find('>', o);
            size_t e = p == std::string::npos ? p : doc.find("</cn>", p);
            if (e != std::string::npos && doc[p - 1] != '/' && src.flip(50)) {
                // valid by construction: the number becomes the base of a power / the radicand of a root / the argument of a
                // logarithm whose exponent / degree / base is an e-notation number at or beyond the range of a double
                static const std::vector<std::string> huge = {"1<sep/>999", "1<sep/>-999", "9.9<sep/>308", "1<sep/>309", "-1<sep/>400", "1<sep/>0", "0<sep/>0", "5<sep/>-324"};
                std::string number = doc.substr(o, e + 5 - o);
                std::string q = "<cn cellml:units=\"dimensionless\" type=\"e-notation\">" + src.pick(huge) + "</cn>";
                std::string repl;
                switch (src.below(4)) {
                case 0: repl = "<apply><power/>" + number + q + "</apply>"; break;
                case 1: repl = "<apply><root/><degree>" + q + "</degree>" + number + "</apply>"; break;
                case 2: repl = "<apply><log/><logbase>" + q + "</logbase>" + number + "</apply>"; break;
                default: repl = "<apply><power/>" + q + number + "</apply>"; break;
                }
                doc.replace(o, e + 5 - o, repl);
                c.cls("edit:cn-e-notation-in-power");
            } else if (e != std::string::npos && doc[p - 1] != '/') {
                std::string body = src.pick(parts) + "<sep/>" + src.pick(parts);
                if (src.flip(15)) {
                    body += "<sep/>" + src.pick(parts);
                }
                doc.replace(p + 1, e - p - 1, body);
                if (!src.flip(15)) {
                    doc.insert(o + 3, " type=\"e-notation\"");
                }
                c.cls("edit:cn-e-notation");
            }
        }
        break;
    }
    case 21: { // a very long run of white space (or of one other character) inside character data or between tags
        static const std::vector<size_t> lengths = {2000, 20000, 45000, 60000};
        static const std::vector<std::string> fill = {" ", " ", "\n", "\t", " \n", "x", "&amp;"};
        static const std::vector<std::string> anchors = {"<ci>", "</ci>", "<cn ", "</cn>", "<apply>", "</math>", "name=\"", "units=\"", "<variable ", "</component>", "initial_value=\""};
        auto occ = findAll(doc, src.pick(anchors));
        if (!occ.empty()) {
            size_t p = src.pick(occ);
            size_t q = doc.find_first_of(">\"", p);
            if (q != std::string::npos) {
                std::string f = src.pick(fill), run;
                size_t n = src.pick(lengths);
                if (doc.size() + n > 65000) { // stay below the 64 KiB of the statement (a longer document is cut, i.e. not well-formed)
                    n = doc.size() < 64000 ? 65000 - doc.size() : 0;
                }
                while (run.size() < n) {
                    run += f;
                }
                doc.insert(q + 1, run);
                c.cls("edit:long-run");
            }
        }
        break;
    }
    case 22: { // a reference to an internal (or unloaded external) entity in element content: libxml2 keeps an entity-reference node
        static const std::vector<std::string> dtds = {
            "<!ENTITY a \"some entity replacement text that is long enough\">",
            "<!ENTITY a \"x\">",
            "<!ENTITY a \"1\">",
            "<!ENTITY a \"<ci>x</ci>\">",
            "<!ENTITY b \"y\"><!ENTITY a \"&b;&b;\">",
            "<!ENTITY a SYSTEM \"file:///nonexistent-vp-dir/e.txt\">",
            "<!ENTITY a \"<variable name='q' units='second'/>\">",
            "<!ENTITY a \"\">",
        };
        static const std::vector<std::string> anchors = {">", "<ci>", "<cn ", "<math ", "<apply>", "<component ", "<model ", "<units ", "<variable ", "<reset ", "<test_value>", "<connection ", "<encapsulation>", "<component_ref ", "<import ", "<bvar>"};
        size_t m = doc.find("<model");
        std::string anchor = src.pick(anchors);
        auto occ = findAll(doc, anchor);
        if (m != std::string::npos && !occ.empty()) {
            size_t p = src.pick(occ);
            size_t q = anchor == ">" ? p : doc.find('>', p);
            if (q != std::string::npos && q > m) {
                if (doc[q - 1] == '/' && anchor != ">") { // an empty-element tag: open it up
                    std::string name = doc.substr(p + 1, doc.find_first_of(" />", p + 1) - p - 1);
                    doc.replace(q - 1, 2, ">&a;</" + name + ">");
                } else {
                    doc.insert(q + 1, src.flip(20) ? "&a;&a;" : "&a;");
                }
                doc.insert(m, "<!DOCTYPE model [" + src.pick(dtds) + "]>");
                c.cls("edit:entity-reference-in-content");
            }
        }
        break;
    }
    case 23: { // an apply with exactly one child / without its operator (the document may stay valid: the validator accepts both)
        if (src.flip(60)) {
            auto occ = findAll(doc, "<ci>");
            if (!occ.empty()) {
                size_t p = src.pick(occ);
                size_t e = doc.find("</ci>", p);
                if (e != std::string::npos) {
                    std::string el = doc.substr(p, e + 5 - p);
                    static const std::vector<std::string> only = {"", "<cn cellml:units=\"dimensionless\">1</cn>", "<pi/>", "<infinity/>", "<true/>", "<piecewise/>", "<apply/>", "<!-- c -->"};
                    std::string inner = src.pick(only);
                    if (inner.empty()) {
                        inner = el;
                    } else if (inner == "<apply/>") {
                        inner = "<apply>" + el + "</apply>";
                    } else if (inner == "<!-- c -->") {
                        inner += el;
                    }
                    doc.replace(p, e + 5 - p, "<apply>" + inner + "</apply>");
                    c.cls("edit:math-apply-one-child");
                }
            }
        } else {
            // delete the operator: the first operand takes its place
            std::vector<size_t> occ;
            for (size_t p : findAll(doc, "<apply><")) {
                size_t e = doc.find('>', p + 8);
                if (e != std::string::npos && doc[e - 1] == '/' && doc.compare(p + 8, 2, "eq") != 0) {
                    occ.push_back(p);
                }
            }
            if (!occ.empty()) {
                size_t p = src.pick(occ);
                size_t e = doc.find('>', p + 8);
                doc.erase(p + 7, e + 1 - p - 7);
                c.cls("edit:math-apply-without-operator");
            }
        }
        break;
    }
    case 24: { // piecewise without children, piece / otherwise with the wrong number of children
        auto occ = findAll(doc, "<ci>");
        if (!occ.empty()) {
            size_t p = src.pick(occ);
            size_t e = doc.find("</ci>", p);
            if (e != std::string::npos) {
                const std::string x = doc.substr(p, e + 5 - p);
                const std::vector<std::string> shapes = {"<piecewise/>", "<piecewise></piecewise>", "<piecewise><!-- c --></piecewise>", "<piecewise> </piecewise>", "<piecewise><piece/></piecewise>", "<piecewise><piece>" + x + "</piece></piecewise>",
                                                         "<piecewise><otherwise/></piecewise>", "<piecewise><otherwise>" + x + x + "</otherwise></piecewise>", "<piecewise><piece>" + x + x + x + "</piece></piecewise>", "<piecewise><otherwise>" + x + "</otherwise></piecewise>",
                                                         "<piecewise><piece>" + x + "<piecewise/></piece></piecewise>", "<apply><plus/>" + x + "<piecewise/></apply>", "<piecewise><piece><piecewise/><apply><gt/>" + x + x + "</apply></piece><otherwise><piecewise/></otherwise></piecewise>"};
                doc.replace(p, e + 5 - p, src.pick(shapes));
                c.cls("edit:math-piecewise-child-count");
            }
        }
        break;
    }
    case 25: { // a derivative (with a degree) of something that is not a variable
        auto occ = findAll(doc, "<ci>");
        if (!occ.empty()) {
            size_t p = src.pick(occ);
            size_t e = doc.find("</ci>", p);
            if (e != std::string::npos) {
                const std::string x = doc.substr(p, e + 5 - p);
                static const std::vector<std::string> degrees = {"2", "1", "0", "1.5", "-1", "3", "2", ""}; // "": a variable as degree
                const std::vector<std::string> operands = {"<cn cellml:units=\"dimensionless\">1</cn>", "<pi/>", "<infinity/>", "<apply><plus/>" + x + x + "</apply>", "<piecewise><otherwise>" + x + "</otherwise></piecewise>", "<true/>", "<apply><diff/><bvar>" + x + "</bvar>" + x + "</apply>", x};
                std::string bvar = x;
                // the variable of some other derivative of the document, when there is one (every second time)
                auto bv = findAll(doc, "<bvar><ci>");
                size_t bsel = src.below(2 * bv.size() + 1);
                if (bsel > bv.size()) {
                    size_t b = bv[bsel - bv.size() - 1] + 6;
                    size_t be = doc.find("</ci>", b);
                    if (be != std::string::npos) {
                        bvar = doc.substr(b, be + 5 - b);
                    }
                }
                std::string d = src.pick(degrees);
                std::string degree = d.empty() ? "<degree>" + x + "</degree>" : "<degree><cn cellml:units=\"dimensionless\">" + d + "</cn></degree>";
                doc.replace(p, e + 5 - p, "<apply><diff/><bvar>" + bvar + degree + "</bvar>" + src.pick(operands) + "</apply>");
                c.cls("edit:math-diff-degree-of-non-variable");
            }
        }
        break;
    }
    case 26: { // a math element whose only (or additional) child is a token, a constant or a bare expression
        auto occ = findAll(doc, "<math ");
        if (!occ.empty()) {
            size_t p = src.pick(occ);
            size_t q = doc.find('>', p);
            size_t e = doc.find("</math>", p);
            if (q != std::string::npos && e != std::string::npos && doc[q - 1] != '/') {
                std::string x = "<ci>x</ci>";
                size_t ci = doc.find("<ci>", q);
                if (ci != std::string::npos && ci < e) {
                    size_t ce = doc.find("</ci>", ci);
                    if (ce != std::string::npos && ce < e) {
                        x = doc.substr(ci, ce + 5 - ci);
                    }
                }
                const std::vector<std::string> roots = {x, "<cn cellml:units=\"dimensionless\">1</cn>", "<pi/>", "<piecewise/>", "<apply><plus/>" + x + x + "</apply>", "<true/>", "<apply>" + x + "</apply>", "<piecewise><otherwise>" + x + "</otherwise></piecewise>", "<notanumber/>", "<apply/>"};
                std::string root = src.pick(roots);
                if (src.flip(50)) {
                    doc.replace(q + 1, e - q - 1, root);
                    c.cls("edit:math-root-not-an-equation");
                } else {
                    doc.insert(src.flip(50) ? q + 1 : e, root);
                    c.cls("edit:math-extra-root-not-an-equation");
                }
            }
        }
        break;
    }
    case 27: { // text that looks like an XML declaration inside a comment / CDATA section of math, followed by a long single line
        static const std::vector<size_t> lengths = {3000, 20000, 40000, 60000};
        static const std::vector<std::string> anchors = {"<math ", "<apply>", "<ci>", "</ci>", "<cn ", "</apply>", "<test_value>", "<component "};
        auto occ = findAll(doc, src.pick(anchors));
        if (!occ.empty()) {
            size_t q = doc.find('>', src.pick(occ));
            if (q != std::string::npos) {
                size_t n = src.pick(lengths);
                if (doc.size() + n > 65000) {
                    n = doc.size() < 64000 ? 65000 - doc.size() : 0;
                }
                static const std::vector<std::pair<std::string, std::string>> variants = {{"<?xml version=", "a"}, {"<?xml  version=\"1.0\"", " "}, {"<?xml\tversion=", "?"}, {"<?xml\nversion=", "a?>"}, {"<?xml version=", "\t"}, {"<?xml version=\"1.0\" encoding=\"UTF-8\"", "b"}};
                const auto &variant = src.pick(variants);
                std::string line = variant.first;
                while (line.size() < n) {
                    line += variant.second;
                }
                unsigned wrap = static_cast<unsigned>(src.below(4)); // bit 0: CDATA instead of a comment, bit 1: the line ends with ?>
                if ((wrap & 2) != 0) {
                    line += "?>";
                }
                doc.insert(q + 1, (wrap & 1) != 0 ? "<![CDATA[" + line + "]]>" : "<!--" + line + "-->");
                c.cls("edit:xml-declaration-text-long-line");
            }
        }
        break;
    }
    case 28: { // an n-ary operator with very many operands, in a model that stays valid: the analyser rewrites n operands into a chain
               // of depth n that every later pass (analysis, units, code generation) walks recursively. Nesting k such applications as
               // last operand of each other adds the depths up while the (quadratic) cost of each stays small.
        static const std::vector<std::string> ops = {"plus", "times", "and", "or", "plus", "min", "max", "xor"};
        static const std::vector<std::pair<size_t, size_t>> shapes = {{1, 500}, {60, 100}, {8, 800}, {130, 50}, {30, 220}, {1, 1600}, {24, 400}, {3, 1000}}; // cost k*m*m <= 5e6 (validating one application is quadratic)
        const size_t opSel = src.below(ops.size() * 3);
        std::string op = ops[opSel % ops.size()];
        unsigned operandKind = static_cast<unsigned>(opSel / ops.size()); // the variable itself, pi, a number
        const auto &shape = src.pick(shapes);
        size_t k = shape.first, m = shape.second;
        bool standalone = src.flip(50);
        std::string x = "<ci>a</ci>";
        size_t p = std::string::npos, e = std::string::npos;
        if (!standalone) {
            // the last operand of some equation (a ci directly before </apply></apply></math> is an operand of the right-hand side)
            auto occ = findAll(doc, "</ci></apply>");
            if (occ.empty()) {
                standalone = true;
            } else {
                e = src.pick(occ) + 5;
                p = doc.rfind("<ci>", e);
                if (p == std::string::npos) {
                    standalone = true;
                } else {
                    x = doc.substr(p, e - p);
                }
            }
        }
        // fifteen in sixteen stay at a depth that an 8 MiB stack survives (the chain of more than about 5 500 nodes that exhausts it is a
        // known, unrepaired finding: every hit costs a worker restart and a serial triage - three replays, three gdb runs - in bin/check)
        const bool deep = src.below(16) == 15;
        if (deep) {
            operandKind = 1; // the shortest operand: the depth the 64 KiB allow
        }
        const std::string operand = operandKind == 0 ? x : (operandKind == 1 ? std::string("<pi/>") : std::string("<cn cellml:units=\"dimensionless\">1</cn>"));
        const size_t budget = 64500 - std::min<size_t>(64500, standalone ? 500 : doc.size());
        const size_t perLevel = op.size() + 18; // <apply><op/> ... </apply>
        while (k > 1 && (k * (m * operand.size() + perLevel) > budget || (!deep && k * (m - 1) > 3000))) {
            k = k * 3 / 4;
        }
        if (k * (m * operand.size() + perLevel) > budget) {
            m = budget > perLevel ? (budget - perLevel) / operand.size() : 0;
        }
        if (!deep && k * (m - 1) > 3000) {
            m = 3000 / k + 1;
        }
        if (m >= 2) {
            std::string level, expr;
            for (size_t i = 0; i + 1 < m; ++i) {
                level += operand;
            }
            for (size_t i = 0; i < k; ++i) {
                expr += "<apply><" + op + "/>" + level;
            }
            expr += operand;
            for (size_t i = 0; i < k; ++i) {
                expr += "</apply>";
            }
            if (standalone) {
                doc = "<?xml version=\"1.0\" encoding=\"UTF-8\"?>\n<model xmlns=\"http://www.cellml.org/cellml/2.0#\" name=\"m\"><component name=\"c\"><variable name=\"a\" units=\"dimensionless\" initial_value=\"1\"/><variable name=\"x\" units=\"dimensionless\"/>"
                      "<math xmlns=\"http://www.w3.org/1998/Math/MathML\" xmlns:cellml=\"http://www.cellml.org/cellml/2.0#\"><apply><eq/><ci>x</ci>" + expr + "</apply></math></component></model>";
            } else {
                doc.replace(p, e - p, expr);
            }
            c.cls(standalone ? "edit:nary-chain-standalone" : "edit:nary-chain-in-document");
            c.cls("nary-depth>=" + std::string(k * (m - 1) >= 5000 ? "5000" : (k * (m - 1) >= 1000 ? "1000" : "0")));
        }
        break;
    }
    default: { // connect variables of unrelated components / duplicate connection in reverse
        auto occ = findAll(doc, "<connection ");
        if (!occ.empty()) {
            size_t p = src.pick(occ);
            std::string c1 = attrValueAt(doc, p, "component_1"), c2 = attrValueAt(doc, p, "component_2");
            size_t e = doc.find("</connection>", p);
            if (e != std::string::npos) {
                std::string el = doc.substr(p, e + 13 - p);
                size_t a = el.find("component_1=\"" + c1 + "\"");
                if (a != std::string::npos) {
                    el.replace(a, 14 + c1.size(), "component_1=\"" + c2 + "\"");
                }
                doc.insert(p, el);
                c.cls("edit:connection-variant");
            }
        }
    }
    }
    return doc;
}

void run(Src &src, Case &c)
{
    // plan first
    unsigned cfgBits = static_cast<unsigned>(src.below(8));
    unsigned version = static_cast<unsigned>(src.below(6)); // 0-3: 2.0, 4: 1.1, 5: 1.0
    size_t nEdits = src.below(5);
    // the choices of each edit are drawn here, at the start of the tape, so that a tape used up by the model generator
    // does not degrade every edit to "first kind, first location"
    std::vector<std::vector<uint32_t>> editTapes(nEdits + 1);
    for (auto &t : editTapes) {
        for (int k = 0; k < 6; ++k) {
            t.push_back(static_cast<uint32_t>(src.below(1u << 20)));
        }
    }
    GenOpts opt;
    opt.v1x = version >= 4;
    if (version == 5) {
        opt.imports = false;
    }
    ModelSpec spec = genValidModel(src, opt);
    XmlOptions xo;
    xo.version = version >= 4 ? (version == 4 ? 11 : 10) : 20;
    xo.layout = static_cast<uint32_t>(src.below(8));
    if (opt.v1x) {
        xo.unitsInComponents = src.flip(30);
        xo.cmetaId = src.flip(30);
        xo.oldSpellings = src.flip(30);
        xo.extras = src.flip(30);
        xo.explicitNone = src.flip(20);
    }
    std::string doc = writeXml(spec, xo);
    for (size_t i = 0; i < nEdits; ++i) {
        TapeSrc es(editTapes[i]);
        doc = applyEdit(doc, es, c);
    }
    PipelineCfg cfg;
    bool aimedLibrary = false;
    cfg.strict = (cfgBits & 1) == 0 && !opt.v1x;
    cfg.selfLibrary = (cfgBits & 2) != 0;
    if ((cfgBits & 4) != 0) {
        // a second generated document as import target (valid, with its own small edit chance)
        GenOpts lo;
        lo.imports = src.flip(30);
        // the library document also comes in CellML 1.1 / 1.0 (what a permissive importer converts, reporting as it goes)
        const uint32_t lv = editTapes[nEdits][4] % 10;
        lo.v1x = lv < 5;
        if (lv >= 3 && lv < 5) {
            lo.imports = false;
        }
        ModelSpec lib = genValidModel(src, lo);
        // give the library the entities the main document asks for, so that resolution gets past "not found"
        {
            std::vector<size_t> tops;
            for (size_t i = 0; i < lib.comps.size(); ++i) {
                if (lib.comps[i].parent < 0 && lib.comps[i].import < 0) {
                    tops.push_back(i);
                }
            }
            size_t nextComp = 0, nextUnits = 0;
            auto compNameTaken = [&](const std::string &n) { for (const auto &k : lib.comps) { if (k.name == n) { return true; } } return false; };
            auto unitsNameTaken = [&](const std::string &n) { for (const auto &k : lib.units) { if (k.name == n) { return true; } } return false; };
            for (const auto &k : spec.comps) {
                if (k.import >= 0 && nextComp < tops.size() && !k.importRef.empty() && !compNameTaken(k.importRef)) {
                    lib.comps[tops[nextComp++]].name = k.importRef;
                }
            }
            for (const auto &k : spec.units) {
                if (k.import >= 0 && !k.importRef.empty() && !unitsNameTaken(k.importRef)) {
                    while (nextUnits < lib.units.size() && lib.units[nextUnits].import >= 0) {
                        ++nextUnits;
                    }
                    if (nextUnits < lib.units.size()) {
                        const std::string old = lib.units[nextUnits].name;
                        lib.units[nextUnits].name = k.importRef;
                        for (auto &u : lib.units) {
                            for (auto &ch : u.units) {
                                if (ch.ref == old) {
                                    ch.ref = k.importRef;
                                }
                            }
                        }
                        for (auto &lc : lib.comps) {
                            for (auto &v : lc.vars) {
                                if (v.units == old) {
                                    v.units = k.importRef;
                                }
                            }
                        }
                        ++nextUnits;
                    }
                }
            }
        }
        XmlOptions lx;
        lx.version = lo.v1x ? (lv < 3 ? 11 : 10) : 20;
        cfg.extraDoc = writeXml(lib, lx);
        c.cls(lo.v1x ? "library-document:1.x" : "library-document:2.0");
        if (editTapes[nEdits][5] % 10 < 5) {
            TapeSrc es(editTapes[nEdits]);
            cfg.extraDoc = applyEdit(cfg.extraDoc, es, c);
            c.cls("library-document:edited");
        }
        if (lo.v1x && editTapes[nEdits][2] % 2 == 0) {
            // aimed: a 1.x library file with a parser ERROR that is not an XML error (kind 13 deletes a required attribute); a
            // permissive importer then converts the file, reports about it and copies / erases issues (seeded/C01-2, C15-1)
            if (editTapes[nEdits][1] % 2 == 0) {
                std::vector<uint32_t> t = editTapes[nEdits];
                t[0] = tapeUnmix(13);
                TapeSrc es(t);
                cfg.extraDoc = applyEdit(cfg.extraDoc, es, c);
            } else {
                // an error that has nothing to do with what is imported: a further component with a nameless variable
                size_t end = cfg.extraDoc.rfind("</model>");
                if (end != std::string::npos) {
                    cfg.extraDoc.insert(end, "<component name=\"vp_unrelated\"><variable units=\"dimensionless\"/></component>");
                }
            }
            c.cls("library-document:1.x-with-parser-error");
            aimedLibrary = true;
        }
    }
    cfg.libraryFiles = aimedLibrary || editTapes[nEdits][3] % 4 != 0;
    if (aimedLibrary) {
        cfg.strict = false; // a permissive importer is the one that converts 1.x files
    }
    if (doc.size() > 65536) {
        doc.resize(65536);
    }
    c.cls("edits=" + std::to_string(nEdits));
    c.hash = hashStr(doc, hashStr(cfg.extraDoc) ^ cfgBits);
    c.weight = doc.size();
    c.text = "cfg=" + std::to_string(cfgBits) + " version=" + std::to_string(xo.version) + "\n" + doc.substr(0, 5000) + (cfg.extraDoc.empty() ? "" : "\n--- library document ---\n" + cfg.extraDoc.substr(0, 2000));
    if (getenv("VP_DUMP_CASE") != nullptr) { // triage aid: write the document(s) of this case to files
        std::string p = getenv("VP_DUMP_CASE");
        FILE *f = fopen(p.c_str(), "w");
        if (f != nullptr) {
            fwrite(doc.data(), 1, doc.size(), f);
            fclose(f);
        }
        f = fopen((p + ".lib").c_str(), "w");
        if (f != nullptr) {
            fwrite(cfg.extraDoc.data(), 1, cfg.extraDoc.size(), f);
            fclose(f);
        }
        fprintf(stderr, "cfg strict=%d selfLibrary=%d extraDoc=%zu bytes\n", cfg.strict ? 1 : 0, cfg.selfLibrary ? 1 : 0, cfg.extraDoc.size());
    }
    runPipeline(doc, cfg, c);
}

} // namespace

namespace vp {
Property property = {
    "C01",
    "exploration",
    "structure-aware generation: a valid-by-construction model (CellML 2.0, or rewritten to 1.1/1.0 syntax) is serialised by the harness's own writer and 0-4 hostile edits are applied "
    "(numeric text, hostile names and marker strings, unit-reference cycles, import retargeting, MathML operator swaps / dropped / duplicated operands / misplaced qualifiers, namespace edits, truncation, deep nesting, "
    "thousands of siblings, DTD entities / CDATA / PI, deleted attributes, duplicated or deleted elements, e-notation numbers, long runs of one character, entity references in element content, "
    "applies with one child or without operator, piecewise / piece / otherwise with wrong child counts, derivatives with a degree of non-variables, bare tokens below math, declaration-like text on a long line in comments / CDATA, "
    "n-ary operators with up to ~12 900 chained operands in a valid model); the whole pipeline runs on the result x {strict, permissive} x importer-library configuration. "
    "Oracle: the process survives and side conditions hold (null model => issue, no code for invalid models, coherent issue lists). Non-trivial: parsed model with >= 1 component or units. Distinct = hash of the document.",
    run,
    nullptr,
    {"libxml2 2.13.9 as linked by the baseline build", "leak detection is off", "stack-overflow / time-out reports are confirmed on the unsanitised build before they count"},
};
}

// C09 (bad arguments) — every public method that takes an entity pointer, an index or a name, called with
// {null, an entity never added to a model, an entity whose owner was destroyed, an index one past the end, an unknown name}:
// the call must return (no crash, no sanitizer report, no hang) with false / null / "" / 0 / an issue, and the canonical
// dump of every model and entity in scope (and the observable state of the services) must be unchanged.
//
// One case = one (entry point, argument class) pair, run in a forked child (vp::runIsolated) so that one crash does not
// hide the others. `--mode ex` enumerates the whole table exactly once (the tape has a single choice); rc picks at random.
// Keys are those of bin/c09_entrypoints.py (Class::method(kinds)); the evidence reports covered/total of that list.
#include <libcellml>

#include <cmath>
#include <fstream>
#include <map>
#include <functional>
#include <unistd.h>

#include "prop.h"
#include "spec.h"

using namespace vp;
using namespace libcellml;

namespace {

enum ArgClass
{
    NUL = 1, // null pointer
    NEVER = 2, // entity never added to a model (parentless)
    ORPHAN = 4, // entity whose owner (model / component) has been destroyed
    PASTEND = 8, // index == count
    UNKNOWN = 16, // name / id / key that does not exist
};
const char *className(int k)
{
    switch (k) {
    case NUL: return "null";
    case NEVER: return "never-added";
    case ORPHAN: return "owner-destroyed";
    case PASTEND: return "one-past-the-end";
    default: return "unknown-name";
    }
}

const char *kMainModel = R"(<?xml version="1.0" encoding="UTF-8"?>
<model xmlns="http://www.cellml.org/cellml/2.0#" name="main_model" id="model_id">
  <units name="mV" id="units_id"><unit units="volt" prefix="milli" id="unit_id"/></units>
  <units name="per_s"><unit units="second" exponent="-1"/></units>
  <component name="main" id="main_id">
    <variable name="t" units="second" id="t_id"/>
    <variable name="x" units="dimensionless" initial_value="1" id="x_id"/>
    <variable name="y" units="dimensionless" interface="public_and_private" id="y_id"/>
    <variable name="k" units="mV" initial_value="2"/>
    <math xmlns="http://www.w3.org/1998/Math/MathML">
      <apply><eq/><apply><diff/><bvar><ci>t</ci></bvar><ci>x</ci></apply><cn xmlns:cellml="http://www.cellml.org/cellml/2.0#" cellml:units="per_s">1</cn></apply>
      <apply><eq/><ci>y</ci><apply><plus/><ci>x</ci><cn xmlns:cellml="http://www.cellml.org/cellml/2.0#" cellml:units="dimensionless">1</cn></apply></apply>
    </math>
  </component>
  <component name="child" id="child_id">
    <variable name="z" units="dimensionless" interface="public" id="z_id"/>
  </component>
  <connection component_1="main" component_2="child" id="connection_id"><map_variables variable_1="y" variable_2="z" id="map_id"/></connection>
  <encapsulation id="encapsulation_id"><component_ref component="main" id="cref_id"><component_ref component="child"/></component_ref></encapsulation>
</model>)";

// A second model with a reset (kept out of the analysed model) and one that imports.
const char *kOtherModel = R"(<?xml version="1.0" encoding="UTF-8"?>
<model xmlns="http://www.cellml.org/cellml/2.0#" name="other_model">
  <units name="uu"><unit units="metre"/></units>
  <component name="oc" id="oc_id">
    <variable name="a" units="dimensionless" id="a_id"/>
    <variable name="b" units="dimensionless"/>
    <reset variable="a" test_variable="b" order="1" id="reset_id">
      <test_value id="tv_id"><math xmlns="http://www.w3.org/1998/Math/MathML"><cn xmlns:cellml="http://www.cellml.org/cellml/2.0#" cellml:units="dimensionless">1</cn></math></test_value>
      <reset_value id="rv_id"><math xmlns="http://www.w3.org/1998/Math/MathML"><cn xmlns:cellml="http://www.cellml.org/cellml/2.0#" cellml:units="dimensionless">0</cn></math></reset_value>
    </reset>
  </component>
</model>)";

const char *kImportingModel = R"(<?xml version="1.0" encoding="UTF-8"?>
<model xmlns="http://www.cellml.org/cellml/2.0#" xmlns:xlink="http://www.w3.org/1999/xlink" name="importing_model">
  <import xlink:href="lib.cellml" id="import_id"><component name="ic" component_ref="oc"/><units name="iu" units_ref="uu"/></import>
</model>)";

// For the short histories: an ODE x' = 1 plus variables that no equation uses, so that they can leave the model
// without invalidating it; p (main) and q (side) are connected, with ids on the mapping and the connection.
const char *kStoryModel = R"(<?xml version="1.0" encoding="UTF-8"?>
<model xmlns="http://www.cellml.org/cellml/2.0#" name="story_model">
  <units name="per_s"><unit units="second" exponent="-1"/></units>
  <component name="main">
    <variable name="t" units="second"/>
    <variable name="x" units="dimensionless" initial_value="1"/>
    <variable name="ext" units="dimensionless" initial_value="3"/>
    <variable name="spare" units="dimensionless" initial_value="4"/>
    <variable name="p" units="dimensionless" interface="public" initial_value="5"/>
    <math xmlns="http://www.w3.org/1998/Math/MathML">
      <apply><eq/><apply><diff/><bvar><ci>t</ci></bvar><ci>x</ci></apply><cn xmlns:cellml="http://www.cellml.org/cellml/2.0#" cellml:units="per_s">1</cn></apply>
    </math>
  </component>
  <component name="side">
    <variable name="q" units="dimensionless" interface="public"/>
    <variable name="e1" units="dimensionless" initial_value="1"/>
    <variable name="e2" units="dimensionless" initial_value="2"/>
  </component>
  <connection component_1="main" component_2="side" id="con_id"><map_variables variable_1="p" variable_2="q" id="map_id"/></connection>
</model>)";

struct R
{
    bool ok = true;
    std::string got;
};
R expectFalse(bool b) { return {!b, b ? "returned true" : ""}; }
R expectNull(const void *p) { return {p == nullptr, p == nullptr ? "" : "returned a non-null object"}; }
R expectEmpty(const std::string &s) { return {s.empty(), s.empty() ? "" : "returned \"" + s + "\""}; }
R expectZero(double v) { return {v == 0.0, v == 0.0 ? "" : "returned " + std::to_string(v)}; }
R expectIssue(const LoggerPtr &l) { return {l->issueCount() > 0, l->issueCount() > 0 ? "" : "returned without recording an issue"}; }
R noCrash() { return {}; }
R both(R a, R b) { return a.ok ? b : a; }
R either(R a, R b) { return a.ok ? a : b; } // "false, null or an issue": any one of them is a refusal

struct Fx
{
    ModelPtr model, other, importing, lib;
    ComponentPtr main, child, oc;
    VariablePtr t, x, y, k, z, a, b;
    UnitsPtr mV, uu;
    ResetPtr reset;
    ImportSourcePtr imp;
    // never added to anything
    ModelPtr looseModel;
    ComponentPtr looseComp;
    VariablePtr looseVar;
    UnitsPtr looseUnits;
    ResetPtr looseReset;
    ImportSourcePtr looseImp;
    // owner destroyed
    ComponentPtr orphanComp;
    VariablePtr orphanVar;
    UnitsPtr orphanUnits;
    ResetPtr orphanReset;
    // services
    AnnotatorPtr annotator, orphanAnnotator;
    ImporterPtr importer;
    ValidatorPtr validator;
    PrinterPtr printer;
    AnalyserPtr analyser;
    AnalyserExternalVariablePtr ev, looseEv, nullEv;
    AnalyserModelPtr amodel;
    GeneratorPtr generator;

    ComponentPtr comp(int k) const { return k == NUL ? nullptr : k == NEVER ? looseComp : orphanComp; }
    VariablePtr var(int k) const { return k == NUL ? nullptr : k == NEVER ? looseVar : orphanVar; }
    UnitsPtr units(int k) const { return k == NUL ? nullptr : k == NEVER ? looseUnits : orphanUnits; }
    ResetPtr rst(int k) const { return k == NUL ? nullptr : k == NEVER ? looseReset : orphanReset; }
    ImportSourcePtr isrc(int k) const { return k == NUL ? nullptr : looseImp; }

    void build(bool withAnalysis)
    {
        auto parser = Parser::create();
        model = parser->parseModel(kMainModel);
        other = parser->parseModel(kOtherModel);
        importing = parser->parseModel(kImportingModel);
        lib = parser->parseModel(kOtherModel);
        main = model->component("main");
        child = model->component("child");
        t = main->variable("t");
        x = main->variable("x");
        y = main->variable("y");
        k = main->variable("k");
        z = child->variable("z");
        mV = model->units("mV");
        oc = other->component("oc");
        a = oc->variable("a");
        b = oc->variable("b");
        uu = other->units("uu");
        reset = oc->reset(0);
        imp = importing->component("ic")->importSource();

        looseModel = Model::create("loose_model");
        looseComp = Component::create("loose_component");
        looseComp->addVariable(Variable::create("lv_inside"));
        looseVar = Variable::create("loose_variable");
        looseVar->setUnits("dimensionless");
        looseUnits = Units::create("loose_units");
        looseUnits->addUnit("second");
        looseReset = Reset::create(7);
        looseImp = ImportSource::create();
        looseImp->setUrl("nowhere.cellml");
        {
            auto tmp = Model::create("temporary_owner");
            orphanComp = Component::create("orphan_component");
            orphanVar = Variable::create("orphan_variable");
            orphanVar->setUnits("dimensionless");
            orphanReset = Reset::create(9);
            orphanUnits = Units::create("orphan_units");
            orphanUnits->addUnit("metre");
            auto holder = Component::create("temporary_component");
            tmp->addComponent(orphanComp);
            tmp->addComponent(holder);
            holder->addVariable(orphanVar);
            holder->addReset(orphanReset);
            tmp->addUnits(orphanUnits);
        } // tmp and holder are destroyed here

        annotator = Annotator::create();
        annotator->setModel(model);
        orphanAnnotator = Annotator::create();
        {
            auto tmp = Parser::create()->parseModel(kOtherModel);
            orphanAnnotator->setModel(tmp);
        }
        importer = Importer::create();
        importer->addModel(lib, "lib.cellml");
        importer->resolveImports(importing, "/nonexistent-base-path/");
        validator = Validator::create();
        validator->validateModel(Model::create()); // a logger with one issue (model without a name)
        printer = Printer::create();
        analyser = Analyser::create();
        ev = AnalyserExternalVariable::create(k);
        ev->addDependency(x);
        analyser->addExternalVariable(ev);
        looseEv = AnalyserExternalVariable::create(looseVar);
        nullEv = AnalyserExternalVariable::create(nullptr);
        generator = Generator::create();
        if (withAnalysis) {
            analyser->analyseModel(model);
            amodel = analyser->model();
            generator->setModel(amodel);
        }
    }

    std::string snapshot() const
    {
        const int fl = DUMP_ORDERED | DUMP_RAW_MATH;
        std::string s;
        s += "== model\n" + dumpModel(model, fl);
        s += "== other\n" + dumpModel(other, fl);
        s += "== importing\n" + dumpModel(importing, fl | DUMP_NO_IMPORT_MODEL);
        s += "== lib\n" + dumpModel(lib, fl);
        s += "== loose\n" + dumpModel(looseModel, fl) + dumpComponent(looseComp, fl) + dumpVariable(looseVar, fl) + dumpUnits(looseUnits, fl) + dumpReset(looseReset, fl);
        s += "loose import source url=" + looseImp->url() + " id=" + looseImp->id() + "\n";
        s += "== orphans\n" + dumpComponent(orphanComp, fl) + dumpVariable(orphanVar, fl) + dumpUnits(orphanUnits, fl) + dumpReset(orphanReset, fl);
        s += "== parents\n";
        for (const ParentedEntityPtr &e : std::vector<ParentedEntityPtr> {main, child, oc, t, x, y, k, z, a, b, mV, uu, reset, looseComp, looseVar, looseUnits, looseReset, orphanComp, orphanVar, orphanUnits, orphanReset}) {
            s += e->hasParent() ? "P" : "-";
        }
        s += "\n== services\n";
        s += "analyser external variables " + std::to_string(analyser->externalVariableCount()) + " ev dependencies " + std::to_string(ev->dependencyCount()) + "/" + std::to_string(looseEv->dependencyCount()) + "/"
             + std::to_string(nullEv->dependencyCount()) + "\n";
        s += "importer library " + std::to_string(importer->libraryCount()) + " import sources " + std::to_string(importer->importSourceCount()) + "\n";
        s += std::string("import source model ") + (imp->hasModel() ? "attached" : "none") + "\n";
        if (amodel != nullptr) {
            s += "analyser model type " + AnalyserModel::typeAsString(amodel->type()) + " states " + std::to_string(amodel->stateCount()) + " variables " + std::to_string(amodel->variableCount()) + " equations "
                 + std::to_string(amodel->equationCount()) + "\n";
        }
        return s;
    }
};

struct Row
{
    std::string key; // entry point (bin/c09_entrypoints.py key)
    std::string variant; // which argument / receiver state ("" = the only pointer argument)
    int classes; // applicable argument classes (mask)
    bool analysis; // needs the analysed model
    std::function<R(Fx &, int)> fn;
    bool mayChange = false; // a short history whose earlier (legal) calls change the state: only the clean return and the result are judged
};

std::vector<Row> gRows;
void row(const std::string &key, int classes, std::function<R(Fx &, int)> fn, const std::string &variant = "", bool analysis = false)
{
    gRows.push_back({key, variant, classes, analysis, std::move(fn)});
}
// a row that is a short history: legal calls that put an entity outside its model / empty a service, then the call under test
void story(const std::string &key, int classes, std::function<R(Fx &, int)> fn, const std::string &variant, bool analysis = false)
{
    gRows.push_back({key, variant, classes, analysis, std::move(fn), true});
}

const size_t BIG = static_cast<size_t>(-1);

void buildTable()
{
    const int PTR3 = NUL | NEVER | ORPHAN;
    // ------------------------------------------------------------------ ComponentEntity (on a model and on a component)
    for (int onComp = 0; onComp < 2; ++onComp) {
        std::string v = onComp ? "on-component" : "";
        auto rc = [onComp](Fx &f) -> ComponentEntityPtr { return onComp ? std::static_pointer_cast<ComponentEntity>(f.main) : std::static_pointer_cast<ComponentEntity>(f.model); };
        row("ComponentEntity::addComponent(Component)", NUL, [rc](Fx &f, int) { return expectFalse(rc(f)->addComponent(nullptr)); }, v);
        row("ComponentEntity::removeComponent(index)", PASTEND, [rc](Fx &f, int) { return expectFalse(rc(f)->removeComponent(rc(f)->componentCount())); }, v);
        row("ComponentEntity::removeComponent(str)", UNKNOWN, [rc](Fx &f, int) { return both(expectFalse(rc(f)->removeComponent("no_such_name")), expectFalse(rc(f)->removeComponent("no_such_name", false))); }, v);
        row("ComponentEntity::removeComponent(Component)", PTR3, [rc](Fx &f, int k) { return both(expectFalse(rc(f)->removeComponent(f.comp(k))), expectFalse(rc(f)->removeComponent(f.comp(k), false))); }, v);
        row("ComponentEntity::containsComponent(str)", UNKNOWN, [rc](Fx &f, int) { return expectFalse(rc(f)->containsComponent("no_such_name")); }, v);
        row("ComponentEntity::containsComponent(Component)", PTR3, [rc](Fx &f, int k) { return expectFalse(rc(f)->containsComponent(f.comp(k))); }, v);
        row("ComponentEntity::component(index)", PASTEND, [rc](Fx &f, int) { return both(expectNull(rc(f)->component(rc(f)->componentCount()).get()), expectNull(rc(f)->component(BIG).get())); }, v);
        row("ComponentEntity::component(str)", UNKNOWN, [rc](Fx &f, int) { return expectNull(rc(f)->component("no_such_name").get()); }, v);
        row("ComponentEntity::takeComponent(index)", PASTEND, [rc](Fx &f, int) { return expectNull(rc(f)->takeComponent(rc(f)->componentCount()).get()); }, v);
        row("ComponentEntity::takeComponent(str)", UNKNOWN, [rc](Fx &f, int) { return expectNull(rc(f)->takeComponent("no_such_name").get()); }, v);
        row("ComponentEntity::replaceComponent(index,Component)", PASTEND, [rc](Fx &f, int) { return expectFalse(rc(f)->replaceComponent(rc(f)->componentCount(), f.looseComp)); }, v);
        row("ComponentEntity::replaceComponent(index,Component)", NUL, [rc](Fx &f, int) { return expectFalse(rc(f)->replaceComponent(0, nullptr)); }, onComp ? "on-component,new" : "new");
        row("ComponentEntity::replaceComponent(str,Component)", UNKNOWN, [rc](Fx &f, int) { return expectFalse(rc(f)->replaceComponent("no_such_name", f.looseComp)); }, v);
        row("ComponentEntity::replaceComponent(str,Component)", NUL, [rc, onComp](Fx &f, int) { return expectFalse(rc(f)->replaceComponent(onComp ? "child" : "main", nullptr)); }, onComp ? "on-component,new" : "new");
        row("ComponentEntity::replaceComponent(Component,Component)", PTR3, [rc](Fx &f, int k) { return expectFalse(rc(f)->replaceComponent(f.comp(k), f.looseComp)); }, onComp ? "on-component,old" : "old");
        row("ComponentEntity::replaceComponent(Component,Component)", NUL, [rc, onComp](Fx &f, int) { return expectFalse(rc(f)->replaceComponent(onComp ? f.child : f.main, nullptr)); }, onComp ? "on-component,new" : "new");
    }
    // ------------------------------------------------------------------ Component
    row("Component::addVariable(Variable)", NUL, [](Fx &f, int) { return expectFalse(f.main->addVariable(nullptr)); });
    row("Component::removeVariable(index)", PASTEND, [](Fx &f, int) { return expectFalse(f.main->removeVariable(f.main->variableCount())); });
    row("Component::removeVariable(str)", UNKNOWN, [](Fx &f, int) { return expectFalse(f.main->removeVariable("no_such_name")); });
    row("Component::removeVariable(Variable)", PTR3, [](Fx &f, int k) { return expectFalse(f.main->removeVariable(f.var(k))); });
    row("Component::variable(index)", PASTEND, [](Fx &f, int) { return both(expectNull(f.main->variable(f.main->variableCount()).get()), expectNull(f.main->variable(BIG).get())); });
    row("Component::variable(str)", UNKNOWN, [](Fx &f, int) { return expectNull(f.main->variable("no_such_name").get()); });
    row("Component::takeVariable(index)", PASTEND, [](Fx &f, int) { return expectNull(f.main->takeVariable(f.main->variableCount()).get()); });
    row("Component::takeVariable(str)", UNKNOWN, [](Fx &f, int) { return expectNull(f.main->takeVariable("no_such_name").get()); });
    row("Component::hasVariable(Variable)", PTR3, [](Fx &f, int k) { return expectFalse(f.main->hasVariable(f.var(k))); });
    row("Component::hasVariable(str)", UNKNOWN, [](Fx &f, int) { return expectFalse(f.main->hasVariable("no_such_name")); });
    row("Component::addReset(Reset)", NUL, [](Fx &f, int) { return expectFalse(f.oc->addReset(nullptr)); });
    row("Component::takeReset(index)", PASTEND, [](Fx &f, int) { return expectNull(f.oc->takeReset(f.oc->resetCount()).get()); });
    row("Component::removeReset(index)", PASTEND, [](Fx &f, int) { return expectFalse(f.oc->removeReset(f.oc->resetCount())); });
    row("Component::removeReset(Reset)", PTR3, [](Fx &f, int k) { return expectFalse(f.oc->removeReset(f.rst(k))); });
    row("Component::reset(index)", PASTEND, [](Fx &f, int) { return expectNull(f.oc->reset(f.oc->resetCount()).get()); });
    row("Component::hasReset(Reset)", PTR3, [](Fx &f, int k) { return expectFalse(f.oc->hasReset(f.rst(k))); });
    row("Component::setSourceComponent(ImportSource,str)", NUL, [](Fx &f, int) {
        ImportSourcePtr none;
        f.looseComp->setSourceComponent(none, "");
        return expectFalse(f.looseComp->isImport());
    });
    // zero-argument queries on a component outside any model (receiver is the bad entity)
    row("Component::isDefined()", NEVER | ORPHAN, [](Fx &f, int k) { return (void)f.comp(k)->isDefined(), noCrash(); }, "receiver");
    row("Component::isResolved()", NEVER | ORPHAN, [](Fx &f, int k) { return (void)f.comp(k)->isResolved(), noCrash(); }, "receiver");
    row("Component::requiresImports()", NEVER | ORPHAN, [](Fx &f, int k) { return expectFalse(f.comp(k)->requiresImports()); }, "receiver");
    row("Component::clone()", NEVER | ORPHAN, [](Fx &f, int k) { return (void)f.comp(k)->clone(), noCrash(); }, "receiver");
    // ------------------------------------------------------------------ Model
    row("Model::addUnits(Units)", NUL, [](Fx &f, int) { return expectFalse(f.model->addUnits(nullptr)); });
    row("Model::removeUnits(index)", PASTEND, [](Fx &f, int) { return expectFalse(f.model->removeUnits(f.model->unitsCount())); });
    row("Model::removeUnits(str)", UNKNOWN, [](Fx &f, int) { return expectFalse(f.model->removeUnits("no_such_name")); });
    row("Model::removeUnits(Units)", PTR3, [](Fx &f, int k) { return expectFalse(f.model->removeUnits(f.units(k))); });
    row("Model::hasUnits(str)", UNKNOWN, [](Fx &f, int) { return expectFalse(f.model->hasUnits("no_such_name")); });
    row("Model::hasUnits(Units)", PTR3, [](Fx &f, int k) { return expectFalse(f.model->hasUnits(f.units(k))); });
    row("Model::units(index)", PASTEND, [](Fx &f, int) { return both(expectNull(f.model->units(f.model->unitsCount()).get()), expectNull(f.model->units(BIG).get())); });
    row("Model::units(str)", UNKNOWN, [](Fx &f, int) { return expectNull(f.model->units("no_such_name").get()); });
    row("Model::takeUnits(index)", PASTEND, [](Fx &f, int) { return expectNull(f.model->takeUnits(f.model->unitsCount()).get()); });
    row("Model::takeUnits(str)", UNKNOWN, [](Fx &f, int) { return expectNull(f.model->takeUnits("no_such_name").get()); });
    row("Model::replaceUnits(index,Units)", PASTEND, [](Fx &f, int) { return expectFalse(f.model->replaceUnits(f.model->unitsCount(), f.looseUnits)); });
    row("Model::replaceUnits(index,Units)", NUL, [](Fx &f, int) { return expectFalse(f.model->replaceUnits(0, nullptr)); }, "new");
    row("Model::replaceUnits(str,Units)", UNKNOWN, [](Fx &f, int) { return expectFalse(f.model->replaceUnits("no_such_name", f.looseUnits)); });
    row("Model::replaceUnits(str,Units)", NUL, [](Fx &f, int) { return expectFalse(f.model->replaceUnits("mV", nullptr)); }, "new");
    row("Model::replaceUnits(Units,Units)", PTR3, [](Fx &f, int k) { return expectFalse(f.model->replaceUnits(f.units(k), f.looseUnits)); }, "old");
    row("Model::replaceUnits(Units,Units)", NUL, [](Fx &f, int) { return expectFalse(f.model->replaceUnits(f.mV, nullptr)); }, "new");
    // ------------------------------------------------------------------ Entity / ParentedEntity
    row("Entity::equals(Entity)", NUL, [](Fx &f, int) {
        bool any = f.model->equals(nullptr) || f.main->equals(nullptr) || f.x->equals(nullptr) || f.mV->equals(nullptr) || f.reset->equals(nullptr) || f.imp->equals(nullptr);
        return expectFalse(any);
    });
    row("ParentedEntity::hasAncestor(ParentedEntity)", PTR3, [](Fx &f, int k) { return expectFalse(f.child->hasAncestor(f.comp(k)) || f.x->hasAncestor(f.comp(k)) || f.looseComp->hasAncestor(k == NEVER ? ParentedEntityPtr(f.looseVar) : ParentedEntityPtr(f.comp(k)))); });
    // ------------------------------------------------------------------ Variable
    row("Variable::addEquivalence(Variable,Variable)", NUL, [](Fx &f, int) { return expectFalse(Variable::addEquivalence(nullptr, f.x)); }, "first");
    row("Variable::addEquivalence(Variable,Variable)", NUL, [](Fx &f, int) { return expectFalse(Variable::addEquivalence(f.x, nullptr)); }, "second");
    row("Variable::addEquivalence(Variable,Variable,str,str)", NUL, [](Fx &f, int) { return expectFalse(Variable::addEquivalence(nullptr, f.x, "mid", "cid")); }, "first");
    row("Variable::addEquivalence(Variable,Variable,str,str)", NUL, [](Fx &f, int) { return expectFalse(Variable::addEquivalence(f.x, nullptr, "mid", "cid")); }, "second");
    row("Variable::setEquivalenceMappingId(Variable,Variable,str)", NUL | NEVER, [](Fx &f, int k) { return Variable::setEquivalenceMappingId(f.y, f.var(k), "new_id"), Variable::setEquivalenceMappingId(f.var(k), f.y, "new_id"), noCrash(); });
    row("Variable::setEquivalenceConnectionId(Variable,Variable,str)", NUL | NEVER, [](Fx &f, int k) { return Variable::setEquivalenceConnectionId(f.y, f.var(k), "new_id"), Variable::setEquivalenceConnectionId(f.var(k), f.y, "new_id"), noCrash(); });
    row("Variable::equivalenceMappingId(Variable,Variable)", PTR3, [](Fx &f, int k) { return both(expectEmpty(Variable::equivalenceMappingId(f.y, f.var(k))), expectEmpty(Variable::equivalenceMappingId(f.var(k), f.y))); });
    row("Variable::equivalenceConnectionId(Variable,Variable)", PTR3, [](Fx &f, int k) { return both(expectEmpty(Variable::equivalenceConnectionId(f.y, f.var(k))), expectEmpty(Variable::equivalenceConnectionId(f.var(k), f.y))); });
    row("Variable::removeEquivalenceConnectionId(Variable,Variable)", NUL | NEVER, [](Fx &f, int k) { return Variable::removeEquivalenceConnectionId(f.y, f.var(k)), Variable::removeEquivalenceConnectionId(f.var(k), f.y), noCrash(); });
    row("Variable::removeEquivalenceMappingId(Variable,Variable)", NUL | NEVER, [](Fx &f, int k) { return Variable::removeEquivalenceMappingId(f.y, f.var(k)), Variable::removeEquivalenceMappingId(f.var(k), f.y), noCrash(); });
    row("Variable::removeEquivalence(Variable,Variable)", PTR3, [](Fx &f, int k) { return both(expectFalse(Variable::removeEquivalence(f.y, f.var(k))), expectFalse(Variable::removeEquivalence(f.var(k), f.y))); });
    row("Variable::equivalentVariable(index)", PASTEND, [](Fx &f, int) { return both(expectNull(f.y->equivalentVariable(f.y->equivalentVariableCount()).get()), expectNull(f.x->equivalentVariable(0).get())); });
    row("Variable::hasEquivalentVariable(Variable)", PTR3, [](Fx &f, int k) { return both(expectFalse(f.y->hasEquivalentVariable(f.var(k))), expectFalse(f.y->hasEquivalentVariable(f.var(k), true))); });
    row("Variable::setUnits(Units)", NUL, [](Fx &f, int) {
        auto v = Variable::create("scratch");
        v->setUnits(UnitsPtr());
        return expectNull(v->units().get());
    });
    row("Variable::setInitialValue(Variable)", NUL, [](Fx &f, int) { return f.x->setInitialValue(VariablePtr()), noCrash(); });
    // a variable whose equivalent partner's owner is destroyed / the partner itself is destroyed
    row("Variable::equivalentVariable(index)", ORPHAN, [](Fx &f, int) {
        {
            auto gone = Variable::create("gone");
            Variable::addEquivalence(f.looseVar, gone);
        }
        size_t n = f.looseVar->equivalentVariableCount();
        Variable::removeEquivalence(f.looseVar, nullptr);
        return both(expectZero(static_cast<double>(n)), expectNull(f.looseVar->equivalentVariable(0).get()));
    }, "partner-destroyed");
    // ------------------------------------------------------------------ Reset
    row("Reset::setVariable(Variable)", NUL, [](Fx &f, int) { return f.looseReset->setVariable(nullptr), expectNull(f.looseReset->variable().get()); });
    row("Reset::setTestVariable(Variable)", NUL, [](Fx &f, int) { return f.looseReset->setTestVariable(nullptr), expectNull(f.looseReset->testVariable().get()); });
    // ------------------------------------------------------------------ Units
    row("Units::unitAttributes(index,str,str,str)", PASTEND, [](Fx &f, int) {
        std::string ref = "?", pre = "?", id = "?";
        double e = 0, m = 0;
        f.mV->unitAttributes(f.mV->unitCount(), ref, pre, e, m, id);
        return noCrash();
    });
    row("Units::unitAttributeReference(index)", PASTEND, [](Fx &f, int) { return expectEmpty(f.mV->unitAttributeReference(f.mV->unitCount())); });
    row("Units::setUnitAttributeReference(index,str)", PASTEND, [](Fx &f, int) { return f.mV->setUnitAttributeReference(f.mV->unitCount(), "second"), noCrash(); });
    row("Units::unitAttributePrefix(index)", PASTEND, [](Fx &f, int) { return expectEmpty(f.mV->unitAttributePrefix(f.mV->unitCount())); });
    row("Units::unitAttributeExponent(index)", PASTEND, [](Fx &f, int) { return (void)f.mV->unitAttributeExponent(f.mV->unitCount()), noCrash(); });
    row("Units::unitAttributeMultiplier(index)", PASTEND, [](Fx &f, int) { return (void)f.mV->unitAttributeMultiplier(f.mV->unitCount()), noCrash(); });
    row("Units::unitAttributes(str,str,str)", UNKNOWN, [](Fx &f, int) {
        std::string pre = "?", id = "?";
        double e = 0, m = 0;
        f.mV->unitAttributes("no_such_reference", pre, e, m, id);
        return noCrash();
    });
    row("Units::removeUnit(index)", PASTEND, [](Fx &f, int) { return expectFalse(f.mV->removeUnit(f.mV->unitCount())); });
    row("Units::removeUnit(str)", UNKNOWN, [](Fx &f, int) { return expectFalse(f.mV->removeUnit("no_such_reference")); });
    row("Units::setSourceUnits(ImportSource,str)", NUL, [](Fx &f, int) {
        ImportSourcePtr none;
        f.looseUnits->setSourceUnits(none, "");
        return expectFalse(f.looseUnits->isImport());
    });
    row("Units::scalingFactor(Units,Units)", PTR3, [](Fx &f, int k) {
        if (k == NUL) {
            return both(expectZero(Units::scalingFactor(nullptr, f.mV)), expectZero(Units::scalingFactor(f.mV, nullptr)));
        }
        return (void)Units::scalingFactor(f.units(k), f.mV), (void)Units::scalingFactor(f.mV, f.units(k)), noCrash();
    });
    row("Units::compatible(Units,Units)", PTR3, [](Fx &f, int k) { return both(expectFalse(Units::compatible(f.units(k), f.mV)), expectFalse(Units::compatible(f.mV, f.units(k)))); });
    row("Units::equivalent(Units,Units)", PTR3, [](Fx &f, int k) { return both(expectFalse(Units::equivalent(f.units(k), f.mV)), expectFalse(Units::equivalent(f.mV, f.units(k)))); });
    row("Units::setUnitId(index,str)", PASTEND, [](Fx &f, int) { return expectFalse(f.mV->setUnitId(f.mV->unitCount(), "x")); });
    row("Units::unitId(index)", PASTEND, [](Fx &f, int) { return expectEmpty(f.mV->unitId(f.mV->unitCount())); });
    row("Units::isDefined()", NEVER | ORPHAN, [](Fx &f, int k) { return (void)f.units(k)->isDefined(), (void)f.units(k)->isBaseUnit(), (void)f.units(k)->requiresImports(), noCrash(); }, "receiver");
    // ------------------------------------------------------------------ ImportedEntity / ImportSource
    row("ImportedEntity::setImportSource(ImportSource)", NUL, [](Fx &f, int) { return f.looseComp->setImportSource(nullptr), f.looseUnits->setImportSource(nullptr), expectFalse(f.looseComp->isImport() || f.looseUnits->isImport()); });
    row("ImportSource::setModel(Model)", NUL, [](Fx &f, int) { return f.looseImp->setModel(nullptr), expectFalse(f.looseImp->hasModel()); });
    // ------------------------------------------------------------------ Logger
    row("Logger::issue(index)", PASTEND, [](Fx &f, int) { return both(expectNull(f.validator->issue(f.validator->issueCount()).get()), expectNull(f.printer->issue(0).get())); });
    row("Logger::error(index)", PASTEND, [](Fx &f, int) { return both(expectNull(f.validator->error(f.validator->errorCount()).get()), expectNull(f.printer->error(0).get())); });
    row("Logger::warning(index)", PASTEND, [](Fx &f, int) { return both(expectNull(f.validator->warning(f.validator->warningCount()).get()), expectNull(f.printer->warning(0).get())); });
    row("Logger::message(index)", PASTEND, [](Fx &f, int) { return both(expectNull(f.validator->message(f.validator->messageCount()).get()), expectNull(f.printer->message(0).get())); });
    // ------------------------------------------------------------------ Printer / Validator
    row("Printer::printModel(Model)", NUL, [](Fx &f, int) { return both(expectEmpty(f.printer->printModel(nullptr)), expectEmpty(f.printer->printModel(nullptr, true))); });
    row("Validator::validateModel(Model)", NUL, [](Fx &f, int) { return f.validator->validateModel(nullptr), expectIssue(f.validator); });
    // ------------------------------------------------------------------ Importer
    row("Importer::flattenModel(Model)", NUL, [](Fx &f, int) { return either(expectNull(f.importer->flattenModel(nullptr).get()), expectIssue(f.importer)); });
    row("Importer::resolveImports(Model,str)", NUL, [](Fx &f, int) {
        ModelPtr none;
        return either(expectFalse(f.importer->resolveImports(none, "/nonexistent-base-path/")), expectIssue(f.importer));
    });
    row("Importer::library(str)", UNKNOWN, [](Fx &f, int) { return expectNull(f.importer->library("no_such_key").get()); });
    row("Importer::library(index)", PASTEND, [](Fx &f, int) { return expectNull(f.importer->library(f.importer->libraryCount()).get()); });
    row("Importer::key(index)", PASTEND, [](Fx &f, int) { return expectEmpty(f.importer->key(f.importer->libraryCount())); });
    row("Importer::addModel(Model,str)", NUL, [](Fx &f, int) { return expectFalse(f.importer->addModel(nullptr, "new_key")); });
    row("Importer::replaceModel(Model,str)", NUL, [](Fx &f, int) { return expectFalse(f.importer->replaceModel(nullptr, "lib.cellml")); });
    row("Importer::replaceModel(Model,str)", UNKNOWN, [](Fx &f, int) { return expectFalse(f.importer->replaceModel(f.other, "no_such_key")); });
    row("Importer::clearImports(Model)", NUL, [](Fx &f, int) {
        ModelPtr none;
        return f.importer->clearImports(none), noCrash();
    });
    row("Importer::addImportSource(ImportSource)", NUL, [](Fx &f, int) { return expectFalse(f.importer->addImportSource(nullptr)); });
    row("Importer::importSource(index)", PASTEND, [](Fx &f, int) { return expectNull(f.importer->importSource(f.importer->importSourceCount()).get()); });
    row("Importer::removeImportSource(index)", PASTEND, [](Fx &f, int) { return expectFalse(f.importer->removeImportSource(f.importer->importSourceCount())); });
    row("Importer::removeImportSource(ImportSource)", NUL | NEVER, [](Fx &f, int k) { return expectFalse(f.importer->removeImportSource(f.isrc(k))); });
    row("Importer::hasImportSource(ImportSource)", NUL | NEVER, [](Fx &f, int k) { return expectFalse(f.importer->hasImportSource(f.isrc(k))); });
    // ------------------------------------------------------------------ Annotator
    row("Annotator::setModel(Model)", NUL, [](Fx &f, int) {
        auto an = Annotator::create();
        an->setModel(nullptr);
        return both(expectFalse(an->hasModel()), either(expectFalse(an->assignAllIds()), expectIssue(an)));
    });
    struct Lookup
    {
        const char *name;
        const char *goodId;
        std::function<const void *(AnnotatorPtr &, const std::string &)> one;
        std::function<const void *(AnnotatorPtr &, const std::string &, size_t)> two;
    };
    // for item(): an "empty" element is what the documentation promises
    auto itemPtr = [](const AnyCellmlElementPtr &e) -> const void * { return (e == nullptr || e->type() == CellmlElementType::UNDEFINED) ? nullptr : e.get(); };
    std::vector<Lookup> lookups = {
        {"item", "main_id", [itemPtr](AnnotatorPtr &a, const std::string &i) { return itemPtr(a->item(i)); }, [itemPtr](AnnotatorPtr &a, const std::string &i, size_t n) { return itemPtr(a->item(i, n)); }},
        {"component", "main_id", [](AnnotatorPtr &a, const std::string &i) -> const void * { return a->component(i).get(); }, [](AnnotatorPtr &a, const std::string &i, size_t n) -> const void * { return a->component(i, n).get(); }},
        {"componentEncapsulation", "cref_id", [](AnnotatorPtr &a, const std::string &i) -> const void * { return a->componentEncapsulation(i).get(); },
         [](AnnotatorPtr &a, const std::string &i, size_t n) -> const void * { return a->componentEncapsulation(i, n).get(); }},
        {"encapsulation", "encapsulation_id", [](AnnotatorPtr &a, const std::string &i) -> const void * { return a->encapsulation(i).get(); }, [](AnnotatorPtr &a, const std::string &i, size_t n) -> const void * { return a->encapsulation(i, n).get(); }},
        {"variable", "x_id", [](AnnotatorPtr &a, const std::string &i) -> const void * { return a->variable(i).get(); }, [](AnnotatorPtr &a, const std::string &i, size_t n) -> const void * { return a->variable(i, n).get(); }},
        {"reset", "x_id", [](AnnotatorPtr &a, const std::string &i) -> const void * { return a->reset(i).get(); }, [](AnnotatorPtr &a, const std::string &i, size_t n) -> const void * { return a->reset(i, n).get(); }},
        {"model", "model_id", [](AnnotatorPtr &a, const std::string &i) -> const void * { return a->model(i).get(); }, [](AnnotatorPtr &a, const std::string &i, size_t n) -> const void * { return a->model(i, n).get(); }},
        {"importSource", "x_id", [](AnnotatorPtr &a, const std::string &i) -> const void * { return a->importSource(i).get(); }, [](AnnotatorPtr &a, const std::string &i, size_t n) -> const void * { return a->importSource(i, n).get(); }},
        {"units", "units_id", [](AnnotatorPtr &a, const std::string &i) -> const void * { return a->units(i).get(); }, [](AnnotatorPtr &a, const std::string &i, size_t n) -> const void * { return a->units(i, n).get(); }},
        {"mapVariables", "map_id", [](AnnotatorPtr &a, const std::string &i) -> const void * { return a->mapVariables(i).get(); }, [](AnnotatorPtr &a, const std::string &i, size_t n) -> const void * { return a->mapVariables(i, n).get(); }},
        {"connection", "connection_id", [](AnnotatorPtr &a, const std::string &i) -> const void * { return a->connection(i).get(); }, [](AnnotatorPtr &a, const std::string &i, size_t n) -> const void * { return a->connection(i, n).get(); }},
        {"unitsItem", "unit_id", [](AnnotatorPtr &a, const std::string &i) -> const void * { return a->unitsItem(i).get(); }, [](AnnotatorPtr &a, const std::string &i, size_t n) -> const void * { return a->unitsItem(i, n).get(); }},
        {"testValue", "x_id", [](AnnotatorPtr &a, const std::string &i) -> const void * { return a->testValue(i).get(); }, [](AnnotatorPtr &a, const std::string &i, size_t n) -> const void * { return a->testValue(i, n).get(); }},
        {"resetValue", "x_id", [](AnnotatorPtr &a, const std::string &i) -> const void * { return a->resetValue(i).get(); }, [](AnnotatorPtr &a, const std::string &i, size_t n) -> const void * { return a->resetValue(i, n).get(); }},
    };
    for (const Lookup &l : lookups) {
        std::string nm = l.name;
        row("Annotator::" + nm + "(str)", UNKNOWN, [l](Fx &f, int) { return either(expectNull(l.one(f.annotator, "no_such_id")), expectIssue(f.annotator)); });
        row("Annotator::" + nm + "(str)", ORPHAN, [l](Fx &f, int) { return expectNull(l.one(f.orphanAnnotator, "oc_id")); }, "model-destroyed");
        row("Annotator::" + nm + "(str,index)", UNKNOWN, [l](Fx &f, int) { return either(expectNull(l.two(f.annotator, "no_such_id", 0)), expectIssue(f.annotator)); });
        row("Annotator::" + nm + "(str,index)", PASTEND, [l](Fx &f, int) { return expectNull(l.two(f.annotator, l.goodId, f.annotator->itemCount(l.goodId))); });
    }
    row("Annotator::assignAllIds(Model)", NUL, [](Fx &f, int) {
        ModelPtr none;
        return either(expectFalse(f.annotator->assignAllIds(none)), expectIssue(f.annotator));
    });
    row("Annotator::clearAllIds(Model)", NUL, [](Fx &f, int) {
        ModelPtr none;
        return f.annotator->clearAllIds(none), noCrash();
    });
    row("Annotator::isUnique(str)", UNKNOWN, [](Fx &f, int) { return expectFalse(f.annotator->isUnique("no_such_id")); });
    row("Annotator::items(str)", UNKNOWN, [](Fx &f, int) { return expectZero(static_cast<double>(f.annotator->items("no_such_id").size())); });
    row("Annotator::itemCount(str)", UNKNOWN, [](Fx &f, int) { return expectZero(static_cast<double>(f.annotator->itemCount("no_such_id"))); });
    row("Annotator::assignId(AnyCellmlElement)", NUL, [](Fx &f, int) { return expectEmpty(f.annotator->assignId(AnyCellmlElementPtr())); });
    row("Annotator::assignId(AnyCellmlElement)", UNKNOWN, [](Fx &f, int) { return expectEmpty(f.annotator->assignId(f.annotator->item("no_such_id"))); }, "empty-item");
    row("Annotator::assignId(Model)", NUL | NEVER, [](Fx &f, int k) { return expectEmpty(f.annotator->assignId(k == NUL ? ModelPtr() : f.other)); });
    row("Annotator::assignId(Component)", PTR3, [](Fx &f, int k) { return both(expectEmpty(f.annotator->assignId(f.comp(k))), expectEmpty(f.annotator->assignId(f.comp(k), CellmlElementType::COMPONENT_REF))); });
    // (an import source has no owner: the suite pins that one outside the annotator's model still gets an identifier, so only null is a bad argument)
    row("Annotator::assignId(ImportSource)", NUL, [](Fx &f, int k) { return expectEmpty(f.annotator->assignId(f.isrc(k))); });
    row("Annotator::assignId(Reset)", PTR3, [](Fx &f, int k) { return both(expectEmpty(f.annotator->assignId(f.rst(k))), expectEmpty(f.annotator->assignId(f.rst(k), CellmlElementType::TEST_VALUE))); });
    row("Annotator::assignId(Units)", PTR3, [](Fx &f, int k) { return expectEmpty(f.annotator->assignId(f.units(k))); });
    row("Annotator::assignId(UnitsItem)", NUL | NEVER, [](Fx &f, int k) { return expectEmpty(f.annotator->assignId(k == NUL ? UnitsItemPtr() : UnitsItem::create(f.looseUnits, 0))); });
    row("Annotator::assignId(UnitsItem)", NUL, [](Fx &f, int) { return expectEmpty(f.annotator->assignId(UnitsItem::create(nullptr, 0))); }, "item-with-null-units");
    row("Annotator::assignId(Variable)", PTR3, [](Fx &f, int k) { return expectEmpty(f.annotator->assignId(f.var(k))); });
    row("Annotator::assignId(VariablePair)", NUL | NEVER, [](Fx &f, int k) { return expectEmpty(f.annotator->assignId(k == NUL ? VariablePairPtr() : VariablePair::create(f.looseVar, f.orphanVar))); });
    row("Annotator::assignId(VariablePair)", NUL, [](Fx &f, int) { return expectEmpty(f.annotator->assignId(VariablePair::create(f.y, nullptr))); }, "pair-with-null-variable");
    row("Annotator::assignId(Variable,Variable)", PTR3, [](Fx &f, int k) { return both(expectEmpty(f.annotator->assignId(f.y, f.var(k))), expectEmpty(f.annotator->assignId(f.var(k), f.y, CellmlElementType::CONNECTION))); });
    row("Annotator::assignId(Units,index)", PTR3, [](Fx &f, int k) { return expectEmpty(f.annotator->assignId(f.units(k), 0)); });
    row("Annotator::assignId(Units,index)", PASTEND, [](Fx &f, int) { return expectEmpty(f.annotator->assignId(f.mV, f.mV->unitCount())); });
    // the annotator's model has been destroyed
    row("Annotator::ids()", ORPHAN, [](Fx &f, int) { return (void)f.orphanAnnotator->ids(), (void)f.orphanAnnotator->duplicateIds(), noCrash(); }, "model-destroyed");
    row("Annotator::assignAllIds()", ORPHAN, [](Fx &f, int) { return expectFalse(f.orphanAnnotator->assignAllIds()); }, "model-destroyed");
    row("Annotator::assignIds(type)", ORPHAN, [](Fx &f, int) { return expectFalse(f.orphanAnnotator->assignIds(CellmlElementType::VARIABLE)); }, "model-destroyed");
    row("Annotator::clearAllIds()", ORPHAN, [](Fx &f, int) { return f.orphanAnnotator->clearAllIds(), noCrash(); }, "model-destroyed");
    row("Annotator::itemCount(str)", ORPHAN, [](Fx &f, int) { return expectZero(static_cast<double>(f.orphanAnnotator->itemCount("oc_id"))); }, "model-destroyed");
    row("Annotator::assignId(Variable)", ORPHAN, [](Fx &f, int) { return expectEmpty(f.orphanAnnotator->assignId(f.x)); }, "model-destroyed");
    // ------------------------------------------------------------------ Analyser
    row("Analyser::analyseModel(Model)", NUL, [](Fx &f, int) { return f.analyser->analyseModel(nullptr), expectIssue(f.analyser); });
    row("Analyser::addExternalVariable(AnalyserExternalVariable)", NUL, [](Fx &f, int) { return expectFalse(f.analyser->addExternalVariable(nullptr)); });
    row("Analyser::removeExternalVariable(index)", PASTEND, [](Fx &f, int) { return expectFalse(f.analyser->removeExternalVariable(f.analyser->externalVariableCount())); });
    row("Analyser::removeExternalVariable(Model,str,str)", NUL | UNKNOWN, [](Fx &f, int k) { return expectFalse(k == NUL ? f.analyser->removeExternalVariable(nullptr, "main", "k") : f.analyser->removeExternalVariable(f.model, "main", "no_such_name")); });
    row("Analyser::removeExternalVariable(AnalyserExternalVariable)", NUL | NEVER, [](Fx &f, int k) { return expectFalse(f.analyser->removeExternalVariable(k == NUL ? nullptr : f.looseEv)); });
    row("Analyser::containsExternalVariable(Model,str,str)", NUL | UNKNOWN, [](Fx &f, int k) { return expectFalse(k == NUL ? f.analyser->containsExternalVariable(nullptr, "main", "k") : f.analyser->containsExternalVariable(f.model, "no_such_name", "k")); });
    row("Analyser::containsExternalVariable(AnalyserExternalVariable)", NUL | NEVER, [](Fx &f, int k) { return expectFalse(f.analyser->containsExternalVariable(k == NUL ? nullptr : f.looseEv)); });
    row("Analyser::externalVariable(index)", PASTEND, [](Fx &f, int) { return expectNull(f.analyser->externalVariable(f.analyser->externalVariableCount()).get()); });
    row("Analyser::externalVariable(Model,str,str)", NUL | UNKNOWN, [](Fx &f, int k) { return expectNull((k == NUL ? f.analyser->externalVariable(nullptr, "main", "k") : f.analyser->externalVariable(f.model, "main", "no_such_name")).get()); });
    // an external variable on a variable that is in no model / whose model is gone / that is null has been registered
    for (int k : {NUL, NEVER, ORPHAN}) {
        auto make = [k](Fx &f) {
            auto a = Analyser::create();
            a->addExternalVariable(AnalyserExternalVariable::create(f.var(k)));
            return a;
        };
        std::string v = "registered-external-variable";
        row("Analyser::containsExternalVariable(Model,str,str)", k, [make](Fx &f, int) { return expectFalse(make(f)->containsExternalVariable(f.model, "main", "k")); }, v);
        row("Analyser::externalVariable(Model,str,str)", k, [make](Fx &f, int) { return expectNull(make(f)->externalVariable(f.model, "main", "k").get()); }, v);
        row("Analyser::removeExternalVariable(Model,str,str)", k, [make](Fx &f, int) { return expectFalse(make(f)->removeExternalVariable(f.model, "main", "k")); }, v);
        row("Analyser::analyseModel(Model)", k, [make, k](Fx &f, int) {
            auto a = make(f);
            a->analyseModel(f.model);
            // an external variable on a foreign variable is reported; one without any variable can only be ignored
            return k == NUL ? noCrash() : expectIssue(a);
        }, v, true);
    }
    // ------------------------------------------------------------------ AnalyserExternalVariable
    row("AnalyserExternalVariable::addDependency(Variable)", PTR3, [](Fx &f, int k) { return expectFalse(f.ev->addDependency(f.var(k))); });
    row("AnalyserExternalVariable::addDependency(Variable)", NUL | NEVER, [](Fx &f, int k) { return expectFalse((k == NUL ? f.nullEv : f.looseEv)->addDependency(f.x)); }, "receiver-variable");
    row("AnalyserExternalVariable::removeDependency(index)", PASTEND, [](Fx &f, int) { return expectFalse(f.ev->removeDependency(f.ev->dependencyCount())); });
    row("AnalyserExternalVariable::removeDependency(Model,str,str)", NUL | UNKNOWN, [](Fx &f, int k) { return expectFalse(k == NUL ? f.ev->removeDependency(nullptr, "main", "x") : f.ev->removeDependency(f.model, "main", "no_such_name")); });
    row("AnalyserExternalVariable::removeDependency(Variable)", PTR3, [](Fx &f, int k) { return expectFalse(f.ev->removeDependency(f.var(k))); });
    row("AnalyserExternalVariable::containsDependency(Model,str,str)", NUL | UNKNOWN, [](Fx &f, int k) { return expectFalse(k == NUL ? f.ev->containsDependency(nullptr, "main", "x") : f.ev->containsDependency(f.model, "no_such_name", "x")); });
    row("AnalyserExternalVariable::containsDependency(Variable)", PTR3, [](Fx &f, int k) { return expectFalse(f.ev->containsDependency(f.var(k))); });
    row("AnalyserExternalVariable::dependency(index)", PASTEND, [](Fx &f, int) { return expectNull(f.ev->dependency(f.ev->dependencyCount()).get()); });
    row("AnalyserExternalVariable::dependency(Model,str,str)", NUL | UNKNOWN, [](Fx &f, int k) { return expectNull((k == NUL ? f.ev->dependency(nullptr, "main", "x") : f.ev->dependency(f.model, "main", "no_such_name")).get()); });
    // ------------------------------------------------------------------ AnalyserModel and friends
    row("AnalyserModel::state(index)", PASTEND, [](Fx &f, int) { return expectNull(f.amodel->state(f.amodel->stateCount()).get()); }, "", true);
    row("AnalyserModel::variable(index)", PASTEND, [](Fx &f, int) { return expectNull(f.amodel->variable(f.amodel->variableCount()).get()); }, "", true);
    row("AnalyserModel::equation(index)", PASTEND, [](Fx &f, int) { return expectNull(f.amodel->equation(f.amodel->equationCount()).get()); }, "", true);
    row("AnalyserModel::areEquivalentVariables(Variable,Variable)", PTR3, [](Fx &f, int k) { return expectFalse(f.amodel->areEquivalentVariables(f.var(k), f.y)); }, "first", true);
    row("AnalyserModel::areEquivalentVariables(Variable,Variable)", PTR3, [](Fx &f, int k) { return expectFalse(f.amodel->areEquivalentVariables(f.y, f.var(k))); }, "second", true);
    row("AnalyserModel::areEquivalentVariables(Variable,Variable)", NUL, [](Fx &f, int) { return (void)f.amodel->areEquivalentVariables(nullptr, nullptr), noCrash(); }, "both", true);
    row("AnalyserModel::state(index)", PASTEND, [](Fx &f, int) {
        auto a = Analyser::create();
        auto m = a->model(); // never analysed
        return both(expectNull(m->state(0).get()), both(expectNull(m->variable(0).get()), both(expectNull(m->equation(0).get()), expectNull(m->voi().get()))));
    }, "unanalysed-model");
    row("AnalyserEquation::dependency(index)", PASTEND, [](Fx &f, int) { auto e = f.amodel->equation(0); return expectNull(e->dependency(e->dependencyCount()).get()); }, "", true);
    row("AnalyserEquation::nlaSibling(index)", PASTEND, [](Fx &f, int) { auto e = f.amodel->equation(0); return expectNull(e->nlaSibling(e->nlaSiblingCount()).get()); }, "", true);
    row("AnalyserEquation::variable(index)", PASTEND, [](Fx &f, int) { auto e = f.amodel->equation(0); return expectNull(e->variable(e->variableCount()).get()); }, "", true);
    row("AnalyserVariable::equation(index)", PASTEND, [](Fx &f, int) { auto v = f.amodel->variable(0); return expectNull(v->equation(v->equationCount()).get()); }, "", true);
    row("AnalyserEquationAst::setVariable(Variable)", NUL, [](Fx &f, int) { auto a = AnalyserEquationAst::create(); return a->setVariable(nullptr), expectNull(a->variable().get()); });
    row("AnalyserEquationAst::setParent(AnalyserEquationAst)", NUL, [](Fx &f, int) { auto a = AnalyserEquationAst::create(); return a->setParent(nullptr), expectNull(a->parent().get()); });
    row("AnalyserEquationAst::setLeftChild(AnalyserEquationAst)", NUL, [](Fx &f, int) { auto a = AnalyserEquationAst::create(); return a->setLeftChild(nullptr), expectNull(a->leftChild().get()); });
    row("AnalyserEquationAst::setRightChild(AnalyserEquationAst)", NUL, [](Fx &f, int) { auto a = AnalyserEquationAst::create(); return a->setRightChild(nullptr), expectNull(a->rightChild().get()); });
    // ------------------------------------------------------------------ Generator
    row("Generator::setModel(AnalyserModel)", NUL, [](Fx &f, int) {
        auto g = Generator::create();
        g->setModel(nullptr);
        return both(expectEmpty(g->interfaceCode()), expectEmpty(g->implementationCode()));
    });
    row("Generator::setProfile(GeneratorProfile)", NUL, [](Fx &f, int) {
        auto g = Generator::create();
        g->setProfile(nullptr);
        return noCrash();
    });
    row("Generator::equationCode(AnalyserEquationAst)", NUL, [](Fx &f, int) { return expectEmpty(Generator::equationCode(nullptr)); });
    row("Generator::equationCode(AnalyserEquationAst,GeneratorProfile)", NUL, [](Fx &f, int) { return expectEmpty(Generator::equationCode(nullptr, GeneratorProfile::create())); }, "ast");
    row("Generator::equationCode(AnalyserEquationAst,GeneratorProfile)", NUL, [](Fx &f, int) { return (void)Generator::equationCode(f.amodel->equation(0)->ast(), nullptr), noCrash(); }, "profile", true);

    // ================================================================== short histories (appended: keep the order above)
    auto storyModel = []() { return Parser::create()->parseModel(kStoryModel); };
    // ---- an equivalence that leaves the model (remove / take / never added / other model), then clone, flatten, print, validate, analyse
    for (int how = 0; how < 4; ++how) {
        static const char *hows[] = {"partner-removed", "partner-component-taken", "partner-never-added", "partner-in-other-model"};
        auto prepare = [how, storyModel](Fx &f, VariablePtr &keep, ComponentPtr &keepC) {
            auto m = storyModel();
            auto p = m->component("main")->variable("p");
            switch (how) {
            case 0:
                keep = m->component("side")->variable("q");
                m->component("side")->removeVariable(keep);
                break;
            case 1:
                keepC = m->takeComponent("side");
                break;
            case 2:
                keep = Variable::create("never_added");
                Variable::removeEquivalence(p, m->component("side")->variable("q"));
                Variable::addEquivalence(p, keep);
                break;
            default:
                Variable::removeEquivalence(p, m->component("side")->variable("q"));
                Variable::addEquivalence(p, f.z); // f.z lives in f.model
                break;
            }
            return m;
        };
        std::string v = std::string("equivalence-leaves-model:") + hows[how];
        story("Model::clone()", ORPHAN, [prepare](Fx &f, int) {
            VariablePtr keep;
            ComponentPtr keepC;
            auto m = prepare(f, keep, keepC);
            auto c = m->clone();
            // the clone may only contain equivalences between its own variables that the original has as well
            auto cp = c->component("main")->variable("p");
            size_t internal = 0;
            for (size_t i = 0; i < cp->equivalentVariableCount(); ++i) {
                auto e = cp->equivalentVariable(i);
                auto ec = std::dynamic_pointer_cast<Component>(e->parent());
                if (ec != nullptr && ec->parent() == c) {
                    ++internal;
                }
            }
            return R {internal == 0, internal == 0 ? "" : "the clone has an equivalence between two of its own variables that the original does not have"};
        }, v);
        story("Importer::flattenModel(Model)", ORPHAN, [prepare](Fx &f, int) {
            VariablePtr keep;
            ComponentPtr keepC;
            auto m = prepare(f, keep, keepC);
            auto imp = Importer::create();
            return (void)imp->flattenModel(m), noCrash();
        }, v);
        story("Printer::printModel(Model)", ORPHAN, [prepare](Fx &f, int) {
            VariablePtr keep;
            ComponentPtr keepC;
            auto m = prepare(f, keep, keepC);
            (void)Printer::create()->printModel(m);
            (void)Printer::create()->printModel(m, true);
            return noCrash();
        }, v);
        story("Validator::validateModel(Model)", ORPHAN, [prepare](Fx &f, int) {
            VariablePtr keep;
            ComponentPtr keepC;
            auto m = prepare(f, keep, keepC);
            auto val = Validator::create();
            val->validateModel(m);
            return noCrash();
        }, v);
        story("Analyser::analyseModel(Model)", ORPHAN, [prepare](Fx &f, int) {
            VariablePtr keep;
            ComponentPtr keepC;
            auto m = prepare(f, keep, keepC);
            auto an = Analyser::create();
            an->analyseModel(m);
            auto ann = Annotator::create();
            ann->setModel(m);
            (void)ann->assignAllIds();
            return noCrash();
        }, v);
    }
    // ---- a dependency of an external variable leaves the model, then analyse
    for (int how = 0; how < 3; ++how) {
        static const char *hows[] = {"dependency-removed", "dependency-component-destroyed", "dependency-moved-to-other-model"};
        story("Analyser::analyseModel(Model)", ORPHAN, [how, storyModel](Fx &f, int) {
            auto m = storyModel();
            auto an = Analyser::create();
            VariablePtr dep;
            AnalyserExternalVariablePtr ev = AnalyserExternalVariable::create(m->component("main")->variable("ext"));
            if (how == 0) {
                dep = m->component("main")->variable("spare");
            } else {
                dep = m->component("side")->variable("e1");
            }
            if (!ev->addDependency(dep)) {
                return R {false, "could not set the history up: addDependency refused a variable of the same model"};
            }
            an->addExternalVariable(ev);
            if (how == 0) {
                m->component("main")->removeVariable(dep);
            } else if (how == 1) {
                Variable::removeEquivalence(m->component("main")->variable("p"), m->component("side")->variable("q"));
                m->removeComponent("side"); // destroyed: only the dependency survives, held by the external variable
            } else {
                Variable::removeEquivalence(m->component("main")->variable("p"), m->component("side")->variable("q"));
                f.other->addComponent(m->component("side"));
            }
            an->analyseModel(m);
            for (size_t i = 0; i < an->issueCount(); ++i) {
                (void)an->issue(i)->description();
            }
            // the variable that left must not have become part of the analysed model
            auto am = an->model();
            for (size_t i = 0; i < am->variableCount(); ++i) {
                if (am->variable(i)->variable() == dep) {
                    return R {false, "a variable that is not in the model became a variable of the analysed model"};
                }
            }
            return noCrash();
        }, hows[how]);
    }
    // ---- "no model" is not "the same model"
    row("AnalyserExternalVariable::addDependency(Variable)", NEVER, [](Fx &f, int) {
        auto a = Variable::create("a_never_added");
        auto b = Variable::create("b_never_added");
        auto ev1 = AnalyserExternalVariable::create(a);
        auto ev2 = AnalyserExternalVariable::create(f.looseComp->variable(0));
        auto sibling = Variable::create("sibling");
        bool r1 = ev1->addDependency(b);
        bool r2 = ev2->addDependency(sibling);
        return both(expectFalse(r1), expectFalse(r2));
    }, "external-variable-and-dependency-in-no-model");
    auto looseAnalyser = [](Fx &f) {
        auto a = Analyser::create();
        a->addExternalVariable(AnalyserExternalVariable::create(f.looseComp->variable(0))); // loose_component / lv_inside, in no model
        return a;
    };
    row("Analyser::containsExternalVariable(Model,str,str)", NUL, [looseAnalyser](Fx &f, int) { return expectFalse(looseAnalyser(f)->containsExternalVariable(nullptr, "loose_component", "lv_inside")); }, "null-model,registered-variable-in-no-model");
    row("Analyser::externalVariable(Model,str,str)", NUL, [looseAnalyser](Fx &f, int) { return expectNull(looseAnalyser(f)->externalVariable(nullptr, "loose_component", "lv_inside").get()); }, "null-model,registered-variable-in-no-model");
    row("Analyser::removeExternalVariable(Model,str,str)", NUL, [looseAnalyser](Fx &f, int) {
        auto a = looseAnalyser(f);
        bool r = a->removeExternalVariable(nullptr, "loose_component", "lv_inside");
        return both(expectFalse(r), R {a->externalVariableCount() == 1, "the external variable was removed"});
    }, "null-model,registered-variable-in-no-model");
    auto looseDependency = [storyModel](ComponentPtr &side) {
        auto m = storyModel();
        side = m->component("side");
        auto ev = AnalyserExternalVariable::create(side->variable("e1"));
        ev->addDependency(side->variable("e2"));
        Variable::removeEquivalence(m->component("main")->variable("p"), side->variable("q"));
        m->removeComponent(side); // the component (held by the caller) and both variables are in no model now
        return ev;
    };
    story("AnalyserExternalVariable::containsDependency(Model,str,str)", NUL, [looseDependency](Fx &f, int) {
        ComponentPtr side;
        return expectFalse(looseDependency(side)->containsDependency(nullptr, "side", "e2"));
    }, "null-model,dependency-in-no-model");
    story("AnalyserExternalVariable::dependency(Model,str,str)", NUL, [looseDependency](Fx &f, int) {
        ComponentPtr side;
        return expectNull(looseDependency(side)->dependency(nullptr, "side", "e2").get());
    }, "null-model,dependency-in-no-model");
    story("AnalyserExternalVariable::removeDependency(Model,str,str)", NUL, [looseDependency](Fx &f, int) {
        ComponentPtr side;
        auto ev = looseDependency(side);
        bool r = ev->removeDependency(nullptr, "side", "e2");
        return both(expectFalse(r), R {ev->dependencyCount() == 1, "the dependency was removed"});
    }, "null-model,dependency-in-no-model");
    // ---- an emptied library entry, then resolve
    story("Importer::resolveImports(Model,str)", NUL, [](Fx &f, int) {
        f.importer->replaceModel(nullptr, "lib.cellml"); // accepted (pinned by ModelFlattening.resolveFlattenMissingModel)
        auto m = Parser::create()->parseModel(kImportingModel);
        bool r = f.importer->resolveImports(m, "/nonexistent-base-path/");
        return either(expectFalse(r), expectIssue(f.importer));
    }, "library-entry-replaced-by-null");
    // ---- the analyser model's equivalence cache and variables that come and go
    row("AnalyserModel::areEquivalentVariables(Variable,Variable)", ORPHAN, [](Fx &f, int) {
        std::vector<std::pair<uintptr_t, uintptr_t>> old;
        {
            std::vector<VariablePtr> keep;
            for (int i = 0; i < 128; ++i) {
                auto a = Variable::create("short_lived_a");
                auto b = Variable::create("short_lived_b");
                Variable::addEquivalence(a, b);
                if (!f.amodel->areEquivalentVariables(a, b)) {
                    return R {false, "two equivalent variables are reported as not equivalent"};
                }
                old.emplace_back(reinterpret_cast<uintptr_t>(a.get()), reinterpret_cast<uintptr_t>(b.get()));
                keep.push_back(a);
                keep.push_back(b);
            }
        } // all destroyed
        // push the freed blocks through the sanitizer's quarantine so that their addresses are handed out again
        for (int i = 0; i < 1600; ++i) {
            std::vector<char> *block = new std::vector<char>(64 * 1024, static_cast<char>(i));
            delete block;
        }
        std::map<uintptr_t, VariablePtr> fresh;
        for (int i = 0; i < 6000; ++i) {
            auto v = Variable::create("unrelated");
            fresh[reinterpret_cast<uintptr_t>(v.get())] = v;
        }
        size_t reused = 0;
        for (const auto &o : old) {
            auto c = fresh.find(o.first);
            auto d = fresh.find(o.second);
            if (c != fresh.end() && d != fresh.end()) {
                ++reused;
                if (f.amodel->areEquivalentVariables(c->second, d->second)) {
                    return R {false, "two unrelated variables that were never made equivalent are reported as equivalent (answer cached for destroyed variables at the same addresses)"};
                }
            }
        }
        std::string note = "VP-ARGS-NOTE address pairs reused: " + std::to_string(reused) + "\n";
        ssize_t w = write(2, note.data(), note.size());
        (void)w;
        return noCrash();
    }, "answers-for-destroyed-variables", true);
    // ---- identifiers of equivalences after removeAllEquivalences()
    story("Variable::removeAllEquivalences()", ORPHAN, [storyModel](Fx &f, int) {
        auto m = storyModel();
        auto p = m->component("main")->variable("p");
        auto q = m->component("side")->variable("q");
        p->removeAllEquivalences();
        Variable::addEquivalence(p, q); // a new equivalence, without identifiers
        return both(both(expectEmpty(Variable::equivalenceMappingId(p, q)), expectEmpty(Variable::equivalenceMappingId(q, p))),
                    both(expectEmpty(Variable::equivalenceConnectionId(p, q)), expectEmpty(Variable::equivalenceConnectionId(q, p))));
    }, "then-equivalence-added-again");
}

struct CaseRef
{
    size_t row;
    int cls;
};
std::vector<CaseRef> gCases;
std::vector<std::string> gCandidates; // support/C09_entrypoints.txt

void init()
{
    buildTable();
    for (size_t i = 0; i < gRows.size(); ++i) {
        for (int k : {NUL, NEVER, ORPHAN, PASTEND, UNKNOWN}) {
            if (gRows[i].classes & k) {
                gCases.push_back({i, k});
            }
        }
    }
    if (getenv("C09_ARGS_LIST") != nullptr) { // debugging aid: tape value -> case
        for (size_t i = 0; i < gCases.size(); ++i) {
            fprintf(stderr, "%zu %s|%s%s%s\n", i, gRows[gCases[i].row].key.c_str(), className(gCases[i].cls), gRows[gCases[i].row].variant.empty() ? "" : "@", gRows[gCases[i].row].variant.c_str());
        }
    }
    const char *home = getenv("VERIF_HOME");
    std::ifstream in(std::string(home != nullptr ? home : ".") + "/support/C09_entrypoints.txt");
    std::string line;
    while (std::getline(in, line)) {
        if (!line.empty() && line[0] != '#') {
            gCandidates.push_back(line);
        }
    }
}

struct Job
{
    Fx *fx;
    const Row *row;
    int cls;
    std::string before;
};

void child(void *arg)
{
    Job *j = static_cast<Job *>(arg);
    R r = j->row->fn(*j->fx, j->cls);
    std::string after = j->fx->snapshot();
    if (!j->row->mayChange && after != j->before) {
        std::string d = "VP-ARGS changed|" + firstDiff(j->before, after) + "\n";
        ssize_t w = write(2, d.data(), d.size());
        (void)w;
        _exit(4);
    }
    if (!r.ok) {
        std::string d = "VP-ARGS ret|" + r.got + "\n";
        ssize_t w = write(2, d.data(), d.size());
        (void)w;
        _exit(3);
    }
}

std::string crashKind(const std::string &diag)
{
    size_t p = diag.find("ERROR: AddressSanitizer: ");
    if (p != std::string::npos) {
        size_t e = diag.find_first_of(" \n", p + 25);
        return "asan:" + diag.substr(p + 25, e - p - 25);
    }
    p = diag.find("runtime error: ");
    if (p != std::string::npos) {
        size_t e = diag.find('\n', p);
        return "ubsan: " + diag.substr(p + 15, e - p - 15);
    }
    if (diag.find("terminate called") != std::string::npos) {
        return "uncaught exception";
    }
    return "crash";
}

std::string innermostFrame(const std::string &diag)
{
    size_t p = diag.find(" in libcellml::");
    if (p == std::string::npos) {
        return "";
    }
    size_t e = diag.find_first_of("\n", p);
    return diag.substr(p + 4, e - p - 4);
}

void run(Src &src, Case &c)
{
    // one choice with a fixed radix, so that saved tapes keep their meaning when rows are appended to the table
    const size_t slot = src.below(1024);
    if (slot >= gCases.size()) {
        c.text = "unused table slot";
        c.count("unused_slots");
        return;
    }
    const CaseRef &cr = gCases[slot];
    const Row &rw = gRows[cr.row];
    std::string cls = className(cr.cls) + (rw.variant.empty() ? std::string() : "@" + rw.variant);
    std::string where = rw.key + "|" + cls;
    c.text = rw.key + " with " + cls;
    c.hash = hashStr(where);
    c.nontrivial = true;
    c.weight = 1;
    c.cls(std::string("class:") + className(cr.cls));
    c.cls("on:" + rw.key.substr(0, rw.key.find("::")));
    c.count("covered:" + rw.key);

    Fx fx;
    fx.build(rw.analysis);
    Job job {&fx, &rw, cr.cls, fx.snapshot()};
    std::string diag;
    int rc = runIsolated(child, &job, 60, &diag);
    if (rc == 0) {
        c.text += "  -> refused, nothing changed";
        return;
    }
    size_t p = diag.find("VP-ARGS ");
    if (rc == 3 && p != std::string::npos) {
        std::string d = diag.substr(p + 8 + 4, diag.find('\n', p) - p - 12);
        c.text += "  -> " + d;
        c.fail("C09.args-ret|" + where, rw.key + " given " + cls + " " + d + " (expected false / null / empty / an issue)");
        return;
    }
    if (rc == 4 && p != std::string::npos) {
        std::string d = diag.substr(p + 8 + 8);
        c.text += "  -> state changed";
        c.fail("C09.args-changed|" + where, rw.key + " given " + cls + " changed the state in scope: " + d.substr(0, 1500));
        return;
    }
    if (rc == 1000 + 14) {
        c.text += "  -> hang";
        c.fail("C09.hang|" + where, rw.key + " given " + cls + " did not return within 60 s");
        return;
    }
    std::string kind = crashKind(diag);
    c.text += "  -> " + kind;
    c.fail("C09.crash|" + where, rw.key + " given " + cls + ": " + kind + " in " + innermostFrame(diag) + " (child status " + std::to_string(rc) + ")\n" + diag.substr(0, 3000));
}

void extraEvidence(std::ostream &o)
{
    std::set<std::string> covered;
    for (const Row &r : gRows) {
        covered.insert(r.key);
    }
    std::string missing, extra;
    size_t n = 0;
    for (const std::string &k : gCandidates) {
        if (covered.count(k)) {
            ++n;
        } else {
            missing += (missing.empty() ? "" : ", ") + k;
        }
    }
    std::set<std::string> cand(gCandidates.begin(), gCandidates.end());
    for (const std::string &k : covered) {
        if (!cand.count(k)) {
            extra += (extra.empty() ? "" : ", ") + k;
        }
    }
    o << ",\"x_entry_points\":\"" << jsonEscape("covered " + std::to_string(n) + " of " + std::to_string(gCandidates.size()) + " candidate entry points (bin/c09_entrypoints.py), " + std::to_string(gRows.size()) + " table rows, "
                                               + std::to_string(gCases.size()) + " (entry point, argument class) cases; not covered: " + (missing.empty() ? "none" : missing) + "; additional receiver-state rows: " + (extra.empty() ? "none" : extra))
      << "\"";
}

} // namespace

namespace vp {
Property property = {
    "C09",
    "exploration",
    "Bad-argument table: every public method taking an entity pointer, an index or a name (list generated from the public headers) x {null, never added to a model, owner destroyed, one past the end, unknown name}, "
    "each call in a forked child; must return false/null/empty/an issue without crash, sanitizer report or hang and leave the dump of every model, loose entity and service in scope unchanged. "
    "Every (entry point, argument class) pair is a distinct non-trivial case; ex mode enumerates the table exactly once.",
    run,
    nullptr,
    {"null is a documented 'unset' value for Reset::setVariable/setTestVariable, Variable::setUnits, ImportedEntity::setImportSource, ImportSource::setModel and the AnalyserEquationAst setters: those rows only require a clean return",
     "structurally distinct loose/orphan entities are used so that the allowed 'matched to an equal child' outcome cannot occur"},
    init,
    extraEvidence,
};
}

// C19 — model repair helpers establish what they promise: Model::fixVariableInterfaces(), Model::linkUnits(), Model::clean().
// One harness, three sub-properties chosen by the first tape value (classes helper=fixVariableInterfaces|linkUnits|clean).
// Every expectation is recomputed from pure data kept by the harness (component tree / units situations / edited spec),
// never from library helpers.
#include <libcellml>

#include <libxml/parser.h>

#include <algorithm>
#include <functional>

#include "gen.h"
#include "prop.h"
#include "spec.h"

using namespace vp;
using namespace libcellml;

namespace {

// =====================================================================================================================
// (a) fixVariableInterfaces
// =====================================================================================================================

enum Root
{
    ROOT_MODEL = 0, // the model under repair
    ROOT_OTHER = 1, // a second model
    ROOT_LOOSE = 2, // a component that is in no model
};

struct FComp
{
    int root = ROOT_MODEL;
    int parent = -1; // index into comps (same root), -1 = top level of its root
    std::string name;
};

struct FVar
{
    int comp = -1; // -1 = parentless variable
    std::string name;
    bool ifaceSet = false;
    std::string iface;
};

struct FEq
{
    int a = 0, b = 0; // variable indices, in the argument order given to addEquivalence
};

enum Rel
{
    REL_SIBLING,
    REL_IN_PARENT, // the other variable lives in the parent component  -> public
    REL_IN_CHILD, //  the other variable lives in a child component     -> private
    REL_PARENTLESS,
    REL_UNREACHABLE,
    REL_SAME_COMPONENT,
};

struct FixCase
{
    std::vector<FComp> comps;
    std::vector<FVar> vars;
    std::vector<FEq> eqs;

    int depth(int c) const
    {
        int d = 0;
        while (comps[static_cast<size_t>(c)].parent >= 0) {
            c = comps[static_cast<size_t>(c)].parent;
            ++d;
        }
        return d;
    }
    bool inTree(int v) const
    {
        int c = vars[static_cast<size_t>(v)].comp;
        return c >= 0 && comps[static_cast<size_t>(c)].root == ROOT_MODEL;
    }
    // Relation of the component of `other` as seen from the component of `self` (definition of CellML 2.0 / the statement).
    Rel rel(int self, int other) const
    {
        int c = vars[static_cast<size_t>(self)].comp;
        int d = vars[static_cast<size_t>(other)].comp;
        if (c < 0 || d < 0) {
            return REL_PARENTLESS;
        }
        if (c == d) {
            return REL_SAME_COMPONENT;
        }
        const FComp &cc = comps[static_cast<size_t>(c)];
        const FComp &dd = comps[static_cast<size_t>(d)];
        if (cc.root != dd.root) {
            return REL_UNREACHABLE;
        }
        if (cc.parent == d) {
            return REL_IN_PARENT;
        }
        if (dd.parent == c) {
            return REL_IN_CHILD;
        }
        if (cc.parent == dd.parent && cc.root != ROOT_LOOSE) {
            return REL_SIBLING;
        }
        return REL_UNREACHABLE;
    }
    // A finer name for an unreachable pair (class labels / localisation only).
    std::string badKind(int self, int other) const
    {
        int c = vars[static_cast<size_t>(self)].comp;
        int d = vars[static_cast<size_t>(other)].comp;
        if (c < 0 || d < 0) {
            return "parentless-variable";
        }
        const FComp &cc = comps[static_cast<size_t>(c)];
        const FComp &dd = comps[static_cast<size_t>(d)];
        if (cc.root != dd.root) {
            return (cc.root == ROOT_LOOSE || dd.root == ROOT_LOOSE) ? "loose-component" : "other-model";
        }
        auto isAncestor = [&](int anc, int x) {
            while (x >= 0) {
                x = comps[static_cast<size_t>(x)].parent;
                if (x == anc) {
                    return true;
                }
            }
            return false;
        };
        if (isAncestor(c, d) || isAncestor(d, c)) {
            return "grandparent";
        }
        if (depth(c) == depth(d)) {
            return "cousin";
        }
        return "uncle";
    }
};

const std::vector<std::string> &garbageInterfaces()
{
    static const std::vector<std::string> g = {"Public", "both", "public ", "public_or_private", "xpublicx", "PRIVATE", "public_and_private_", "publicprivate"};
    return g;
}

std::string fixText(const FixCase &f)
{
    std::ostringstream o;
    o << "helper fixVariableInterfaces\n";
    for (size_t i = 0; i < f.comps.size(); ++i) {
        const FComp &c = f.comps[i];
        o << "component " << c.name << " root=" << (c.root == ROOT_MODEL ? "model" : c.root == ROOT_OTHER ? "other-model" : "no-model") << " parent="
          << (c.parent < 0 ? std::string("<top>") : f.comps[static_cast<size_t>(c.parent)].name) << " vars:";
        for (size_t v = 0; v < f.vars.size(); ++v) {
            if (f.vars[v].comp == static_cast<int>(i)) {
                o << " " << f.vars[v].name << "[" << (f.vars[v].ifaceSet ? "'" + f.vars[v].iface + "'" : std::string("absent")) << "]";
            }
        }
        o << "\n";
    }
    for (const auto &v : f.vars) {
        if (v.comp < 0) {
            o << "parentless variable " << v.name << "[" << (v.ifaceSet ? "'" + v.iface + "'" : std::string("absent")) << "]\n";
        }
    }
    for (const auto &e : f.eqs) {
        o << "addEquivalence(" << f.vars[static_cast<size_t>(e.a)].name << ", " << f.vars[static_cast<size_t>(e.b)].name << ")\n";
    }
    return o.str();
}

bool permits(const std::string &iface, bool needPublic, bool needPrivate)
{
    if (iface == "public_and_private") {
        return true;
    }
    if (needPublic && needPrivate) {
        return false;
    }
    if (needPublic) {
        return iface == "public";
    }
    if (needPrivate) {
        return iface == "private";
    }
    return true;
}

void runFix(Src &src, Case &c)
{
    FixCase f;
    // ---- plan (start of the tape)
    const size_t nComps = 2 + src.below(5); // 2..6 components in the model
    const bool allowBad = src.flip(55);
    const size_t nEq = 1 + src.below(8);
    const bool withOther = allowBad && src.flip(40);
    const bool withLoose = allowBad && src.flip(30);
    const bool withParentless = allowBad && src.flip(35);
    const bool saturate = src.flip(25); // first give one or two variables a public and a private need, then add the rest
    for (size_t i = 0; i < nComps; ++i) {
        FComp fc;
        fc.name = "c" + std::to_string(i);
        if (i > 0) {
            int p = static_cast<int>(src.below(i + 1)) - 1;
            if (p >= 0 && f.depth(p) >= 3) {
                p = f.comps[static_cast<size_t>(p)].parent; // depth <= 4 levels
            }
            fc.parent = p;
        }
        f.comps.push_back(fc);
    }
    // model shapes that matter are rare under uniform parents: sometimes force a chain
    if (nComps >= 3 && src.flip(25)) {
        for (size_t i = 1; i < std::min<size_t>(nComps, 4); ++i) {
            f.comps[i].parent = static_cast<int>(i) - 1;
        }
    }
    if (withOther) {
        FComp o1;
        o1.root = ROOT_OTHER;
        o1.name = "o0";
        f.comps.push_back(o1);
        FComp o2 = o1;
        o2.name = "o1";
        o2.parent = static_cast<int>(f.comps.size()) - 1;
        f.comps.push_back(o2);
    }
    if (withLoose) {
        FComp l;
        l.root = ROOT_LOOSE;
        l.name = "loose";
        f.comps.push_back(l);
    }
    for (size_t i = 0; i < f.comps.size(); ++i) {
        size_t n = 1 + (f.comps[i].root == ROOT_MODEL ? src.below(2) : 0);
        for (size_t k = 0; k < n; ++k) {
            FVar v;
            v.comp = static_cast<int>(i);
            v.name = "v" + std::to_string(f.vars.size());
            f.vars.push_back(v);
        }
    }
    if (withParentless) {
        FVar v;
        v.name = "v" + std::to_string(f.vars.size()) + "_parentless";
        f.vars.push_back(v);
    }
    std::vector<int> treeVars;
    for (size_t v = 0; v < f.vars.size(); ++v) {
        if (f.inTree(static_cast<int>(v))) {
            treeVars.push_back(static_cast<int>(v));
        }
    }
    // ---- equivalences, chosen by relation kind so that every kind is frequent
    std::set<std::pair<int, int>> have;
    int last = -1;
    auto addEq = [&](int a, int b) {
        have.insert({std::min(a, b), std::max(a, b)});
        FEq e;
        if (src.flip(50)) {
            e.a = b;
            e.b = a;
        } else {
            e.a = a;
            e.b = b;
        }
        f.eqs.push_back(e);
    };
    if (saturate) {
        int s1 = src.pick(treeVars);
        std::vector<int> far;
        for (int v : treeVars) {
            if (v != s1 && f.rel(s1, v) == REL_UNREACHABLE) {
                far.push_back(v);
            }
        }
        int s2 = allowBad && !far.empty() ? src.pick(far) : src.pick(treeVars);
        for (int sv : {s1, s2}) {
            for (int want = 0; want < 2; ++want) {
                std::vector<int> cand;
                for (size_t v = 0; v < f.vars.size(); ++v) {
                    int vi = static_cast<int>(v);
                    Rel r = vi == sv ? REL_SAME_COMPONENT : f.rel(sv, vi);
                    bool fits = want == 0 ? (r == REL_SIBLING || r == REL_IN_PARENT) : r == REL_IN_CHILD;
                    if (fits && have.count({std::min(sv, vi), std::max(sv, vi)}) == 0) {
                        cand.push_back(vi);
                    }
                }
                if (!cand.empty()) {
                    addEq(sv, src.pick(cand));
                }
            }
        }
        if (allowBad && s1 != s2 && f.rel(s1, s2) == REL_UNREACHABLE && have.count({std::min(s1, s2), std::max(s1, s2)}) == 0 && src.flip(60)) {
            addEq(s1, s2);
        }
        last = s1;
    }
    for (size_t k = 0; k < nEq; ++k) {
        int a = (last >= 0 && src.flip(45)) ? last : src.pick(treeVars);
        last = a;
        unsigned kind = static_cast<unsigned>(src.below(10));
        std::vector<int> cand;
        auto collect = [&](const std::function<bool(int)> &pred) {
            for (size_t v = 0; v < f.vars.size(); ++v) {
                int vi = static_cast<int>(v);
                if (vi != a && f.vars[v].comp != f.vars[static_cast<size_t>(a)].comp && have.count({std::min(a, vi), std::max(a, vi)}) == 0 && pred(vi)) {
                    cand.push_back(vi);
                }
            }
        };
        if (kind <= 2) {
            collect([&](int v) { return f.rel(a, v) == REL_SIBLING; });
        } else if (kind <= 4) {
            collect([&](int v) { return f.rel(a, v) == REL_IN_CHILD; });
        } else if (kind <= 6) {
            collect([&](int v) { return f.rel(a, v) == REL_IN_PARENT; });
        } else if (kind == 7 && allowBad) {
            collect([&](int v) { Rel r = f.rel(a, v); return r == REL_UNREACHABLE || r == REL_PARENTLESS; });
        }
        if (cand.empty()) {
            collect([&](int v) { Rel r = f.rel(a, v); return allowBad ? true : (r == REL_SIBLING || r == REL_IN_CHILD || r == REL_IN_PARENT); });
        }
        if (cand.empty()) {
            continue;
        }
        addEq(a, src.pick(cand));
    }
    // ---- requirement per variable, from the definition
    const size_t nv = f.vars.size();
    std::vector<std::vector<int>> eqList(nv); // equivalent variables in the order the library stores them
    for (const auto &e : f.eqs) {
        eqList[static_cast<size_t>(e.a)].push_back(e.b);
        eqList[static_cast<size_t>(e.b)].push_back(e.a);
    }
    std::vector<bool> needPub(nv, false), needPriv(nv, false), allReachable(nv, true);
    bool expectedReturn = true;
    std::set<std::string> badKinds;
    bool allBadHidden = true; // localisation: every bad equivalence sits behind equivalences that already need public and private
    for (size_t v = 0; v < nv; ++v) {
        bool pub = false, priv = false;
        for (int w : eqList[v]) {
            Rel r = f.rel(static_cast<int>(v), w);
            if (r == REL_SIBLING || r == REL_IN_PARENT) {
                needPub[v] = true;
            } else if (r == REL_IN_CHILD) {
                needPriv[v] = true;
            } else {
                allReachable[v] = false;
                if (f.inTree(static_cast<int>(v))) {
                    expectedReturn = false;
                    badKinds.insert(f.badKind(static_cast<int>(v), w));
                    if (!(pub && priv)) {
                        allBadHidden = false;
                    }
                }
            }
            pub = pub || r == REL_SIBLING || r == REL_IN_PARENT;
            priv = priv || r == REL_IN_CHILD;
        }
    }
    // ---- interface strings (after the equivalences are known so that "already sufficient" is frequent)
    bool anyInsufficient = false, crossParentChild = false;
    for (size_t v = 0; v < nv; ++v) {
        FVar &fv = f.vars[v];
        std::string required = needPub[v] && needPriv[v] ? "public_and_private" : needPub[v] ? "public" : needPriv[v] ? "private" : "none";
        unsigned k = static_cast<unsigned>(src.below(10));
        if (k == 0) {
            fv.ifaceSet = false; // absent
        } else if (k <= 2) {
            fv.ifaceSet = required != "none";
            fv.iface = required; // exactly sufficient
        } else if (k == 3) {
            fv.ifaceSet = true;
            fv.iface = src.pick(garbageInterfaces());
        } else {
            static const std::vector<std::string> legal = {"none", "public", "private", "public_and_private"};
            fv.ifaceSet = true;
            fv.iface = src.pick(legal);
        }
        if (!f.inTree(static_cast<int>(v)) || eqList[v].empty()) {
            continue;
        }
        const std::string before = fv.ifaceSet ? fv.iface : "";
        bool garbage = fv.ifaceSet && std::find(garbageInterfaces().begin(), garbageInterfaces().end(), fv.iface) != garbageInterfaces().end();
        if (garbage) {
            c.cls("iface:garbage");
            anyInsufficient = true;
        } else if (!fv.ifaceSet) {
            c.cls("iface:absent");
            anyInsufficient = anyInsufficient || required != "none";
        } else if (!permits(before, needPub[v], needPriv[v])) {
            c.cls("iface:insufficient");
            anyInsufficient = true;
        } else if (before == required) {
            c.cls("iface:exactly-sufficient");
        } else {
            c.cls("iface:excessive");
        }
        crossParentChild = crossParentChild || needPriv[v];
    }
    for (const auto &e : f.eqs) {
        Rel r = f.rel(e.a, e.b);
        c.cls(r == REL_SIBLING ? (f.comps[static_cast<size_t>(f.vars[static_cast<size_t>(e.a)].comp)].parent < 0 ? "eq:top-level-siblings" : "eq:siblings") :
              r == REL_IN_PARENT || r == REL_IN_CHILD ? "eq:parent-child" :
                                                        "eq:bad:" + f.badKind(e.a, e.b));
    }
    c.cls("helper=fixVariableInterfaces");
    c.cls(expectedReturn ? "fix:expect-true" : "fix:expect-false");
    if (!expectedReturn && allBadHidden) {
        bool inModelOnly = true;
        for (const auto &k : badKinds) {
            inModelOnly = inModelOnly && (k == "cousin" || k == "uncle" || k == "grandparent");
        }
        c.cls(inModelOnly ? "fix:every-bad-equivalence-behind-public+private(both ends in the model)" : "fix:every-bad-equivalence-behind-public+private");
    }
    c.text = fixText(f);
    c.hash = hashStr(c.text);
    c.weight = c.text.size();
    c.nontrivial = crossParentChild && anyInsufficient;

    // ---- build through the API
    ModelPtr model = Model::create("m");
    ModelPtr other = Model::create("other");
    std::vector<ComponentPtr> comps;
    for (const auto &fc : f.comps) {
        comps.push_back(Component::create(fc.name));
    }
    for (size_t i = 0; i < f.comps.size(); ++i) {
        const FComp &fc = f.comps[i];
        if (fc.parent >= 0) {
            comps[static_cast<size_t>(fc.parent)]->addComponent(comps[i]);
        } else if (fc.root == ROOT_MODEL) {
            model->addComponent(comps[i]);
        } else if (fc.root == ROOT_OTHER) {
            other->addComponent(comps[i]);
        }
    }
    std::vector<VariablePtr> vars;
    for (const auto &fv : f.vars) {
        auto v = Variable::create(fv.name);
        v->setUnits("second");
        if (fv.ifaceSet) {
            v->setInterfaceType(fv.iface);
        }
        if (fv.comp >= 0) {
            comps[static_cast<size_t>(fv.comp)]->addVariable(v);
        }
        vars.push_back(v);
    }
    for (const auto &e : f.eqs) {
        bool added = Variable::addEquivalence(vars[static_cast<size_t>(e.a)], vars[static_cast<size_t>(e.b)]);
        VP_CHECK(c, added, "C19.harness|addEquivalence-refused", "addEquivalence returned false for a fresh pair");
    }
    for (size_t v = 0; v < nv; ++v) {
        VP_CHECK(c, vars[v]->equivalentVariableCount() == eqList[v].size(), "C19.harness|equivalence-count", f.vars[v].name);
    }
    std::vector<std::string> before;
    for (const auto &v : vars) {
        before.push_back(v->interfaceType());
    }
    const std::string dumpBefore = dumpModel(model) + dumpModel(other);

    // ---- the call
    const bool ret = model->fixVariableInterfaces();
    c.cls(ret ? "fix:returned-true" : "fix:returned-false");

    // 1. return value
    if (ret != expectedReturn) {
        std::string kinds;
        for (const auto &k : badKinds) {
            kinds += (kinds.empty() ? "" : "+") + k;
        }
        if (expectedReturn) {
            c.fail("C19.fix.return|expected-true-got-false", "every equivalence joins siblings or parent and child, but fixVariableInterfaces() returned false");
        } else {
            c.fail(std::string("C19.fix.return|expected-false-got-true|") + (allBadHidden ? "every-bad-equivalence-behind-public+private" : "bad-equivalence-visible") + "|" + kinds,
                   "some equivalence joins unreachable components / a parentless variable (" + kinds + "), but fixVariableInterfaces() returned true");
        }
        return;
    }
    // 2. every variable whose equivalences are all reachable now permits its requirement; sufficient ones are unchanged
    for (size_t v = 0; v < nv; ++v) {
        const std::string after = vars[v]->interfaceType();
        const std::string where = "variable " + f.vars[v].name + ": before '" + before[v] + "' after '" + after + "' needs" + (needPub[v] ? " public" : "") + (needPriv[v] ? " private" : "");
        if (!f.inTree(static_cast<int>(v))) {
            VP_CHECK(c, after == before[v], "C19.fix.unchanged|variable-outside-the-model", where);
            continue;
        }
        if (eqList[v].empty()) {
            VP_CHECK(c, after == before[v], "C19.fix.unchanged|variable-without-equivalences", where);
            continue;
        }
        if (!allReachable[v]) {
            c.count("fix_variables_with_unreachable_equivalence_not_judged");
            continue;
        }
        std::string need = needPub[v] && needPriv[v] ? "both" : needPub[v] ? "public" : "private";
        VP_CHECK(c, permits(after, needPub[v], needPriv[v]), "C19.fix.sufficient|needs-" + need + (ret ? "|returned-true" : "|returned-false"), where);
        bool wasLegal = before[v] == "public" || before[v] == "private" || before[v] == "public_and_private";
        if (wasLegal && permits(before[v], needPub[v], needPriv[v])) {
            VP_CHECK(c, after == before[v], "C19.fix.unchanged|sufficient-interface-rewritten|needs-" + need, where);
            c.count("fix_sufficient_unchanged_checked");
        } else {
            c.count("fix_repaired_checked");
        }
        // the typed getter agrees with the string
        VP_CHECK(c, vars[v]->permitsInterfaceType(needPub[v] && needPriv[v] ? Variable::InterfaceType::PUBLIC_AND_PRIVATE : needPub[v] ? Variable::InterfaceType::PUBLIC : Variable::InterfaceType::PRIVATE),
                 "C19.fix.permits|needs-" + need, where);
    }
    // 3. nothing but interface strings changed
    {
        std::vector<std::string> afterIfaces;
        for (size_t v = 0; v < nv; ++v) {
            afterIfaces.push_back(vars[v]->interfaceType());
        }
        for (size_t v = 0; v < nv; ++v) {
            vars[v]->setInterfaceType(before[v]);
        }
        std::string d = dumpModel(model) + dumpModel(other);
        VP_CHECK(c, d == dumpBefore, "C19.fix.collateral|model-content-changed", firstDiff(dumpBefore, d));
        for (size_t v = 0; v < nv; ++v) {
            vars[v]->setInterfaceType(afterIfaces[v]);
        }
    }
    // 4. returned true: the validator raises no interface issue
    if (ret) {
        auto validator = Validator::create();
        validator->validateModel(model);
        {
            std::string lg = checkLogger(validator);
            VP_CHECK(c, lg.empty(), "C15.monitor|Validator|" + lg.substr(0, lg.find('|')), lg);
        }
        for (size_t i = 0; i < validator->issueCount(); ++i) {
            auto is = validator->issue(i);
            const std::string d = is->description();
            bool ifaceIssue = d.find("interface type") != std::string::npos || d.find("neither siblings nor") != std::string::npos || d.find("has no parent component") != std::string::npos;
            VP_CHECK(c, !ifaceIssue, std::string("C19.fix.validator|") + (d.find("interface type") != std::string::npos ? "interface-type" : "unreachable-equivalence"), d);
        }
        c.count("fix_validator_checked");
    }
}

// =====================================================================================================================
// (b) linkUnits
// =====================================================================================================================

enum Situation
{
    SIT_ABSENT,
    SIT_STANDARD_NAME, // setUnits("second")
    SIT_BY_NAME, // setUnits("<name>") : fresh unowned Units carrying only a name
    SIT_OWN_OBJECT, // the model's own Units object
    SIT_FOREIGN_OBJECT, // a Units object owned by another model
    SIT_UNOWNED_DEFINITION, // an unowned Units object with unit children (e.g. taken out of a model)
    SIT_STANDARD_OBJECT, // Units::create("metre"), unowned
};

const char *sitName(int s)
{
    static const char *n[] = {"absent", "standard-name", "by-name", "own-object", "foreign-object", "unowned-definition", "standard-object"};
    return n[s];
}

struct LVar
{
    int comp = 0;
    std::string name;
    int sit = SIT_ABSENT;
    std::string units; // name used
};

void runLink(Src &src, Case &c)
{
    static const std::vector<std::string> pool = {"ua", "ub", "uc", "ud"};
    static const std::vector<std::string> stdNames = {"second", "metre", "dimensionless", "volt", "kilogram"};
    // ---- plan
    const size_t nComps = 1 + src.below(4);
    const uint64_t definedMask = src.below(16); // which pool names the model defines
    const uint64_t foreignMask = src.below(16); // which pool names the other model defines
    const bool tidy = src.flip(35); // only situations that can be linked
    const uint64_t importedMask = src.flip(30) ? src.below(16) : 0; // defined units that are imports
    std::vector<int> parent(nComps, -1);
    std::vector<size_t> nVars(nComps, 0);
    size_t total = 0;
    for (size_t i = 0; i < nComps; ++i) {
        if (i > 0) {
            parent[i] = static_cast<int>(src.below(i + 1)) - 1;
        }
        nVars[i] = src.below(4);
        total += nVars[i];
    }
    if (total == 0) {
        nVars[nComps - 1] = 1;
    }
    auto defined = [&](const std::string &n) {
        for (size_t i = 0; i < pool.size(); ++i) {
            if (pool[i] == n) {
                return ((definedMask >> i) & 1) != 0;
            }
        }
        return false;
    };
    std::vector<std::string> definedNames, undefinedNames, foreignNames;
    for (size_t i = 0; i < pool.size(); ++i) {
        (((definedMask >> i) & 1) != 0 ? definedNames : undefinedNames).push_back(pool[i]);
        if (((foreignMask >> i) & 1) != 0) {
            foreignNames.push_back(pool[i]);
        }
    }
    foreignNames.push_back("fx"); // the other model always owns at least one units

    // ---- models
    ModelPtr model = Model::create("m");
    ModelPtr other = Model::create("other");
    auto imp = ImportSource::create();
    imp->setUrl("lib.cellml");
    std::map<std::string, UnitsPtr> own, foreign;
    std::ostringstream text;
    text << "helper linkUnits\nmodel defines:";
    for (size_t i = 0; i < pool.size(); ++i) {
        if (((definedMask >> i) & 1) == 0) {
            continue;
        }
        auto u = Units::create(pool[i]);
        if (((importedMask >> i) & 1) != 0) {
            u->setImportSource(imp);
            u->setImportReference("r_" + pool[i]);
            text << " " << pool[i] << "(import)";
        } else {
            if (i % 2 == 0) {
                u->addUnit("second", "milli");
            }
            text << " " << pool[i];
        }
        model->addUnits(u);
        own[pool[i]] = u;
    }
    text << "\nother model defines:";
    for (const auto &n : foreignNames) {
        auto u = Units::create(n);
        u->addUnit("metre");
        other->addUnits(u);
        foreign[n] = u;
        text << " " << n;
    }
    text << "\n";
    std::vector<ComponentPtr> comps;
    for (size_t i = 0; i < nComps; ++i) {
        comps.push_back(Component::create("c" + std::to_string(i)));
        if (parent[i] >= 0) {
            comps[static_cast<size_t>(parent[i])]->addComponent(comps[i]);
        } else {
            model->addComponent(comps[i]);
        }
    }
    std::vector<LVar> lvars;
    std::vector<VariablePtr> vars;
    std::vector<UnitsPtr> heldBefore;
    std::set<int> situations;
    for (size_t i = 0; i < nComps; ++i) {
        text << "component c" << i << " parent=" << (parent[i] < 0 ? std::string("<top>") : "c" + std::to_string(parent[i])) << "\n";
        for (size_t k = 0; k < nVars[i]; ++k) {
            LVar lv;
            lv.comp = static_cast<int>(i);
            lv.name = "v" + std::to_string(lvars.size());
            int sit = static_cast<int>(src.below(7));
            bool wantDefined = src.flip(60);
            if (tidy) {
                wantDefined = true;
                if (sit == SIT_FOREIGN_OBJECT) {
                    sit = SIT_BY_NAME;
                }
            }
            if (sit == SIT_OWN_OBJECT && definedNames.empty()) {
                sit = SIT_BY_NAME;
            }
            if ((sit == SIT_BY_NAME || sit == SIT_UNOWNED_DEFINITION) && tidy && definedNames.empty()) {
                sit = SIT_STANDARD_NAME;
            }
            auto v = Variable::create(lv.name);
            switch (sit) {
            case SIT_ABSENT:
                break;
            case SIT_STANDARD_NAME:
                lv.units = src.pick(stdNames);
                v->setUnits(lv.units);
                break;
            case SIT_STANDARD_OBJECT:
                lv.units = src.pick(stdNames);
                v->setUnits(Units::create(lv.units));
                break;
            case SIT_BY_NAME:
            case SIT_UNOWNED_DEFINITION: {
                const auto &from = (wantDefined && !definedNames.empty()) || undefinedNames.empty() ? definedNames : undefinedNames;
                lv.units = src.pick(from);
                if (sit == SIT_BY_NAME) {
                    v->setUnits(lv.units);
                } else {
                    auto u = Units::create(lv.units);
                    u->addUnit("kilogram", 1, 2.0, 1.0);
                    if (src.flip(50)) {
                        // once owned by the model under repair, then removed from it
                        model->addUnits(u);
                        model->removeUnits(u);
                    }
                    v->setUnits(u);
                }
                break;
            }
            case SIT_OWN_OBJECT:
                lv.units = src.pick(definedNames);
                v->setUnits(own[lv.units]);
                break;
            case SIT_FOREIGN_OBJECT:
                lv.units = src.pick(foreignNames);
                v->setUnits(foreign[lv.units]);
                break;
            }
            lv.sit = sit;
            comps[i]->addVariable(v);
            vars.push_back(v);
            lvars.push_back(lv);
            heldBefore.push_back(v->units());
            situations.insert(sit);
            std::string label = std::string("link:") + sitName(sit);
            if (sit == SIT_BY_NAME || sit == SIT_UNOWNED_DEFINITION) {
                label += defined(lv.units) ? "/defined" : "/undefined";
            }
            if (sit == SIT_FOREIGN_OBJECT && defined(lv.units)) {
                label += "/name-also-defined-here";
            }
            c.cls(label);
            text << "  variable " << lv.name << " units: " << label.substr(5) << (lv.units.empty() ? "" : " '" + lv.units + "'") << "\n";
        }
    }
    c.cls("helper=linkUnits");
    c.text = text.str();
    c.hash = hashStr(c.text);
    c.weight = c.text.size();
    c.nontrivial = situations.size() >= 2;

    // ---- expectation from the situations
    bool expectedReturn = true, expectedUnlinkedBefore = false;
    for (const auto &lv : lvars) {
        bool byName = lv.sit == SIT_BY_NAME || lv.sit == SIT_UNOWNED_DEFINITION;
        if (lv.sit == SIT_FOREIGN_OBJECT || (byName && !defined(lv.units))) {
            expectedReturn = false;
        }
        if (lv.sit == SIT_FOREIGN_OBJECT || byName) {
            expectedUnlinkedBefore = true;
        }
    }
    c.cls(expectedReturn ? "link:expect-true" : "link:expect-false");
    std::vector<UnitsPtr> ownListBefore;
    for (size_t i = 0; i < model->unitsCount(); ++i) {
        ownListBefore.push_back(model->units(i));
    }
    const std::string dumpBefore = dumpModel(model) + dumpModel(other);
    VP_CHECK(c, model->hasUnlinkedUnits() == expectedUnlinkedBefore, std::string("C19.link.hasUnlinkedUnits-before|expected-") + (expectedUnlinkedBefore ? "true" : "false"), c.text);

    // ---- the call
    const bool ret = model->linkUnits();
    const bool unlinkedAfter = model->hasUnlinkedUnits();

    // per variable post-conditions (documented for both return values)
    for (size_t i = 0; i < lvars.size(); ++i) {
        const LVar &lv = lvars[i];
        auto u = vars[i]->units();
        const std::string where = "variable " + lv.name + " (" + sitName(lv.sit) + " '" + lv.units + "')";
        bool byName = lv.sit == SIT_BY_NAME || lv.sit == SIT_UNOWNED_DEFINITION;
        if (lv.sit == SIT_ABSENT) {
            VP_CHECK(c, u == nullptr, "C19.link.variable|absent-units-became-set", where);
        } else if (byName && defined(lv.units)) {
            VP_CHECK(c, u != nullptr && u.get() == own[lv.units].get() && u.get() == model->units(lv.units).get(),
                     std::string("C19.link.variable|named-units-not-the-models-object|") + sitName(lv.sit) + (ret ? "|returned-true" : "|returned-false"), where);
        } else {
            // standard, already linked, foreign, or not defined in the model: the variable keeps the object it had
            VP_CHECK(c, u.get() == heldBefore[i].get(), std::string("C19.link.variable|units-object-replaced|") + sitName(lv.sit), where);
        }
    }
    VP_CHECK(c, ret == expectedReturn, std::string("C19.link.return|expected-") + (expectedReturn ? "true" : "false"), c.text);
    if (ret) {
        VP_CHECK(c, !unlinkedAfter, "C19.link.hasUnlinkedUnits-after|true-after-success", c.text);
    } else {
        VP_CHECK(c, unlinkedAfter, "C19.link.hasUnlinkedUnits-after|false-after-failure", c.text);
    }
    // the models' units lists are untouched
    VP_CHECK(c, model->unitsCount() == ownListBefore.size(), "C19.link.collateral|units-count", c.text);
    for (size_t i = 0; i < ownListBefore.size(); ++i) {
        VP_CHECK(c, model->units(i).get() == ownListBefore[i].get() && ownListBefore[i]->parent() == model, "C19.link.collateral|units-list", c.text);
    }
    for (const auto &fu : foreign) {
        VP_CHECK(c, fu.second->parent() == other && other->hasUnits(fu.second), "C19.link.collateral|foreign-units-moved", fu.first);
    }
    {
        std::string d = dumpModel(model) + dumpModel(other);
        VP_CHECK(c, d == dumpBefore, "C19.link.collateral|model-content-changed", firstDiff(dumpBefore, d));
    }
    // idempotence: a second call changes nothing and returns the same
    {
        std::vector<UnitsPtr> held;
        for (const auto &v : vars) {
            held.push_back(v->units());
        }
        bool ret2 = model->linkUnits();
        VP_CHECK(c, ret2 == ret, "C19.link.second-call|return", c.text);
        for (size_t i = 0; i < vars.size(); ++i) {
            VP_CHECK(c, vars[i]->units().get() == held[i].get(), "C19.link.second-call|units-object-replaced", lvars[i].name);
        }
    }
}

// =====================================================================================================================
// (c) clean
// =====================================================================================================================

// Rebuilds the component list in the given order (indices into spec.comps; components not listed are dropped).
// Parents must precede children in `order`.
void reindexComps(ModelSpec &spec, const std::vector<int> &order)
{
    std::vector<int> newIndex(spec.comps.size(), -1);
    for (size_t i = 0; i < order.size(); ++i) {
        newIndex[static_cast<size_t>(order[i])] = static_cast<int>(i);
    }
    std::vector<CompSpec> nc;
    for (int o : order) {
        CompSpec cs = spec.comps[static_cast<size_t>(o)];
        if (cs.parent >= 0) {
            cs.parent = newIndex[static_cast<size_t>(cs.parent)];
        }
        nc.push_back(cs);
    }
    std::vector<ConnSpec> conns;
    for (auto cn : spec.conns) {
        cn.c1 = newIndex[static_cast<size_t>(cn.c1)];
        cn.c2 = newIndex[static_cast<size_t>(cn.c2)];
        if (cn.c1 >= 0 && cn.c2 >= 0) {
            conns.push_back(cn);
        }
    }
    spec.comps = nc;
    spec.conns = conns;
}

// The documented definition of "empty". encIdCounts: whether an encapsulation id counts as an "identifier" (not settled by the text).
ModelSpec removeDocumentedEmpty(const ModelSpec &in, bool encIdCounts, std::vector<bool> *removedOut = nullptr)
{
    ModelSpec spec = in;
    const size_t n = spec.comps.size();
    std::vector<bool> empty(n, false);
    for (size_t k = n; k-- > 0;) { // children have larger indices than their parent
        const CompSpec &cs = spec.comps[k];
        bool own = cs.name.empty() && cs.id.empty() && cs.vars.empty() && cs.resets.empty() && cs.math.empty() && cs.import < 0 && !(encIdCounts && !cs.encId.empty());
        bool kidsEmpty = true;
        for (size_t j = k + 1; j < n; ++j) {
            if (spec.comps[j].parent == static_cast<int>(k) && !empty[j]) {
                kidsEmpty = false;
            }
        }
        empty[k] = own && kidsEmpty;
    }
    std::vector<int> keep;
    for (size_t k = 0; k < n; ++k) {
        if (!empty[k]) {
            keep.push_back(static_cast<int>(k));
        }
    }
    reindexComps(spec, keep);
    std::vector<UnitsSpec> us;
    for (const auto &u : spec.units) {
        bool e = u.name.empty() && u.id.empty() && u.units.empty() && u.import < 0;
        if (!e) {
            us.push_back(u);
        }
    }
    spec.units = us;
    if (removedOut != nullptr) {
        *removedOut = empty;
    }
    return spec;
}

void runClean(Src &src, Case &c)
{
    // ---- plan
    // All seeding decisions are drawn before the model generator runs: tapes are often shorter than the generator's
    // appetite and reads past the end give 0, which would put every seeded item at the top level, last and empty.
    const size_t nSeedComps = 1 + src.below(8);
    const size_t nSeedUnits = src.below(4);
    struct SeedPlan
    {
        uint64_t parentRaw, nestRaw, kind, detail;
        bool nest;
    };
    std::vector<SeedPlan> compPlan(nSeedComps), unitsPlan(nSeedUnits);
    for (auto &sp : compPlan) {
        sp.kind = src.below(12);
        sp.parentRaw = src.below(1u << 16);
        sp.nest = src.flip(50);
        sp.nestRaw = sp.nest ? src.below(1u << 16) : 0;
        sp.detail = (sp.kind == 8 || sp.kind == 9) ? src.below(4) : 0;
    }
    for (auto &sp : unitsPlan) {
        sp.kind = src.below(7);
        sp.parentRaw = src.below(1u << 16); // position
        sp.detail = sp.kind == 6 ? src.below(4) : 0;
        sp.nest = false;
        sp.nestRaw = 0;
    }
    uint32_t orderState = static_cast<uint32_t>(src.below(1u << 30)); // sibling positions: a stream derived from one tape value
    auto orderNext = [&](size_t n) -> size_t {
        orderState = orderState * 1664525u + 1013904223u;
        return static_cast<size_t>((orderState >> 8) % static_cast<uint32_t>(n));
    };
    GenOpts opt;
    opt.maxComps = 4;
    opt.maxVars = 2;
    opt.maxUnits = 3;
    ModelSpec spec = genValidModel(src, opt);
    const size_t nOriginal = spec.comps.size();

    // ---- seed components
    int serial = 0;
    bool lookAlike = false, encIdOnly = false;
    for (size_t k = 0; k < nSeedComps; ++k) {
        CompSpec cs;
        const SeedPlan &sp = compPlan[k];
        int p = static_cast<int>(sp.parentRaw % (spec.comps.size() + 1)) - 1;
        if (sp.nest && spec.comps.size() > nOriginal) {
            // prefer nesting under an earlier seeded component: chains of empties, empties that hold a look-alike
            p = static_cast<int>(nOriginal + sp.nestRaw % (spec.comps.size() - nOriginal));
        }
        while (p >= 0 && spec.depthOf(p) >= 4) {
            p = spec.comps[static_cast<size_t>(p)].parent;
        }
        cs.parent = p;
        unsigned kind = static_cast<unsigned>(sp.kind);
        ++serial;
        switch (kind) {
        case 5:
            cs.name = "lk" + std::to_string(serial);
            c.cls("clean:look-alike:only-name");
            break;
        case 6:
            cs.id = "lk_id_" + std::to_string(serial);
            c.cls("clean:look-alike:only-id");
            break;
        case 7:
            cs.math.push_back("<math xmlns=\"http://www.w3.org/1998/Math/MathML\"><apply><eq/><cn xmlns:cellml=\"http://www.cellml.org/cellml/2.0#\" cellml:units=\"dimensionless\">1</cn><cn xmlns:cellml=\"http://www.cellml.org/cellml/2.0#\" cellml:units=\"dimensionless\">1</cn></apply></math>");
            c.cls("clean:look-alike:only-math");
            break;
        case 8: {
            if (spec.imports.empty()) {
                ImportSpec is;
                is.url = "seeded.cellml";
                spec.imports.push_back(is);
            }
            cs.import = static_cast<int>((sp.detail / 2) % spec.imports.size());
            cs.importRef = sp.detail % 2 == 1 ? "ref" + std::to_string(serial) : "";
            c.cls("clean:look-alike:import");
            break;
        }
        case 9: {
            VarSpec v;
            v.name = sp.detail % 2 == 1 ? "lkv" : "";
            cs.vars.push_back(v);
            c.cls("clean:look-alike:only-variable");
            break;
        }
        case 10: {
            ResetSpec r;
            cs.resets.push_back(r);
            c.cls("clean:look-alike:only-reset");
            break;
        }
        case 11:
            cs.encId = "lk_enc_" + std::to_string(serial);
            c.cls("clean:encapsulation-id-only(not judged)");
            encIdOnly = true;
            break;
        default:
            break; // empty
        }
        lookAlike = lookAlike || (kind >= 5 && kind <= 10);
        spec.comps.push_back(cs);
    }
    // ---- seed units
    for (size_t k = 0; k < nSeedUnits; ++k) {
        UnitsSpec u;
        const SeedPlan &sp = unitsPlan[k];
        unsigned kind = static_cast<unsigned>(sp.kind);
        ++serial;
        switch (kind) {
        case 3:
            u.name = "lku" + std::to_string(serial);
            c.cls("clean:units-look-alike:only-name");
            break;
        case 4:
            u.id = "lku_id_" + std::to_string(serial);
            c.cls("clean:units-look-alike:only-id");
            break;
        case 5: {
            UnitSpec ch;
            ch.ref = "second";
            u.units.push_back(ch);
            c.cls("clean:units-look-alike:only-child");
            break;
        }
        case 6:
            if (spec.imports.empty()) {
                ImportSpec is;
                is.url = "seeded.cellml";
                spec.imports.push_back(is);
            }
            u.import = static_cast<int>((sp.detail / 2) % spec.imports.size());
            u.importRef = sp.detail % 2 == 1 ? "uref" + std::to_string(serial) : "";
            c.cls("clean:units-look-alike:import");
            break;
        default:
            c.cls("clean:empty-units");
            break;
        }
        lookAlike = lookAlike || kind >= 3;
        spec.units.insert(spec.units.begin() + static_cast<long>(sp.parentRaw % (spec.units.size() + 1)), u);
    }
    // ---- every position: a random order that keeps parents before children
    {
        std::vector<int> order, avail;
        std::vector<bool> placed(spec.comps.size(), false);
        while (order.size() < spec.comps.size()) {
            avail.clear();
            for (size_t i = 0; i < spec.comps.size(); ++i) {
                int p = spec.comps[i].parent;
                if (!placed[i] && (p < 0 || placed[static_cast<size_t>(p)])) {
                    avail.push_back(static_cast<int>(i));
                }
            }
            int pick = avail[orderNext(avail.size())];
            placed[static_cast<size_t>(pick)] = true;
            order.push_back(pick);
        }
        reindexComps(spec, order);
    }

    // ---- expectation
    std::vector<bool> removedA, removedB;
    ModelSpec expectA = removeDocumentedEmpty(spec, true, &removedA); // an encapsulation id counts as an identifier
    ModelSpec expectB = removeDocumentedEmpty(spec, false, &removedB); // it does not
    bool deepEmpty = false, anyEmpty = false;
    for (size_t i = 0; i < spec.comps.size(); ++i) {
        if (removedA[i]) {
            anyEmpty = true;
            int d = spec.depthOf(static_cast<int>(i));
            deepEmpty = deepEmpty || d >= 1;
            c.cls("clean:empty-component-depth=" + std::to_string(d + 1));
            int p = spec.comps[i].parent;
            if (p >= 0 && removedA[static_cast<size_t>(p)]) {
                c.cls("clean:empty-inside-empty");
            }
            if (p >= 0 && spec.comps[static_cast<size_t>(p)].import >= 0) {
                c.cls("clean:empty-inside-import");
            }
            // position among its siblings
            std::vector<int> sib = spec.childrenOf(p);
            if (sib.size() >= 2) {
                c.cls(sib.front() == static_cast<int>(i) ? "clean:empty-first-sibling" : sib.back() == static_cast<int>(i) ? "clean:empty-last-sibling" : "clean:empty-middle-sibling");
            }
            for (size_t s = 0; s + 1 < sib.size(); ++s) {
                if (removedA[static_cast<size_t>(sib[s])] && removedA[static_cast<size_t>(sib[s + 1])]) {
                    c.cls("clean:adjacent-empty-siblings");
                }
            }
        } else {
            const CompSpec &cs = spec.comps[i];
            bool own = cs.name.empty() && cs.id.empty() && cs.vars.empty() && cs.resets.empty() && cs.math.empty() && cs.import < 0 && cs.encId.empty();
            if (own) {
                c.cls("clean:bare-component-kept-for-its-children");
            }
        }
    }
    c.cls("helper=clean");
    c.cls(anyEmpty ? "clean:has-empty-component" : "clean:no-empty-component");
    c.text = "helper clean\n" + specToText(spec);
    c.hash = hashStr(c.text);
    c.weight = c.text.size();
    c.nontrivial = deepEmpty && lookAlike;

    // ---- build, call, compare
    Built b = buildApi(spec);
    const size_t compsBefore = spec.comps.size();
    b.model->clean();
    const std::string after = dumpModel(b.model, DUMP_ORDERED);
    const std::string wantA = dumpModel(buildApi(expectA).model, DUMP_ORDERED);
    if (after == wantA) {
        c.count("clean_components_removed", static_cast<long>(compsBefore - expectA.comps.size()));
    } else {
        const std::string wantB = encIdOnly ? dumpModel(buildApi(expectB).model, DUMP_ORDERED) : wantA;
        if (encIdOnly && after == wantB) {
            c.count("unjudged:clean-removed-component-with-only-an-encapsulation-id");
            c.cls("clean:encapsulation-id-only-was-removed");
        } else {
            // localisation: what kind of line differs first
            std::string diff = firstDiff(wantA, after);
            std::string kind = "other";
            size_t pa = diff.find("A: "), pb = diff.find("B: ");
            std::string la = pa != std::string::npos ? diff.substr(pa + 3, diff.find('\n', pa) - pa - 3) : "";
            std::string lb = pb != std::string::npos ? diff.substr(pb + 3) : "";
            auto trim = [](std::string s) {
                size_t p = s.find_first_not_of(' ');
                return p == std::string::npos ? std::string() : s.substr(p);
            };
            la = trim(la);
            lb = trim(lb);
            auto head = [](const std::string &l) { return l.substr(0, l.find(' ')); };
            // the line present in the result but not expected => something was kept; the other way round => something was removed
            size_t linesWant = static_cast<size_t>(std::count(wantA.begin(), wantA.end(), '\n'));
            size_t linesAfter = static_cast<size_t>(std::count(after.begin(), after.end(), '\n'));
            if (linesAfter > linesWant) {
                kind = "kept-empty:" + head(lb);
            } else if (linesAfter < linesWant) {
                kind = "removed-non-empty:" + head(la);
                if (la.find("import{") != std::string::npos) {
                    kind += ":import";
                } else if (la.find("component name=\"\" id=\"\"") == std::string::npos && la.find("component name=\"\"") != std::string::npos) {
                    kind += ":only-id";
                } else if (la.find("component name=\"\"") == std::string::npos && head(la) == "component") {
                    kind += ":named";
                }
            } else {
                kind = "changed:" + head(la);
            }
            c.fail("C19.clean.content|" + kind, diff + "\n--- expected after clean() ---\n" + wantA + "--- got ---\n" + after);
            return;
        }
    }
    // the removed objects are detached, the kept ones still belong to the model
    for (size_t i = 0; i < spec.comps.size(); ++i) {
        if (!removedB[i]) {
            VP_CHECK(c, b.comps[i]->parent() != nullptr, "C19.clean.parent|kept-component-lost-its-parent", spec.comps[i].name);
        }
    }
    // idempotence
    b.model->clean();
    {
        std::string again = dumpModel(b.model, DUMP_ORDERED);
        VP_CHECK(c, again == after, "C19.clean.second-call|content-changed", firstDiff(after, again));
    }
}

void run(Src &src, Case &c)
{
    xmlKeepBlanksDefault(1); // hidden-state reset (DESIGN 2.7)
    switch (src.below(3)) {
    case 0: runFix(src, c); break;
    case 1: runLink(src, c); break;
    default: runClean(src, c); break;
    }
}

} // namespace

namespace vp {
Property property = {
    "C19",
    "exploration",
    "The first tape value picks the helper. fixVariableInterfaces: a component tree of depth <= 4 (2-6 components, 2-12 variables, optionally a second model, a component in no model and a parentless variable), "
    "1-13 equivalences chosen by relation kind (siblings, parent/child, grandparent, cousin, other model, parentless) added in tape order, interface strings from {absent, none, public, private, public_and_private, garbage}; "
    "the requirement per variable and the expected return value are recomputed from the tree. linkUnits: 1-4 components whose variables hold units in 7 situations (absent, standard by name/object, by name, "
    "unowned definition, the model's object, another model's object) x names the model does / does not define. clean: genValidModel output seeded with 1-8 bare components and 0-3 bare units and look-alikes "
    "(only name / id / math / variable / reset / import, only unit child) at tape-chosen parents and sibling positions; expected model = spec with the documented-empty items removed from the leaves, rebuilt and compared by ordered dump. "
    "Non-trivial: (fix) >= 1 equivalence across a parent/child boundary and >= 1 connected variable with an absent, insufficient or garbage interface; (link) >= 2 different situations; (clean) >= 1 empty component below the top level and >= 1 look-alike. "
    "Distinct = hash of the case text.",
    run,
    nullptr,
    {"equivalences between two variables of one component are not generated (outside the quantifier)",
     "a units object owned by another model never carries a standard name; the model under repair defines no units with a standard name or two units with one name",
     "an imported component / imported units without a name is treated as not empty (clean() keeps imports; the documentation lists no import clause)",
     "a component whose only content is an encapsulation id is generated but either outcome is accepted (counted as unjudged)",
     "garbage interface strings never count as already sufficient"},
};
}

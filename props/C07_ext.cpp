// C07 - further generator dimensions (added after the independent exploration), as a second binary so that the saved tapes of
// props/C07.cpp keep their meaning: parser errors inside the definition of an entity (two imports from one file, only one
// affected; both orders), a library entry replaced by a null model after a first resolution, something encapsulated below an
// import element that is itself a child of a concrete component (chain shape 10, layered graphs), nested directories in
// which a relative href recurs along one acyclic chain / in which files at different depths have the same text, and every
// resolve / flatten of the fault state is made twice (the answer must not depend on the call count).
#define C07_EXT 1
#include "C07.cpp"

// C15 — issue reporting is coherent across all services: a mixed stream of (service, input) pairs.
// Each case picks one service scenario (Parser, Validator, Analyser, Importer, Printer, Annotator), makes a short history of
// calls on it and judges the logger after EVERY call: vp::checkLogger (kit/spec.cpp), the stricter c15::strictLogger
// (kit/c15_common.h: exactly the documented accessor of an item answers, far out-of-range indices, per-level accessors
// return issues of their level, no exception from any accessor) and the "failure is explained" rule.
// The enumerations are swept by props/C15_enum.cpp.
#include <libcellml>

#include <libxml/parser.h>

#include <algorithm>
#include <chrono>
#include <cstdio>
#include <cstdlib>
#include <fstream>
#include <sys/stat.h>
#include <unistd.h>

#include "c10_specmut.h"
#include "c15_common.h"
#include "gen.h"
#include "gt.h"
#include "prop.h"
#include "spec.h"

using namespace vp;
using namespace libcellml;

namespace {

// ------------------------------------------------------------------------------------------------ accounting

std::map<std::string, long> gRuleHits; // "RULE" -> issues seen carrying it (all services)
std::map<std::string, long> gRuleByService; // "Service:RULE"
std::map<std::string, long> gItemTypeHits; // "Service:TYPE"

struct Ctx
{
    Case &c;
    std::string log; // call log (part of c.text)
    long calls = 0;
    bool deletion = false; // the importer went through its error-deletion path (by construction of the scenario)
    bool mixed = false; // some logger held >= 2 issues of >= 2 levels
    explicit Ctx(Case &cc)
        : c(cc)
    {
    }
};

std::string oneLine(const std::string &s, size_t n = 160)
{
    std::string r = s.substr(0, n);
    std::replace(r.begin(), r.end(), '\n', ' ');
    return r;
}

// Judges the logger of `service` after `call`. detail: stable token naming the scenario (part of the signature).
// Returns false when the case has failed.
bool after(Ctx &x, const LoggerPtr &lg, const std::string &service, const std::string &call, const std::string &detail)
{
    ++x.calls;
    x.c.count("calls");
    x.c.count("calls:" + service);
    // the stricter oracle first: it names the rule / accessor / item type at fault; then the kit's monitor (what every other harness runs)
    std::string v = c15::strictLogger(lg);
    if (!v.empty()) {
        size_t p = v.find('|');
        size_t q = v.find('|', p + 1);
        x.c.fail("C15." + v.substr(0, p) + "|" + service + "|" + detail + ":" + v.substr(p + 1, q - p - 1), call + ": " + v.substr(q + 1) + "\n" + x.log);
        return false;
    }
    v = c15::kitLogger(lg);
    if (!v.empty()) {
        x.c.fail("C15." + v.substr(0, v.find('|')) + "|" + service + "|" + detail, call + ": " + v + "\n" + x.log);
        return false;
    }
    size_t ne = lg->errorCount(), nw = lg->warningCount(), nm = lg->messageCount(), n = lg->issueCount();
    std::string mix = std::string(ne > 0 ? "E" : "") + (nw > 0 ? "W" : "") + (nm > 0 ? "M" : "");
    if (mix.empty()) {
        mix = "none";
    }
    x.c.cls(service + ":levels=" + mix);
    int levels = (ne > 0 ? 1 : 0) + (nw > 0 ? 1 : 0) + (nm > 0 ? 1 : 0);
    if (n >= 2 && levels >= 2) {
        x.mixed = true;
        x.c.cls(service + ":mixed-levels");
        // interleaving: an issue of one level sits between two issues of another level
        for (size_t i = 0; i + 2 < n; ++i) {
            if (lg->issue(i)->level() != lg->issue(i + 1)->level() && lg->issue(i + 1)->level() != lg->issue(i + 2)->level()) {
                x.c.cls("interleaved-levels");
                break;
            }
        }
    }
    if (n >= 5) {
        x.c.cls(service + ":issues>=5");
    }
    for (size_t i = 0; i < n; ++i) {
        auto is = lg->issue(i);
        std::string rn = c15::ruleName(is->referenceRule());
        ++gRuleHits[rn];
        ++gRuleByService[service + ":" + rn];
        ++gItemTypeHits[service + ":" + c15::typeName(is->item()->type())];
        x.c.cls("item:" + c15::typeName(is->item()->type()));
    }
    x.log += "  " + service + "::" + call + " -> " + std::to_string(n) + " issues (E" + std::to_string(ne) + " W" + std::to_string(nw) + " M" + std::to_string(nm) + ")";
    if (n > 0) {
        x.log += " first: [" + c15::ruleName(lg->issue(0)->referenceRule()) + "] " + oneLine(lg->issue(0)->description(), 110);
    }
    x.log += "\n";
    return true;
}

// "A failing result is always explained."
bool explained(Ctx &x, bool failed, const LoggerPtr &lg, const std::string &service, const std::string &what, const std::string &detail)
{
    if (!failed) {
        return true;
    }
    x.c.cls("failure:" + service);
    x.c.count("failing-results");
    if (lg->issueCount() == 0) {
        x.c.fail("C15.unexplained-failure|" + service + "|" + detail, what + " failed and " + service + "::issueCount() is 0\n" + x.log);
        return false;
    }
    return true;
}

// ------------------------------------------------------------------------------------------------ scratch files (importer)

std::string gDir;

void removeScratch()
{
    if (gDir.empty()) {
        return;
    }
    for (const char *f : {"/c15_a.cellml", "/c15_b.cellml", "/sub/c15_c.cellml", "/sub/c15_a.cellml", "/sub/c15_b.cellml", "/sub/sub/c15_c.cellml"}) {
        unlink((gDir + f).c_str());
    }
    rmdir((gDir + "/sub/sub").c_str());
    rmdir((gDir + "/sub").c_str());
    rmdir(gDir.c_str());
}

const std::string &scratchDir()
{
    if (gDir.empty()) {
        const char *base = getenv("VERIF_RUN_DIR");
        std::string root = base != nullptr ? base : "/verif/.build/run";
        mkdir(root.c_str(), 0777);
        char tmpl[512];
        snprintf(tmpl, sizeof tmpl, "%s/c15-%d-XXXXXX", root.c_str(), static_cast<int>(getpid()));
        char *d = mkdtemp(tmpl);
        gDir = d != nullptr ? d : root;
        mkdir((gDir + "/sub").c_str(), 0777);
        mkdir((gDir + "/sub/sub").c_str(), 0777);
        atexit(removeScratch);
    }
    return gDir;
}

void writeFile(const std::string &path, const std::string &content)
{
    std::ofstream o(path, std::ios::binary | std::ios::trunc);
    o << content;
}

// ------------------------------------------------------------------------------------------------ document edits (Parser)
// The edit catalogue of props/C01_struct.cpp (applyEdit), without the size attacks (deep nesting, thousands of siblings,
// entity expansion: C01's subject), plus three edits that provoke the parser's WARNING issues.

std::vector<size_t> findAll(const std::string &s, const std::string &pat)
{
    std::vector<size_t> r;
    size_t p = 0;
    while ((p = s.find(pat, p)) != std::string::npos) {
        r.push_back(p);
        p += pat.size();
    }
    return r;
}

bool setAttr(std::string &doc, Src &src, const std::string &attr, const std::string &value)
{
    auto occ = findAll(doc, " " + attr + "=\"");
    if (occ.empty()) {
        return false;
    }
    size_t p = src.pick(occ) + attr.size() + 3;
    size_t e = doc.find('"', p);
    if (e == std::string::npos) {
        return false;
    }
    doc.replace(p, e - p, value);
    return true;
}

std::string attrValueAt(const std::string &doc, size_t pos, const std::string &attr)
{
    size_t p = doc.find(" " + attr + "=\"", pos);
    if (p == std::string::npos) {
        return "";
    }
    p += attr.size() + 3;
    size_t e = doc.find('"', p);
    return e == std::string::npos ? "" : doc.substr(p, e - p);
}

const std::vector<std::string> &hostileNumbers()
{
    static const std::vector<std::string> v = {"-", ".", "-.", "-e5", "e", "1e", "1e999", "+5", "99999999999", "", " ", "1 ", "0x10", "--1", "1.2.3", "NaN", "inf", "+", "1,5", "2147483648", "1E", ".e1"};
    return v;
}

const std::vector<std::string> &hostileNames()
{
    static const std::vector<std::string> v = {"", " ", "a&amp;b", "x&lt;y", "NOT ORIGIN: &amp;x&amp;", "&amp;", ";", "\xC2\xB5", "\xE6\x97\xA5", "9lives", "a b", "second", "dimensionless", "-", "_", "nowhere"};
    return v;
}

const std::vector<std::string> &mathElements()
{
    static const std::vector<std::string> v = {"eq", "neq", "lt", "and", "not", "plus", "minus", "times", "divide", "power", "root", "abs", "log", "min", "max", "rem", "diff", "sin", "pi", "true", "piecewise", "piece", "otherwise", "degree", "logbase", "bvar", "sep", "apply", "ci", "cn", "sum", "lambda", "semantics", "csymbol"};
    return v;
}

std::string applyEdit(std::string doc, Src &src, std::string &label)
{
    switch (src.below(20)) {
    case 0: {
        static const std::vector<std::string> attrs = {"exponent", "multiplier", "prefix", "order", "initial_value"};
        std::string a = src.pick(attrs);
        if (setAttr(doc, src, a, src.pick(hostileNumbers()))) {
            label = "number@" + a;
        }
        break;
    }
    case 1: {
        auto occ = findAll(doc, "<cn ");
        if (!occ.empty()) {
            size_t p = doc.find('>', src.pick(occ));
            size_t e = p == std::string::npos ? p : doc.find('<', p);
            if (e != std::string::npos) {
                doc.replace(p + 1, e - p - 1, src.pick(hostileNumbers()));
                label = "number@cn";
            }
        }
        break;
    }
    case 2: {
        std::vector<size_t> occ;
        for (const auto &op : {"<plus/>", "<times/>", "<minus/>", "<eq/>", "<divide/>", "<power/>", "<root/>", "<log/>", "<and/>", "<not/>", "<min/>", "<rem/>", "<sin/>", "<abs/>", "<lt/>", "<diff/>", "<max/>", "<xor/>"}) {
            for (size_t p : findAll(doc, op)) {
                occ.push_back(p);
            }
        }
        if (!occ.empty()) {
            size_t p = src.pick(occ);
            size_t e = doc.find("/>", p);
            doc.replace(p, e + 2 - p, "<" + src.pick(mathElements()) + "/>");
            label = "math-operator-swap";
        }
        break;
    }
    case 3: {
        auto occ = findAll(doc, src.flip(50) ? "<ci>" : "<cn ");
        if (!occ.empty()) {
            size_t p = src.pick(occ);
            size_t e = doc.find(doc.compare(p, 4, "<ci>") == 0 ? "</ci>" : "</cn>", p);
            if (e != std::string::npos) {
                doc.erase(p, e + 5 - p);
                label = "math-drop-operand";
            }
        }
        break;
    }
    case 4: {
        auto occ = findAll(doc, "<ci>");
        if (!occ.empty()) {
            size_t p = src.pick(occ);
            size_t e = doc.find("</ci>", p);
            if (e != std::string::npos) {
                std::string el = doc.substr(p, e + 5 - p);
                doc.insert(src.flip(30) ? p + 4 : p, el);
                label = "math-duplicate-operand";
            }
        }
        break;
    }
    case 5: {
        static const std::vector<std::string> attrs = {"name", "units", "variable", "test_variable", "component", "component_1", "component_2", "variable_1", "variable_2", "units_ref", "component_ref", "xlink:href", "interface", "id"};
        std::string a = src.pick(attrs);
        if (setAttr(doc, src, a, src.pick(hostileNames()))) {
            label = "text@" + a;
        }
        break;
    }
    case 6: { // unit reference retargeted to a user units name (cycle candidates)
        std::vector<std::string> names;
        for (size_t p : findAll(doc, "<units ")) {
            std::string n = attrValueAt(doc, p, "name");
            if (!n.empty()) {
                names.push_back(n);
            }
        }
        auto occ = findAll(doc, "<unit ");
        if (!names.empty() && !occ.empty()) {
            size_t p = src.pick(occ);
            size_t a = doc.find(" units=\"", p);
            if (a != std::string::npos) {
                size_t e = doc.find('"', a + 8);
                doc.replace(a + 8, e - a - 8, src.pick(names));
                label = "units-cycle-candidate";
            }
        }
        break;
    }
    case 7: { // foreign attribute / attribute in a namespace
        static const std::vector<std::string> what = {"<variable ", "<component ", "<units ", "<unit ", "<reset ", "<map_variables ", "<connection ", "<import ", "<model ", "<component_ref ", "<encapsulation", "<test_value", "<reset_value"};
        static const std::vector<std::string> junk = {" bogus=\"1\"", " xmlns:q=\"urn:q\" q:attr=\"1\"", " cellml:name=\"x\" xmlns:cellml=\"http://www.cellml.org/cellml/2.0#\"", " id=\"dup\"", " units=\"second\"", " name=\"again\""};
        auto occ = findAll(doc, src.pick(what));
        if (!occ.empty()) {
            size_t p = doc.find_first_of(" />", src.pick(occ) + 1);
            if (p != std::string::npos) {
                doc.insert(p, src.pick(junk));
                label = "foreign-attribute";
            }
        }
        break;
    }
    case 8: {
        static const std::vector<std::string> ns = {"http://www.cellml.org/cellml/2.0#", "http://www.cellml.org/cellml/1.1#", "http://www.cellml.org/cellml/1.0#", "http://www.w3.org/1998/Math/MathML", "http://www.w3.org/1999/xlink", "urn:foreign", ""};
        std::string from = src.pick(ns), to = src.pick(ns);
        auto occ = findAll(doc, "\"" + from + "\"");
        if (!from.empty() && !occ.empty()) {
            size_t p = src.pick(occ);
            doc.replace(p + 1, from.size(), to);
            label = "namespace";
        }
        break;
    }
    case 9: {
        if (!doc.empty()) {
            doc.resize(src.below(doc.size()));
            label = "truncate";
        }
        break;
    }
    case 10: { // foreign / unexpected child element, stray text
        static const std::vector<std::string> junk = {"<bogus/>", "<q:x xmlns:q=\"urn:q\"/>", "stray text &amp; more", "<!-- c -->", "<?pi data?>", "<variable name=\"lost\" units=\"second\"/>", "<component name=\"nested\"/>", "<unit units=\"second\"/>", "<math xmlns=\"http://www.w3.org/1998/Math/MathML\"/>",
                                                       "<map_variables variable_1=\"a\" variable_2=\"b\"/>", "<reset_value/>", "<test_value/>", "<component_ref component=\"nobody\"/>"};
        auto occ = findAll(doc, ">");
        if (!occ.empty()) {
            doc.insert(src.pick(occ) + 1, src.pick(junk));
            label = "unexpected-child";
        }
        break;
    }
    case 11: { // WARNING: empty encapsulation / empty connection / empty import
        size_t p = doc.find("</model>");
        if (p != std::string::npos) {
            static const std::vector<std::string> junk = {"<encapsulation/>", "<encapsulation id=\"e\"></encapsulation>", "<connection component_1=\"a\" component_2=\"b\"/>", "<connection id=\"cx\"/>", "<import xlink:href=\"empty.cellml\" xmlns:xlink=\"http://www.w3.org/1999/xlink\"/>",
                                                           "<import xlink:href=\"empty.cellml\" xmlns:xlink=\"http://www.w3.org/1999/xlink\" id=\"lost\"/>"};
            doc.insert(p, src.pick(junk));
            label = "warning-candidate";
        }
        break;
    }
    case 12: { // WARNING: variable whose units are defined nowhere
        auto occ = findAll(doc, "<variable ");
        if (!occ.empty() && setAttr(doc, src, "units", "c15_units_defined_nowhere")) {
            label = "warning-candidate";
        }
        break;
    }
    case 13: {
        static const std::vector<std::string> attrs = {"name", "units", "variable", "test_variable", "component_1", "component_2", "variable_1", "variable_2", "component", "xlink:href", "units_ref", "component_ref", "order"};
        std::string a = src.pick(attrs);
        auto occ = findAll(doc, " " + a + "=\"");
        if (!occ.empty()) {
            size_t p = src.pick(occ);
            size_t e = doc.find('"', p + a.size() + 3);
            if (e != std::string::npos) {
                doc.erase(p, e + 1 - p);
                label = "delete-attribute";
            }
        }
        break;
    }
    case 14: {
        static const std::vector<std::string> what = {"<component ", "<units ", "<connection ", "<encapsulation", "<reset ", "<import ", "<math ", "<test_value", "<reset_value", "<component_ref ", "<map_variables ", "<variable ", "<unit "};
        std::string w = src.pick(what);
        auto occ = findAll(doc, w);
        if (!occ.empty()) {
            size_t p = src.pick(occ);
            size_t sp = w.find_first_of(' ', 1);
            std::string tag = w.substr(1, sp == std::string::npos ? std::string::npos : sp - 1);
            size_t selfClose = doc.find("/>", p);
            size_t gt = doc.find('>', p);
            size_t e;
            if (selfClose != std::string::npos && selfClose + 1 == gt) {
                e = gt + 1;
            } else {
                e = doc.find("</" + tag + ">", p);
                if (e == std::string::npos) {
                    break;
                }
                e += tag.size() + 3;
            }
            std::string el = doc.substr(p, e - p);
            if (src.flip(50)) {
                doc.insert(p, el);
                label = "duplicate-element";
            } else {
                doc.erase(p, e - p);
                label = "delete-element";
            }
        }
        break;
    }
    case 15: {
        std::vector<std::string> names;
        for (size_t p : findAll(doc, "<component_ref ")) {
            names.push_back(attrValueAt(doc, p, "component"));
        }
        if (!names.empty() && setAttr(doc, src, "component", src.pick(names))) {
            label = "encapsulation-retarget";
        }
        break;
    }
    case 16: {
        std::vector<std::string> names;
        for (size_t p : findAll(doc, "<variable ")) {
            names.push_back(attrValueAt(doc, p, "name"));
        }
        auto occ = findAll(doc, "<variable ");
        if (!occ.empty()) {
            size_t p = src.pick(occ);
            doc.insert(p + 9, " initial_value=\"" + src.pick(names) + "\"");
            label = "initial-value-reference";
        }
        break;
    }
    case 17: {
        auto occ = findAll(doc, "<variable ");
        size_t m = doc.find("</model>");
        if (!occ.empty() && m != std::string::npos) {
            size_t p = src.pick(occ);
            size_t e = doc.find("/>", p);
            if (e != std::string::npos && e < m) {
                std::string el = doc.substr(p, e + 2 - p);
                doc.insert(m, el);
                label = "wrong-parent";
            }
        }
        break;
    }
    case 18: {
        auto occ = findAll(doc, "<apply>");
        if (!occ.empty()) {
            static const std::vector<std::string> junk = {"<bvar><cn cellml:units=\"second\">1</cn></bvar>", "<degree><ci>x</ci></degree>", "<logbase/>", "<piecewise/>", "<apply/>", "<otherwise/>"};
            doc.insert(src.pick(occ) + 7, src.pick(junk));
            label = "math-misplaced-qualifier";
        }
        break;
    }
    default: {
        auto occ = findAll(doc, "<connection ");
        if (!occ.empty()) {
            size_t p = src.pick(occ);
            size_t e = doc.find("</connection>", p);
            if (src.flip(40)) { // a connection of a component with itself
                std::string c1 = attrValueAt(doc, p, "component_1");
                size_t a = doc.find(" component_2=\"", p);
                if (a != std::string::npos && (e == std::string::npos || a < e)) {
                    size_t q = doc.find('"', a + 14);
                    doc.replace(a + 14, q - a - 14, c1);
                    label = "connection-self";
                }
            } else if (e != std::string::npos) {
                std::string el = doc.substr(p, e + 13 - p);
                doc.insert(p, el);
                label = "connection-duplicate";
            }
        }
    }
    }
    return doc;
}

GenOpts smallOpts(Src &src)
{
    GenOpts o;
    o.maxComps = 3;
    o.maxVars = 3;
    o.maxUnits = 3;
    o.math = src.flip(40);
    return o;
}

// ------------------------------------------------------------------------------------------------ Parser

void runParser(Src &src, Ctx &x)
{
    Case &c = x.c;
    c10::PreSrc pre(src, 40);
    size_t kind = pre.below(6);
    bool strictFirst = pre.flip(50);
    size_t nEdits = 0;
    bool validateAfter = pre.flip(60), printAfter = pre.flip(25), parseEmptyLast = pre.flip(15);
    std::string doc, what;
    switch (kind) {
    case 0:
    case 1: { // almost valid 2.0
        nEdits = 1 + pre.below(3);
        ModelSpec spec = genValidModel(src, smallOpts(src));
        XmlOptions xo;
        xo.layout = static_cast<uint32_t>(pre.below(8));
        doc = writeXml(spec, xo);
        what = "almost-valid-2.0";
        break;
    }
    case 2:
    case 3: { // CellML 1.x
        nEdits = pre.below(3);
        GenOpts o = smallOpts(src);
        o.v1x = true;
        bool v10 = pre.flip(40);
        if (v10) {
            o.imports = false;
        }
        ModelSpec spec = genValidModel(src, o);
        XmlOptions xo;
        xo.version = v10 ? 10 : 11;
        xo.layout = static_cast<uint32_t>(pre.below(8));
        xo.unitsInComponents = pre.flip(30);
        xo.cmetaId = pre.flip(30);
        xo.oldSpellings = pre.flip(30);
        xo.extras = pre.flip(30);
        xo.explicitNone = pre.flip(20);
        doc = writeXml(spec, xo);
        what = v10 ? "cellml-1.0" : "cellml-1.1";
        break;
    }
    case 4: { // garbage
        static const std::vector<std::string> fixed = {"", " ", "\n", "<", "<model", "<model/>", "<?xml version=\"1.0\"?>", "<a><b></a>", "not xml at all", "<model xmlns=\"http://www.cellml.org/cellml/2.0#\"/>", "<model xmlns=\"http://www.cellml.org/cellml/2.0#\" name=\"m\"><<</model>",
                                                        "<html><body/></html>", "<math xmlns=\"http://www.w3.org/1998/Math/MathML\"/>", "<model xmlns=\"urn:other\" name=\"m\"/>", "\xEF\xBB\xBF<model/>", "<model xmlns=\"http://www.cellml.org/cellml/1.0#\"/>"};
        if (pre.flip(50)) {
            doc = pre.pick(fixed);
        } else {
            size_t n = pre.below(60);
            static const std::string alphabet = "<>/=\"' \n&;:#abcmodelxns?!-[]\x01\xC3\xA9\xFF";
            for (size_t i = 0; i < n; ++i) {
                doc += alphabet[src.below(alphabet.size())];
            }
        }
        what = "garbage";
        break;
    }
    default: { // valid 2.0, untouched (the parser must be silent or only warn)
        ModelSpec spec = genValidModel(src, smallOpts(src));
        XmlOptions xo;
        xo.layout = static_cast<uint32_t>(pre.below(8));
        doc = writeXml(spec, xo);
        what = "valid-2.0";
    }
    }
    std::string edits;
    for (size_t i = 0; i < nEdits; ++i) {
        std::string label;
        for (int attempt = 0; attempt < 4 && label.empty(); ++attempt) { // an edit kind may not apply to this document: draw again
            doc = applyEdit(doc, pre, label);
        }
        if (!label.empty()) {
            edits += (edits.empty() ? "" : ",") + label;
            c.cls("parser-edit:" + label.substr(0, label.find('@')));
        }
    }
    if (doc.size() > 40000) {
        doc.resize(40000);
    }
    c.cls("Parser:doc=" + what);
    x.log += "Parser scenario: " + what + (edits.empty() ? "" : " edits=" + edits) + "\n";
    auto parser = Parser::create(strictFirst);
    ModelPtr last;
    for (int round = 0; round < 2; ++round) {
        bool strict = round == 0 ? strictFirst : !strictFirst;
        parser->setStrict(strict);
        ModelPtr m = parser->parseModel(doc);
        std::string mode = strict ? "strict" : "permissive";
        if (!after(x, parser, "Parser", "parseModel[" + mode + "]", what + "/" + mode)) {
            return;
        }
        if (!explained(x, m == nullptr, parser, "Parser", "parseModel (returned null)", what + "/" + mode)) {
            return;
        }
        if (m != nullptr) {
            last = m;
        }
        c.cls(std::string("Parser:") + mode);
    }
    if (parseEmptyLast) {
        ModelPtr m = parser->parseModel("");
        if (!after(x, parser, "Parser", "parseModel[empty string]", "empty") || !explained(x, m == nullptr, parser, "Parser", "parseModel(\"\")", "empty")) {
            return;
        }
    }
    if (last != nullptr && validateAfter) {
        auto validator = Validator::create();
        validator->validateModel(last);
        if (!after(x, validator, "Validator", "validateModel[parsed " + what + "]", "parsed:" + what)) {
            return;
        }
    }
    if (last != nullptr && printAfter) {
        auto printer = Printer::create();
        std::string s = printer->printModel(last);
        if (!after(x, printer, "Printer", "printModel[parsed " + what + "]", "parsed:" + what)) {
            return;
        }
    }
    c.text = x.log + "--- document ---\n" + doc.substr(0, 4000);
}

} // namespace

// The other scenarios and the property definition (split only to keep the files readable; one translation unit).
#include "C15_validator.inc"
#include "C15_analyser.inc"
#include "C15_importer.inc"
#include "C15_misc.inc"

// C06 — flattening yields an import-free model with the same meaning (differential: Importer::flattenModel against the
// unsplit ground-truth model the import forest was cut from).
#include <libcellml>

#include <libxml/parser.h>

#include <chrono>
#include <csignal>
#include <dirent.h>
#include <cstdlib>
#include <cstring>
#include <fstream>
#include <sstream>
#include <sys/stat.h>
#include <unistd.h>

#include "c06_forest.h"
#include "c20_ref.h"
#include "gt.h"
#include "gtrun.h"
#include "prop.h"
#include "runner.h"
#include "spec.h"

using namespace vp;
using namespace libcellml;

namespace {

CodeRunner *gRunner = nullptr;
std::string gDir; // run-private directory for the import files of the current case
const double kTol = 1e-7;
const int kDump = DUMP_ORDERED | DUMP_RAW_MATH;

void removeTree(const std::string &dir)
{
    // the tree is ours and shallow: <dir>/{*.cellml, sub/*.cellml, caseN/...}
    if (dir.find("/c06-") == std::string::npos) {
        return;
    }
    DIR *d = opendir(dir.c_str());
    if (d != nullptr) {
        while (dirent *e = readdir(d)) {
            std::string n = e->d_name;
            if (n == "." || n == "..") {
                continue;
            }
            std::string p = dir + (dir.back() == '/' ? "" : "/") + n;
            struct stat st;
            if (lstat(p.c_str(), &st) == 0 && S_ISDIR(st.st_mode)) {
                removeTree(p);
            } else {
                unlink(p.c_str());
            }
        }
        closedir(d);
    }
    rmdir(dir.c_str());
}

void atExitCleanup()
{
    if (!gDir.empty()) {
        removeTree(gDir);
    }
}

void ensureDir()
{
    if (!gDir.empty()) {
        return;
    }
    const char *base = getenv("VERIF_RUN_DIR");
    std::string root = base != nullptr ? base : "/verif/.build/run";
    mkdir(root.c_str(), 0777);
    char tmpl[512];
    snprintf(tmpl, sizeof tmpl, "%s/c06-%d-XXXXXX", root.c_str(), static_cast<int>(getpid()));
    char *d = mkdtemp(tmpl);
    gDir = d != nullptr ? std::string(d) : root + "/c06-fallback";
    atexit(atExitCleanup);
}

struct Setup
{
    const C06Forest *f = nullptr;
    unsigned mode = 0; // 0: library filled through addModel, 1: files + main built through the API, 2: files + main parsed
    bool rawKeys = false;
    bool workaround = false;
    std::string dir; // with trailing slash
    // results
    ImporterPtr importer;
    ModelPtr main;
    std::vector<ModelPtr> libs;
    std::vector<std::string> libNames;
    std::string problem; // "<signature>\n<detail>"
};

void writeFiles(const Setup &s)
{
    mkdir((s.dir + "sub").c_str(), 0777);
    for (size_t i = 0; i < s.f->models.size(); ++i) {
        XmlOptions xo;
        xo.layout = static_cast<uint32_t>(1 + i);
        std::ofstream o(s.dir + s.f->models[i].url, std::ios::binary);
        o << writeXml(s.f->models[i].spec, xo);
    }
}

bool build(Setup &s)
{
    const C06Forest &f = *s.f;
    s.importer = Importer::create();
    if (s.mode == 0) {
        for (size_t i = 1; i < f.models.size(); ++i) {
            Built b = buildApi(f.models[i].spec);
            std::string key = s.rawKeys ? f.models[i].url : s.dir + f.models[i].url;
            if (!s.importer->addModel(b.model, key)) {
                s.problem = "C06.setup|addModel\naddModel refused key " + key;
                return false;
            }
        }
    }
    if (s.mode == 2) {
        std::ifstream in(s.dir + f.models[0].url, std::ios::binary);
        std::string text((std::istreambuf_iterator<char>(in)), std::istreambuf_iterator<char>());
        auto parser = Parser::create();
        s.main = parser->parseModel(text);
        if (s.main == nullptr || parser->errorCount() != 0) {
            s.problem = "C06.setup|parse-main\nthe main model written by the harness does not parse cleanly:\n" + dumpIssues(parser);
            return false;
        }
    } else {
        s.main = buildApi(f.models[0].spec).model;
    }
    bool ok = s.importer->resolveImports(s.main, s.dir);
    std::string lg = checkLogger(s.importer);
    if (!lg.empty()) {
        s.problem = "C15.logger|importer-after-resolveImports|" + lg.substr(0, lg.find('|')) + "\n" + lg;
        return false;
    }
    if (ok && s.importer->errorCount() == 0 && s.main->hasUnresolvedImports()) {
        // resolveImports() does not fetch imported units that only the encapsulated children of an imported component use
        // (it looks at the units of the imported component itself): it returns true and leaves the model unresolved, and
        // flattenModel() then refuses it. That is a resolution defect (C07's subject); the way round is to resolve the
        // library models as well.
        s.workaround = true;
        for (int round = 0; round < 4 && s.main->hasUnresolvedImports(); ++round) {
            for (size_t i = 0; i < s.importer->libraryCount(); ++i) {
                auto lib = s.importer->library(i);
                if (lib->hasUnresolvedImports()) {
                    std::string key = s.importer->key(i);
                    size_t slash = key.find_last_of('/');
                    std::string base = s.rawKeys || slash == std::string::npos ? s.dir : key.substr(0, slash + 1);
                    ok = s.importer->resolveImports(lib, base) && ok;
                }
            }
        }
    }
    if (!ok || s.importer->errorCount() != 0 || s.main->hasUnresolvedImports()) {
        s.problem = "C06.setup|resolveImports\nresolveImports returned " + std::string(ok ? "true" : "false") + " on a resolvable forest (hasUnresolvedImports=" + (s.main->hasUnresolvedImports() ? "true" : "false") + "):\n" + dumpIssues(s.importer);
        return false;
    }
    for (size_t i = 0; i < s.importer->libraryCount(); ++i) {
        s.libs.push_back(s.importer->library(i));
        s.libNames.push_back(s.importer->key(i));
    }
    return true;
}

void preflight(void *arg)
{
    // resolveImports and flattenModel in a child first: a crash, an uncaught exception or a hang in there becomes a recorded
    // failure of this case instead of the death of the worker. (The validator, analyser and generator calls that follow in
    // the parent are not repeated here: they cost 100 ms each; if one of them dies on a flat model bin/check triages the case.)
    Setup s = *static_cast<Setup *>(arg);
    if (!build(s)) {
        return;
    }
    auto flat = s.importer->flattenModel(s.main);
    if (flat != nullptr) {
        (void)flat->hasImports();
    }
}

std::string firstLine(const std::string &s)
{
    return s.substr(0, s.find('\n'));
}
std::string rest(const std::string &s)
{
    size_t p = s.find('\n');
    return p == std::string::npos ? "" : s.substr(p + 1);
}

// a stable token for a validation error of the flat model
std::string validityToken(const IssuePtr &is)
{
    std::string d = is->description();
    auto has = [&](const char *t) { return d.find(t) != std::string::npos; };
    std::string item = cellmlElementTypeAsString(is->item()->type());
    if (has("uplicate") && has(" id")) {
        return "duplicate-id";
    }
    if (item == "math" || has("<cn>") || has("cn element") || has("Math ")) {
        if (has("units")) {
            return "math-cn-units-reference";
        }
        return "math";
    }
    if (item == "variable" && has("units")) {
        return "variable-units-reference";
    }
    if ((item == "units" || item == "unit") && has("reference")) {
        return "units-child-reference";
    }
    if (has("contains multiple components with the name")) {
        return "component-name-not-unique";
    }
    if (has("contains multiple units with the name")) {
        return "units-name-not-unique";
    }
    if (has("same name") || has("duplicate")) {
        return item + "-name-not-unique";
    }
    if (item == "variable" && (has("interface") || has("equivalen"))) {
        return "variable-interface-or-equivalence";
    }
    return item + "|rule" + std::to_string(static_cast<int>(is->referenceRule()));
}

// The compiler or the compiled program dying without any output is the machine (16 cores shared by many jobs: time limits
// and process limits are hit), not the code under test: retried, then counted; rr.error is left empty in that case.
bool runCRobustly(const std::string &iface, const std::string &impl, const RunPlan &plan, RunResult &rr)
{
    for (int attempt = 0; attempt < 1; ++attempt) {
        rr = RunResult();
        if (gRunner->runC(iface, impl, plan, rr)) {
            return true;
        }
        std::string e = rr.error;
        size_t colon = e.find(": ");
        bool silent = colon != std::string::npos && e.find_first_not_of(" \n\t", colon + 2) == std::string::npos;
        bool infra = e.compare(0, 19, "compile/link failed") == 0 || e.find("status 1014") != std::string::npos || e.find("status 1009") != std::string::npos;
        if (!silent || !infra) {
            return false;
        }
    }
    rr.error.clear();
    return false;
}

std::map<int, std::string> rolesByClass(const AnalyserModelPtr &am, const GtMapping &map, std::string &problem)
{
    std::map<int, std::string> r;
    auto put = [&](int cls, const AnalyserVariablePtr &v) {
        std::string t = AnalyserVariable::typeAsString(v->type());
        if (r.count(cls) != 0) {
            problem = "class " + std::to_string(cls) + " is reported twice (" + r[cls] + ", " + t + ")";
        }
        r[cls] = t;
    };
    if (am->voi() != nullptr) {
        put(map.voiCls, am->voi());
    }
    for (size_t i = 0; i < am->stateCount(); ++i) {
        put(map.states[i].first, am->state(i));
    }
    for (size_t i = 0; i < am->variableCount(); ++i) {
        put(map.vars[i].first, am->variable(i));
    }
    return r;
}

struct DevTimer
{
    Case &c;
    bool on;
    std::chrono::steady_clock::time_point t;
    explicit DevTimer(Case &cc)
        : c(cc)
        , on(getenv("C06_DEV_LOG") != nullptr)
        , t(std::chrono::steady_clock::now())
    {
    }
    void lap(const char *name)
    {
        if (on) {
            auto n = std::chrono::steady_clock::now();
            c.count(std::string("dev-us:") + name, static_cast<long>(std::chrono::duration_cast<std::chrono::microseconds>(n - t).count()));
            t = n;
        }
    }
};

void run(Src &src, Case &c)
{
    DevTimer tm(c);
    xmlKeepBlanksDefault(1);
    if (gRunner == nullptr) {
        gRunner = new CodeRunner();
    }
    ensureDir();
    // ---- plan
    Setup s;
    s.mode = static_cast<unsigned>(src.below(3));
    const bool rawKeysWanted = src.flip(40);
    C06Options fo;
    fo.allowIds = true;
    fo.libsParsed = s.mode != 0;
    C06Forest f = c06GenForest(src, fo);
    s.f = &f;
    s.rawKeys = s.mode == 0 && rawKeysWanted && !f.usesSubdir;
    c.text = f.describe();
    c.hash = hashStr(c.text);
    c.weight = c.text.size();
    for (const auto &k : f.classes) {
        c.cls(k);
    }
    for (const auto &k : f.counters) {
        c.count("gen:" + k.first, k.second);
    }
    for (const auto &k : f.ref.counters) {
        c.count("gt:" + k.first, k.second);
    }
    static const char *modeName[] = {"resolved-through-addModel", "resolved-from-files", "resolved-from-files+main-parsed"};
    c.cls(modeName[s.mode]);
    if (s.rawKeys) {
        c.cls("library-keys-are-the-hrefs");
    }
    c.text = std::string("mode: ") + modeName[s.mode] + "\n" + c.text;
    if (f.counters.count("bug:crossing-connection-below-a-root") != 0) {
        c.fail("C06.harness|crossing-connection", "the splitter produced a connection it cannot express");
        return;
    }
    if (f.importEdges == 0) {
        c.count("no-import-edge");
        return;
    }
    c.nontrivial = f.nontrivial;
    c.count("import-edges", f.importEdges);

    tm.lap("generate");
    // ---- files
    char sub[64];
    static long serial = 0;
    snprintf(sub, sizeof sub, "/case%ld/", ++serial);
    s.dir = gDir + sub;
    mkdir(s.dir.c_str(), 0777);
    struct DirGuard
    {
        std::string d;
        ~DirGuard() { removeTree(d); }
    } guard {s.dir};
    if (s.mode != 0) {
        writeFiles(s);
    }
    if (const char *keep = getenv("C06_DEV_KEEP")) {
        // development aid: a copy of the forest as files
        Setup k = s;
        k.dir = std::string(keep) + "/";
        mkdir(k.dir.c_str(), 0777);
        writeFiles(k);
    }

    tm.lap("files");
    // failures on the input shapes of known findings carry the shape in their signature
    const std::string shape = std::string(f.importerChildren ? "|importer-children-below-import-element" : "") + (f.importerChildrenUseImportedUnits ? "|importer-children-use-imported-units" : "")
                              + (f.chainGap ? "|chain-element-without-placeholder" : "") + (f.libraryAliasNamedLikeOtherUnits ? "|units-renamed-in-sequence" : "")
                              + (f.unitsDependencyIsImport ? "|library-units-dependency-is-an-import" : "") + (f.libraryImportElementWithPlaceholders ? "|library-import-element-with-placeholder-variables" : "")
                              + (f.unitsDependencyKnownElsewhere ? "|units-dependency-defined-elsewhere-under-another-name" : "")
                              + (f.importedUnitsNamedLikeLibraryUnits ? "|imported-units-named-like-other-units-of-their-library" : "");
    // ---- the same calls in a child first
    {
        std::string diag;
        Setup copy = s;
        int rc = runIsolated(preflight, &copy, 45, &diag);
        if (rc != 0) {
            std::string token = rc == 1000 + SIGALRM ? "hang|Importer::flattenModel-pipeline" : c06CrashToken(diag);
            token += shape;
            c.fail("C06.crash|" + token, "the resolve / validate / flatten / analyse / generate sequence killed the process (status " + std::to_string(rc) + "):\n" + diag.substr(diag.size() > 6000 ? diag.size() - 6000 : 0));
            return;
        }
    }

    tm.lap("preflight");
    if (!build(s)) {
        c.fail(firstLine(s.problem), rest(s.problem));
        return;
    }
    auto also = [&](const std::string &sig, const std::string &msg) { c.alsoFailed.emplace_back(sig.compare(0, 4, "C06.") == 0 && sig.compare(0, 10, "C06.setup|") != 0 ? sig + shape : sig, msg); };
    if (s.workaround) {
        c.cls("resolveImports-left-units-of-encapsulated-children-unresolved(libraries-resolved-explicitly)");
    }

    tm.lap("build");
    // ---- are the inputs valid?
    // The forest is valid by construction. The validator disagrees in two situations, which make (ii) vacuous for the case
    // (counted as classes) but are no reason to stop: two imports of one units_ref from one href (its own rule; possible in
    // the addModel mode only), and a connection between a variable in imported units and one in local units (its units
    // reduction does not follow imports and reports a mismatch). Anything else is reported.
    auto validator = Validator::create();
    bool inputsValid = true;
    std::string inputIssues;
    bool unexpectedInputIssue = false;
    auto validateInput = [&](const ModelPtr &model, const std::string &name) {
        validator->validateModel(model);
        std::string lg = checkLogger(validator);
        if (!lg.empty()) {
            also("C15.logger|validator-on-forest-model|" + lg.substr(0, lg.find('|')), lg);
        }
        if (validator->errorCount() == 0) {
            return;
        }
        inputsValid = false;
        inputIssues += name + ":\n" + dumpIssues(validator);
        // (the validator also descends into the library models of resolved imports, so the units may be imported anywhere)
        bool hasImportedUnits = false;
        for (const auto &fm : f.models) {
            for (const auto &fu : fm.spec.units) {
                hasImportedUnits = hasImportedUnits || fu.import >= 0;
            }
        }
        (void)model;
        for (size_t i = 0; i < validator->errorCount(); ++i) {
            std::string d = validator->error(i)->description();
            if (d.find("contains multiple imported units from") != std::string::npos) {
                c.cls("inputs-invalid:one-units_ref-imported-twice-from-one-href");
            } else if (hasImportedUnits && d.find("Cyclic units exist") != std::string::npos && d.find(" importing ") != std::string::npos) {
                // an imported units named like a units its definition refers to in the library: no cycle, but reported as one
                c.cls("inputs-invalid:validator-reports-a-units-cycle-across-models");
            } else if (hasImportedUnits && d.find("non-matching units of") != std::string::npos) {
                c.cls("inputs-invalid:validator-does-not-follow-imported-units-of-connected-variables");
            } else {
                unexpectedInputIssue = true;
            }
        }
    };
    // Each validation costs ~0.1 s under the sanitizers (the MathML DTD is parsed per math block), so the inputs are validated
    // for one case in six (generator health) and whenever the flat model does not validate (the precondition of (ii)).
    bool inputsChecked = false;
    auto checkInputs = [&](const Setup &st) {
        inputsChecked = true;
        c.count("input-validations");
        validateInput(st.main, "main");
        for (size_t i = 0; i < st.libs.size(); ++i) {
            validateInput(st.libs[i], st.libNames[i]);
        }
        if (!inputsValid) {
            c.count("inputs-not-valid");
            if (unexpectedInputIssue) {
                c.cls("inputs-not-valid");
                also("C06.setup|inputs-not-valid", "the validator rejects a model of the forest, which is valid by construction:\n" + inputIssues);
            }
        }
    };
    if (c.hash % 6 == 0) {
        checkInputs(s);
    }

    tm.lap("validate-inputs");
    // ---- flatten
    std::string mainBefore = dumpModel(s.main, kDump);
    std::vector<std::string> libsBefore;
    for (const auto &l : s.libs) {
        libsBefore.push_back(dumpModel(l, kDump));
    }
    ModelPtr flat = s.importer->flattenModel(s.main);
    {
        std::string lg = checkLogger(s.importer);
        if (!lg.empty()) {
            also("C15.logger|importer-after-flattenModel|" + lg.substr(0, lg.find('|')), lg);
        }
    }
    {
        std::string after = dumpModel(s.main, kDump);
        if (after != mainBefore) {
            also("C06.unchanged|importing-model", "flattenModel changed the model passed in: " + firstDiff(mainBefore, after));
        }
        for (size_t i = 0; i < s.libs.size(); ++i) {
            std::string a = dumpModel(s.libs[i], kDump);
            if (a != libsBefore[i]) {
                also("C06.unchanged|library-model", "flattenModel changed library model " + s.libNames[i] + ": " + firstDiff(libsBefore[i], a));
                break;
            }
        }
    }
    if (flat == nullptr) {
        also("C06.null|flattenModel", "flattenModel returned null for a fully resolved forest:\n" + dumpIssues(s.importer));
        return;
    }
    if (s.importer->errorCount() != 0) {
        also("C06.issues|errors-with-a-result", "flattenModel returned a model together with errors:\n" + dumpIssues(s.importer));
    }
    if (flat->hasImports()) {
        also("C06.imports|flat-model-has-imports", "the flat model still has imports:\n" + dumpModel(flat, 0).substr(0, 4000));
        return;
    }
    c.count("flattened");
    std::string flatText = Printer::create()->printModel(flat);
    auto withFlat = [&](const std::string &m) { return m + "\n--- flat model ---\n" + flatText.substr(0, 12000); };

    tm.lap("flatten+dumps");
    // ---- (ii) validity
    bool flatValid = true;
    validator->validateModel(flat);
    if (validator->errorCount() != 0) {
        flatValid = false;
        std::string flatIssues = dumpIssues(validator);
        std::string token = validityToken(validator->error(0));
        if (!inputsChecked) {
            // on a fresh copy of the forest, untouched by the flattenModel call above
            Setup fresh = s;
            fresh.libs.clear();
            fresh.libNames.clear();
            if (build(fresh)) {
                checkInputs(fresh);
            }
        }
        if (inputsValid) {
            also("C06.valid|" + token, withFlat("every model of the forest validates, the flat model does not:\n" + flatIssues));
        }
    }

    tm.lap("validate-flat");
    // ---- structure
    std::string problem;
    std::vector<C06Match> matches = c06MatchComponents(flat, f, problem);
    if (matches.empty()) {
        also("C06.structure|" + firstLine(problem), withFlat(rest(problem)));
        return;
    }
    if (matches.size() > 1) {
        c.cls("ambiguous-component-match(resolved-by-values)");
    }
    if (matches[0].renamed) {
        c.cls("observed:component-renamed-in-flat-model");
    }
    for (size_t i = 0; i < flat->unitsCount(); ++i) {
        std::string n = flat->units(i)->name();
        size_t us = n.find_last_of('_');
        if (us != std::string::npos && us + 1 < n.size() && n.find_first_not_of("0123456789", us + 1) == std::string::npos && flat->hasUnits(n.substr(0, us))) {
            c.cls("observed:units-renamed-in-flat-model");
        }
    }

    // ---- reference analysis (the unsplit model, built directly), consulted only when the flat model's analysis differs
    // from the constructed truth: then it decides whether the analyser disagrees with the construction for the unsplit model
    // as well (C05's claim; counted, not judged here) or only for the flat model (a flattening failure).
    c.cls("type:" + f.ref.expectedType);
    bool refDone = false, refOk = false;
    std::string refType;
    std::map<int, std::string> refRoles;
    auto ensureRef = [&]() {
        if (refDone) {
            return;
        }
        refDone = true;
        c.count("reference-analyses");
        auto refAnalyser = Analyser::create();
        refAnalyser->analyseModel(buildApi(f.ref.spec).model);
        auto refAm = refAnalyser->model();
        refType = refAm != nullptr ? AnalyserModel::typeAsString(refAm->type()) : "null";
        refOk = refAm != nullptr && refAm->isValid();
        GtMapping refMap;
        if (refOk) {
            std::string rp;
            if (!mapAnalyserModel(refAm, f.ref, refMap)) {
                refOk = false;
            } else {
                refRoles = rolesByClass(refAm, refMap, rp);
                refOk = rp.empty();
            }
        }
    };
    auto looseRole = [&](GtRole r, const std::string &got) {
        switch (r) {
        case GtRole::VOI: return got == "variable_of_integration";
        case GtRole::STATE: return got == "state";
        case GtRole::CONSTANT: return got == "constant";
        case GtRole::COMPUTED_CONSTANT: return got == "computed_constant";
        case GtRole::ALGEBRAIC: return got == "algebraic";
        case GtRole::NLA: return got == "algebraic" || got == "computed_constant";
        }
        return false;
    };

    tm.lap("match");
    // ---- per candidate correspondence: equivalences, units, analysis, values
    std::vector<std::pair<std::string, std::string>> firstFailures;
    bool someMatchPassed = false;
    for (size_t mi = 0; mi < matches.size() && !someMatchPassed; ++mi) {
        std::vector<std::pair<std::string, std::string>> fails;
        const C06Match &m = matches[mi];
        std::string d = c06CompareEquivalences(f, m);
        bool structureOk = true;
        if (!d.empty()) {
            fails.emplace_back("C06.equivalences|" + firstLine(d), withFlat(rest(d)));
            structureOk = false;
        }
        d = c06CompareUnits(flat, f, m);
        if (!d.empty()) {
            fails.emplace_back("C06.units|" + firstLine(d), withFlat(rest(d)));
            structureOk = false;
        }
        while (structureOk && flatValid) { // a block left by break
            GtModel truth = c06RenamedTruth(f, m);
            auto analyser = Analyser::create();
            analyser->analyseModel(flat);
            std::string lg = checkLogger(analyser);
            if (!lg.empty()) {
                fails.emplace_back("C15.logger|analyser-on-flat-model|" + lg.substr(0, lg.find('|')), lg);
            }
            auto am = analyser->model();
            std::string type = am != nullptr ? AnalyserModel::typeAsString(am->type()) : "null";
            if (am == nullptr || !am->isValid() || type != f.ref.expectedType) {
                ensureRef();
                if (!refOk || refType != f.ref.expectedType) {
                    if (refType != type) {
                        fails.emplace_back("C06.analysis|type:" + refType + "->" + type, withFlat("the unsplit model is analysed as " + refType + " (constructed as " + f.ref.expectedType + "), the flat model as " + type + ":\n" + dumpIssues(analyser)));
                    } else {
                        c.count("reference-not-analysed-as-constructed");
                        c.cls("reference-not-analysed-as-constructed");
                    }
                } else {
                    fails.emplace_back("C06.analysis|type:" + refType + "->" + type, withFlat("the unsplit model is analysed as " + refType + ", the flat model as " + type + ":\n" + dumpIssues(analyser)));
                }
                break;
            }
            GtMapping map;
            if (!mapAnalyserModel(am, truth, map)) {
                fails.emplace_back("C06.analysis|unknown-variable", withFlat(map.problem));
                break;
            }
            std::string rp;
            auto roles = rolesByClass(am, map, rp);
            if (!rp.empty()) {
                fails.emplace_back("C06.analysis|class-reported-twice", withFlat(rp));
                break;
            }
            bool loose = roles.size() == f.ref.classes.size();
            for (const auto &r : roles) {
                loose = loose && looseRole(f.ref.classes[static_cast<size_t>(r.first)].role, r.second);
            }
            if (!loose) {
                ensureRef();
                if (!refOk) {
                    c.count("reference-not-analysed-as-constructed");
                    c.cls("reference-not-analysed-as-constructed");
                    break;
                }
                if (roles != refRoles) {
                    std::string detail, tok;
                    for (const auto &r : refRoles) {
                        std::string got = roles.count(r.first) != 0 ? roles[r.first] : "absent";
                        if (got != r.second) {
                            const auto &h = f.ref.classes[static_cast<size_t>(r.first)].inst[0];
                            detail += "class " + std::to_string(r.first) + " (" + f.ref.spec.comps[static_cast<size_t>(h.comp)].name + "." + f.ref.spec.comps[static_cast<size_t>(h.comp)].vars[static_cast<size_t>(h.var)].name + "): unsplit model " + r.second + ", flat model " + got + "\n";
                            if (tok.empty()) {
                                tok = r.second + "->" + got;
                            }
                        }
                    }
                    fails.emplace_back("C06.analysis|role:" + tok, withFlat(detail));
                    break;
                }
                c.count("roles-differ-from-construction-as-for-the-unsplit-model");
            }
            c.count("analysed");
            RunPlan plan = makeRunPlan(truth, map);
            // Half of the ODE / DAE cases run the generated code under the stale-order protocol (kit/runner.h, kit/c20_ref.h: as
            // in C03): what computeVariables fails to recompute becomes visible. Decided from the content hash, not the tape.
            const C20Staleness staleness = c20Staleness(truth);
            plan.staleOrder = plan.ode && (c.hash >> 7) % 2 == 0;
            if (plan.staleOrder) {
                plan.staleResolve = c20StaleResolve(truth, map, staleness);
                c.cls("stale-order");
            }
            auto gen = Generator::create();
            gen->setModel(am);
            std::string iface = gen->interfaceCode(), impl = gen->implementationCode();
            RunResult rr;
            if (iface.empty() || impl.empty()) {
                fails.emplace_back("C06.code|empty", "generator returned empty code for the flat model");
            } else if (!runCRobustly(iface, impl, plan, rr)) {
                if (rr.error.empty()) {
                    c.count("infra:compiler-or-program-killed-without-diagnostics");
                } else {
                    fails.emplace_back("C06.code|run|" + rr.error.substr(0, 30), rr.error + "\n--- implementation ---\n" + impl.substr(0, 6000));
                }
            } else {
                c.count("programs");
                long comparisons = 0;
                std::string v = compareRunWithTruth(truth, map, plan.staleOrder ? c20TolerateStale(truth, map, rr, staleness) : rr, kTol, &comparisons);
                c.count("comparisons", comparisons);
                if (!v.empty()) {
                    fails.emplace_back("C06.value|" + firstLine(v), withFlat(rest(v)) + "\n--- implementation ---\n" + impl.substr(0, 8000));
                } else if (!f.ref.nla.empty() && (rr.nlaCalls <= 0 || rr.nlaResidual > 1e-6)) {
                    fails.emplace_back("C06.value|nla-residual", withFlat("the NLA objective function of the flat model does not vanish at the reference solution (calls " + std::to_string(rr.nlaCalls) + ", max |f| " + std::to_string(rr.nlaResidual) + ")"));
                } else {
                    c.count("values-confirmed");
                }
            }
            break;
        }
        if (fails.empty()) {
            someMatchPassed = true;
        } else if (mi == 0) {
            firstFailures = fails;
        }
    }
    tm.lap("analysis+run");
    if (!someMatchPassed) {
        for (const auto &x : firstFailures) {
            also(x.first, x.second);
        }
    }
}

// Development aid (C06_DEV_LOG=<dir>): failures are appended to <dir>/failures.log, the running tape is copied next to
// it and the case is reported as passed, so that one run shows the whole distribution of failures without shrinking.
void runOuter(Src &src, Case &c)
{
    run(src, c);
    if (const char *only = getenv("C06_DEV_ONLY")) {
        // development aid: keep only failures whose signature matches the given glob (to shrink towards one finding)
        std::vector<std::pair<std::string, std::string>> keep;
        if (!c.ok && globMatch(only, c.sig)) {
            keep.emplace_back(c.sig, c.msg);
        }
        for (const auto &x : c.alsoFailed) {
            if (globMatch(only, x.first)) {
                keep.push_back(x);
            }
        }
        c.ok = true;
        c.sig.clear();
        c.msg.clear();
        c.alsoFailed = keep;
        return;
    }
    const char *dev = getenv("C06_DEV_LOG");
    if (dev == nullptr) {
        return;
    }
    std::vector<std::pair<std::string, std::string>> all = c.alsoFailed;
    if (!c.ok) {
        all.emplace_back(c.sig, c.msg);
    }
    static long n = 0;
    for (const auto &x : all) {
        if (knownFindingIndex("C06", x.first) >= 0) {
            std::ofstream k(std::string(dev) + "/known.log", std::ios::app);
            k << "#" << getpid() << "-" << ++n << " " << x.first << "\n";
            if (const char *cur = getenv("C06_DEV_CUR")) {
                std::ifstream in(cur, std::ios::binary);
                std::ofstream out(std::string(dev) + "/case-" + std::to_string(getpid()) + "-" + std::to_string(n) + ".cur", std::ios::binary);
                out << in.rdbuf();
            }
            continue;
        }
        std::ofstream o(std::string(dev) + "/failures.log", std::ios::app);
        o << "#" << getpid() << "-" << ++n << " " << x.first << " :: " << x.second.substr(0, 400) << "\n=====\n";
        const char *cur = getenv("C06_DEV_CUR");
        if (cur != nullptr) {
            std::ifstream in(cur, std::ios::binary);
            std::ofstream out(std::string(dev) + "/case-" + std::to_string(getpid()) + "-" + std::to_string(n) + ".cur", std::ios::binary);
            out << in.rdbuf();
        }
    }
    c.alsoFailed.clear();
    c.ok = true;
    c.sig.clear();
    c.msg.clear();
}

} // namespace

namespace vp {
Property property = {
    "C06",
    "translation_validation",
    "rapidcheck tapes drive an import-forest generator: one ground-truth model (random dependency DAG of constants, computed constants, algebraic variables, states and NLA systems over 1-5 encapsulated, connected components with "
    "compatible-but-scaled units; units enriched with aliases, two-level definitions and units used by cn elements only; optionally one component subtree duplicated 2-3 times) is cut by 1-5 operations into a main model and 1-5 "
    "library models: component subtrees become imported components (chains of depth <= 4, diamonds, one library component imported several times, importer-side children below an import element, placeholder variables for the "
    "connections crossing the boundary), units become imported units (also twice under two names), library-side names are chosen to clash with importer-side names of components and units. Imports are resolved through addModel "
    "keys or from files in a run-private directory; flattenModel is called; the flat model must be non-null and import-free, validate when every input validates, correspond component by component and variable by variable to the "
    "unsplit model (encapsulation, equivalence classes, units reduced independently), be analysed with the same type and per-variable roles as the unsplit model, and its generated C code must reproduce the ground-truth values; the "
    "dumps of the main and library models must be identical before and after. Non-trivial: >= 2 import edges and at least one of {chain >= 2, diamond, duplicate import, component or units name clash, imported units used by cn only, "
    "encapsulated children}. Distinct = hash of the forest text.",
    runOuter,
    nullptr,
    {"the reference for the flat model is the unsplit model the forest was cut from (spec-level inlining by construction); its truth comes from the C03 ground-truth generator (margin 2e-3, tolerance 1e-7, NLA systems checked at the constructed solution)",
     "flat components are related to reference components by encapsulation position, expected name modulo a _<n> suffix and variable names; where that is ambiguous every candidate correspondence is tried and one must pass",
     "cases whose unsplit model the analyser does not classify as constructed (C05's claim) are counted and judged on structure, validity and immutability only",
     "system cc (C99) executes the generated code"},
};
}

// C06 — flattening yields an import-free model with the same meaning (differential: Importer::flattenModel against the
// unsplit ground-truth model the import forest was cut from).
#include <libcellml>

#include <libxml/parser.h>

#include <csignal>
#include <cstdlib>
#include <fstream>
#include <sstream>
#include <sys/stat.h>
#include <unistd.h>

#include "c06_forest.h"
#include "gt.h"
#include "gtrun.h"
#include "prop.h"
#include "runner.h"
#include "spec.h"

using namespace vp;
using namespace libcellml;

namespace {

CodeRunner *gRunner = nullptr;
std::string gDir; // run-private directory for the import files of the current case
const double kTol = 1e-7;
const int kDump = DUMP_ORDERED | DUMP_RAW_MATH;

void removeTree(const std::string &dir)
{
    if (dir.find("/c06-") == std::string::npos) {
        return;
    }
    std::string cmd = "rm -rf '" + dir + "'";
    int r = system(cmd.c_str());
    (void)r;
}

void atExitCleanup()
{
    if (!gDir.empty()) {
        removeTree(gDir);
    }
}

void ensureDir()
{
    if (!gDir.empty()) {
        return;
    }
    const char *base = getenv("VERIF_RUN_DIR");
    std::string root = base != nullptr ? base : "/verif/.build/run";
    mkdir(root.c_str(), 0777);
    char tmpl[512];
    snprintf(tmpl, sizeof tmpl, "%s/c06-%d-XXXXXX", root.c_str(), static_cast<int>(getpid()));
    char *d = mkdtemp(tmpl);
    gDir = d != nullptr ? std::string(d) : root + "/c06-fallback";
    atexit(atExitCleanup);
}

struct Setup
{
    const C06Forest *f = nullptr;
    unsigned mode = 0; // 0: library filled through addModel, 1: files + main built through the API, 2: files + main parsed
    bool rawKeys = false;
    std::string dir; // with trailing slash
    // results
    ImporterPtr importer;
    ModelPtr main;
    std::vector<ModelPtr> libs;
    std::vector<std::string> libNames;
    std::string problem; // "<signature>\n<detail>"
};

void writeFiles(const Setup &s)
{
    mkdir((s.dir + "sub").c_str(), 0777);
    for (size_t i = 0; i < s.f->models.size(); ++i) {
        XmlOptions xo;
        xo.layout = static_cast<uint32_t>(1 + i);
        std::ofstream o(s.dir + s.f->models[i].url, std::ios::binary);
        o << writeXml(s.f->models[i].spec, xo);
    }
}

bool build(Setup &s)
{
    const C06Forest &f = *s.f;
    s.importer = Importer::create();
    if (s.mode == 0) {
        for (size_t i = 1; i < f.models.size(); ++i) {
            Built b = buildApi(f.models[i].spec);
            std::string key = s.rawKeys ? f.models[i].url : s.dir + f.models[i].url;
            if (!s.importer->addModel(b.model, key)) {
                s.problem = "C06.setup|addModel\naddModel refused key " + key;
                return false;
            }
        }
    }
    if (s.mode == 2) {
        std::ifstream in(s.dir + f.models[0].url, std::ios::binary);
        std::string text((std::istreambuf_iterator<char>(in)), std::istreambuf_iterator<char>());
        auto parser = Parser::create();
        s.main = parser->parseModel(text);
        if (s.main == nullptr || parser->errorCount() != 0) {
            s.problem = "C06.setup|parse-main\nthe main model written by the harness does not parse cleanly:\n" + dumpIssues(parser);
            return false;
        }
    } else {
        s.main = buildApi(f.models[0].spec).model;
    }
    bool ok = s.importer->resolveImports(s.main, s.dir);
    std::string lg = checkLogger(s.importer);
    if (!lg.empty()) {
        s.problem = "C15.logger|importer-after-resolveImports|" + lg.substr(0, lg.find('|')) + "\n" + lg;
        return false;
    }
    if (!ok || s.importer->errorCount() != 0 || s.main->hasUnresolvedImports()) {
        s.problem = "C06.setup|resolveImports\nresolveImports returned " + std::string(ok ? "true" : "false") + " on a resolvable forest (hasUnresolvedImports=" + (s.main->hasUnresolvedImports() ? "true" : "false") + "):\n" + dumpIssues(s.importer);
        return false;
    }
    for (size_t i = 0; i < s.importer->libraryCount(); ++i) {
        s.libs.push_back(s.importer->library(i));
        s.libNames.push_back(s.importer->key(i));
    }
    return true;
}

void preflight(void *arg)
{
    // Everything the parent is going to ask of the library, in a child: a crash, an uncaught exception or a hang in here
    // becomes a recorded failure instead of the death of the worker.
    Setup s = *static_cast<Setup *>(arg);
    if (!build(s)) {
        return;
    }
    auto validator = Validator::create();
    validator->validateModel(s.main);
    for (const auto &l : s.libs) {
        validator->validateModel(l);
    }
    auto flat = s.importer->flattenModel(s.main);
    if (flat == nullptr) {
        return;
    }
    validator->validateModel(flat);
    auto analyser = Analyser::create();
    analyser->analyseModel(flat);
    if (analyser->model() != nullptr && analyser->model()->isValid()) {
        auto gen = Generator::create();
        gen->setModel(analyser->model());
        (void)gen->implementationCode();
    }
    auto printer = Printer::create();
    (void)printer->printModel(flat);
}

std::string firstLine(const std::string &s)
{
    return s.substr(0, s.find('\n'));
}
std::string rest(const std::string &s)
{
    size_t p = s.find('\n');
    return p == std::string::npos ? "" : s.substr(p + 1);
}

// a stable token for a validation error of the flat model
std::string validityToken(const IssuePtr &is)
{
    std::string d = is->description();
    auto has = [&](const char *t) { return d.find(t) != std::string::npos; };
    std::string item = cellmlElementTypeAsString(is->item()->type());
    if (has("uplicate") && has(" id")) {
        return "duplicate-id";
    }
    if (item == "math" || has("<cn>") || has("cn element") || has("Math ")) {
        if (has("units")) {
            return "math-cn-units-reference";
        }
        return "math";
    }
    if (item == "variable" && has("units")) {
        return "variable-units-reference";
    }
    if ((item == "units" || item == "unit") && has("reference")) {
        return "units-child-reference";
    }
    if (has("same name") || has("duplicate")) {
        return item + "-name-not-unique";
    }
    if (item == "variable" && (has("interface") || has("equivalen"))) {
        return "variable-interface-or-equivalence";
    }
    return item + "|rule" + std::to_string(static_cast<int>(is->referenceRule()));
}

std::map<int, std::string> rolesByClass(const AnalyserModelPtr &am, const GtMapping &map, std::string &problem)
{
    std::map<int, std::string> r;
    auto put = [&](int cls, const AnalyserVariablePtr &v) {
        std::string t = AnalyserVariable::typeAsString(v->type());
        if (r.count(cls) != 0) {
            problem = "class " + std::to_string(cls) + " is reported twice (" + r[cls] + ", " + t + ")";
        }
        r[cls] = t;
    };
    if (am->voi() != nullptr) {
        put(map.voiCls, am->voi());
    }
    for (size_t i = 0; i < am->stateCount(); ++i) {
        put(map.states[i].first, am->state(i));
    }
    for (size_t i = 0; i < am->variableCount(); ++i) {
        put(map.vars[i].first, am->variable(i));
    }
    return r;
}

void run(Src &src, Case &c)
{
    xmlKeepBlanksDefault(1);
    if (gRunner == nullptr) {
        gRunner = new CodeRunner();
    }
    ensureDir();
    // ---- plan
    Setup s;
    s.mode = static_cast<unsigned>(src.below(3));
    const bool rawKeysWanted = src.flip(40);
    C06Options fo;
    fo.allowIds = true;
    fo.libsParsed = s.mode != 0;
    C06Forest f = c06GenForest(src, fo);
    s.f = &f;
    s.rawKeys = s.mode == 0 && rawKeysWanted && !f.usesSubdir;
    c.text = f.describe();
    c.hash = hashStr(c.text);
    c.weight = c.text.size();
    for (const auto &k : f.classes) {
        c.cls(k);
    }
    for (const auto &k : f.counters) {
        c.count("gen:" + k.first, k.second);
    }
    for (const auto &k : f.ref.counters) {
        c.count("gt:" + k.first, k.second);
    }
    static const char *modeName[] = {"resolved-through-addModel", "resolved-from-files", "resolved-from-files+main-parsed"};
    c.cls(modeName[s.mode]);
    if (s.rawKeys) {
        c.cls("library-keys-are-the-hrefs");
    }
    c.text = std::string("mode: ") + modeName[s.mode] + "\n" + c.text;
    if (f.counters.count("bug:crossing-connection-below-a-root") != 0) {
        c.fail("C06.harness|crossing-connection", "the splitter produced a connection it cannot express");
        return;
    }
    if (f.importEdges == 0) {
        c.count("no-import-edge");
        return;
    }
    c.nontrivial = f.nontrivial;
    c.count("import-edges", f.importEdges);

    // ---- files
    char sub[64];
    static long serial = 0;
    snprintf(sub, sizeof sub, "/case%ld/", ++serial);
    s.dir = gDir + sub;
    mkdir(s.dir.c_str(), 0777);
    struct DirGuard
    {
        std::string d;
        ~DirGuard() { removeTree(d); }
    } guard {s.dir};
    if (s.mode != 0) {
        writeFiles(s);
    }

    // ---- the same calls in a child first
    {
        std::string diag;
        Setup copy = s;
        int rc = runIsolated(preflight, &copy, 10, &diag);
        if (rc != 0) {
            std::string token = rc == 1000 + SIGALRM ? "hang|Importer::flattenModel-pipeline" : c06CrashToken(diag);
            c.fail("C06.crash|" + token, "the resolve / validate / flatten / analyse / generate sequence killed the process (status " + std::to_string(rc) + "):\n" + diag.substr(diag.size() > 6000 ? diag.size() - 6000 : 0));
            return;
        }
    }

    if (!build(s)) {
        c.fail(firstLine(s.problem), rest(s.problem));
        return;
    }
    auto also = [&](const std::string &sig, const std::string &msg) { c.alsoFailed.emplace_back(sig, msg); };

    // ---- are the inputs valid?
    auto validator = Validator::create();
    bool inputsValid = true;
    std::string inputIssues;
    validator->validateModel(s.main);
    if (validator->errorCount() != 0) {
        inputsValid = false;
        inputIssues += "main:\n" + dumpIssues(validator);
    }
    {
        std::string lg = checkLogger(validator);
        if (!lg.empty()) {
            also("C15.logger|validator-on-importing-model|" + lg.substr(0, lg.find('|')), lg);
        }
    }
    for (size_t i = 0; i < s.libs.size(); ++i) {
        validator->validateModel(s.libs[i]);
        if (validator->errorCount() != 0) {
            inputsValid = false;
            inputIssues += s.libNames[i] + ":\n" + dumpIssues(validator);
        }
    }
    if (!inputsValid) {
        // The forest is valid by construction, with one exception the validator makes: two imports of one units_ref from one
        // href (possible in the addModel mode only). Anything else must be visible.
        bool onlyDuplicateUnitsImport = true;
        std::istringstream is(inputIssues);
        std::string line;
        while (std::getline(is, line)) {
            if (line.compare(0, 5, "issue") == 0 && line.find("level=0") != std::string::npos && line.find("contains multiple imported units from") == std::string::npos) {
                onlyDuplicateUnitsImport = false;
            }
        }
        c.count("inputs-not-valid");
        if (onlyDuplicateUnitsImport) {
            c.cls("inputs-invalid:one-units_ref-imported-twice-from-one-href");
        } else {
            c.cls("inputs-not-valid");
            also("C06.setup|inputs-not-valid", "the validator rejects a model of the forest, which is valid by construction:\n" + inputIssues);
        }
    }

    // ---- flatten
    std::string mainBefore = dumpModel(s.main, kDump);
    std::vector<std::string> libsBefore;
    for (const auto &l : s.libs) {
        libsBefore.push_back(dumpModel(l, kDump));
    }
    ModelPtr flat = s.importer->flattenModel(s.main);
    {
        std::string lg = checkLogger(s.importer);
        if (!lg.empty()) {
            also("C15.logger|importer-after-flattenModel|" + lg.substr(0, lg.find('|')), lg);
        }
    }
    {
        std::string after = dumpModel(s.main, kDump);
        if (after != mainBefore) {
            also("C06.unchanged|importing-model", "flattenModel changed the model passed in: " + firstDiff(mainBefore, after));
        }
        for (size_t i = 0; i < s.libs.size(); ++i) {
            std::string a = dumpModel(s.libs[i], kDump);
            if (a != libsBefore[i]) {
                also("C06.unchanged|library-model", "flattenModel changed library model " + s.libNames[i] + ": " + firstDiff(libsBefore[i], a));
                break;
            }
        }
    }
    if (flat == nullptr) {
        also("C06.null|flattenModel", "flattenModel returned null for a fully resolved forest:\n" + dumpIssues(s.importer));
        return;
    }
    if (s.importer->errorCount() != 0) {
        also("C06.issues|errors-with-a-result", "flattenModel returned a model together with errors:\n" + dumpIssues(s.importer));
    }
    if (flat->hasImports()) {
        also("C06.imports|flat-model-has-imports", "the flat model still has imports:\n" + dumpModel(flat, 0).substr(0, 4000));
        return;
    }
    c.count("flattened");
    std::string flatText = Printer::create()->printModel(flat);
    auto withFlat = [&](const std::string &m) { return m + "\n--- flat model ---\n" + flatText.substr(0, 12000); };

    // ---- (ii) validity
    bool flatValid = true;
    validator->validateModel(flat);
    if (validator->errorCount() != 0) {
        flatValid = false;
        if (inputsValid) {
            also("C06.valid|" + validityToken(validator->error(0)), withFlat("every model of the forest validates, the flat model does not:\n" + dumpIssues(validator)));
        }
    }

    // ---- structure
    std::string problem;
    std::vector<C06Match> matches = c06MatchComponents(flat, f, problem);
    if (matches.empty()) {
        also("C06.structure|" + firstLine(problem), withFlat(rest(problem)));
        return;
    }
    if (matches.size() > 1) {
        c.cls("ambiguous-component-match(resolved-by-values)");
    }
    if (matches[0].renamed) {
        c.cls("observed:component-renamed-in-flat-model");
    }
    for (size_t i = 0; i < flat->unitsCount(); ++i) {
        std::string n = flat->units(i)->name();
        size_t us = n.find_last_of('_');
        if (us != std::string::npos && us + 1 < n.size() && n.find_first_not_of("0123456789", us + 1) == std::string::npos && flat->hasUnits(n.substr(0, us))) {
            c.cls("observed:units-renamed-in-flat-model");
        }
    }

    // ---- reference analysis (the unsplit model, built directly)
    auto refAnalyser = Analyser::create();
    refAnalyser->analyseModel(buildApi(f.ref.spec).model);
    auto refAm = refAnalyser->model();
    std::string refType = refAm != nullptr ? AnalyserModel::typeAsString(refAm->type()) : "null";
    bool refOk = refAm != nullptr && refAm->isValid() && refType == f.ref.expectedType;
    c.cls("type:" + f.ref.expectedType);
    if (!refOk) {
        c.count("reference-not-analysed-as-constructed");
        c.cls("reference-not-analysed-as-constructed");
    }
    GtMapping refMap;
    std::map<int, std::string> refRoles;
    if (refOk) {
        std::string rp;
        if (!mapAnalyserModel(refAm, f.ref, refMap)) {
            refOk = false;
            c.count("reference-not-mapped");
        } else {
            refRoles = rolesByClass(refAm, refMap, rp);
        }
    }

    // ---- per candidate correspondence: equivalences, units, analysis, values
    std::vector<std::pair<std::string, std::string>> firstFailures;
    bool someMatchPassed = false;
    for (size_t mi = 0; mi < matches.size() && !someMatchPassed; ++mi) {
        std::vector<std::pair<std::string, std::string>> fails;
        const C06Match &m = matches[mi];
        std::string d = c06CompareEquivalences(f, m);
        bool structureOk = true;
        if (!d.empty()) {
            fails.emplace_back("C06.equivalences|" + firstLine(d) + (f.chainGap && firstLine(d) == "missing" ? "|chain-element-without-placeholder" : ""), withFlat(rest(d)));
            structureOk = false;
        }
        d = c06CompareUnits(flat, f, m);
        if (!d.empty()) {
            fails.emplace_back("C06.units|" + firstLine(d), withFlat(rest(d)));
            structureOk = false;
        }
        if (structureOk && flatValid && refOk) {
            GtModel truth = c06RenamedTruth(f, m);
            auto analyser = Analyser::create();
            analyser->analyseModel(flat);
            std::string lg = checkLogger(analyser);
            if (!lg.empty()) {
                fails.emplace_back("C15.logger|analyser-on-flat-model|" + lg.substr(0, lg.find('|')), lg);
            }
            auto am = analyser->model();
            std::string type = am != nullptr ? AnalyserModel::typeAsString(am->type()) : "null";
            if (type != refType || am == nullptr || !am->isValid()) {
                fails.emplace_back("C06.analysis|type:" + refType + "->" + type, withFlat("the unsplit model is analysed as " + refType + ", the flat model as " + type + ":\n" + dumpIssues(analyser)));
            } else {
                GtMapping map;
                if (!mapAnalyserModel(am, truth, map)) {
                    fails.emplace_back("C06.analysis|unknown-variable", withFlat(map.problem));
                } else {
                    std::string rp;
                    auto roles = rolesByClass(am, map, rp);
                    if (!rp.empty()) {
                        fails.emplace_back("C06.analysis|class-reported-twice", withFlat(rp));
                    } else if (roles != refRoles) {
                        std::string detail, tok;
                        for (const auto &r : refRoles) {
                            std::string got = roles.count(r.first) != 0 ? roles[r.first] : "absent";
                            if (got != r.second) {
                                const auto &h = f.ref.classes[static_cast<size_t>(r.first)].inst[0];
                                detail += "class " + std::to_string(r.first) + " (" + f.ref.spec.comps[static_cast<size_t>(h.comp)].name + "." + f.ref.spec.comps[static_cast<size_t>(h.comp)].vars[static_cast<size_t>(h.var)].name + "): unsplit model " + r.second + ", flat model " + got + "\n";
                                if (tok.empty()) {
                                    tok = r.second + "->" + got;
                                }
                            }
                        }
                        fails.emplace_back("C06.analysis|role:" + tok, withFlat(detail));
                    } else {
                        c.count("analysed");
                        RunPlan plan = makeRunPlan(truth, map);
                        auto gen = Generator::create();
                        gen->setModel(am);
                        std::string iface = gen->interfaceCode(), impl = gen->implementationCode();
                        RunResult rr;
                        if (iface.empty() || impl.empty()) {
                            fails.emplace_back("C06.code|empty", "generator returned empty code for the flat model");
                        } else if (!gRunner->runC(iface, impl, plan, rr)) {
                            fails.emplace_back("C06.code|run|" + rr.error.substr(0, 30), rr.error + "\n--- implementation ---\n" + impl.substr(0, 6000));
                        } else {
                            c.count("programs");
                            long comparisons = 0;
                            std::string v = compareRunWithTruth(truth, map, rr, kTol, &comparisons);
                            c.count("comparisons", comparisons);
                            if (!v.empty()) {
                                fails.emplace_back("C06.value|" + firstLine(v), withFlat(rest(v)) + "\n--- implementation ---\n" + impl.substr(0, 8000));
                            } else if (!f.ref.nla.empty() && (rr.nlaCalls <= 0 || rr.nlaResidual > 1e-6)) {
                                fails.emplace_back("C06.value|nla-residual", withFlat("the NLA objective function of the flat model does not vanish at the reference solution (calls " + std::to_string(rr.nlaCalls) + ", max |f| " + std::to_string(rr.nlaResidual) + ")"));
                            } else {
                                c.count("values-confirmed");
                            }
                        }
                    }
                }
            }
        }
        if (fails.empty()) {
            someMatchPassed = true;
        } else if (mi == 0) {
            firstFailures = fails;
        }
    }
    if (!someMatchPassed) {
        for (const auto &x : firstFailures) {
            also(x.first, x.second);
        }
    }
}

} // namespace

namespace vp {
Property property = {
    "C06",
    "translation_validation",
    "rapidcheck tapes drive an import-forest generator: one ground-truth model (random dependency DAG of constants, computed constants, algebraic variables, states and NLA systems over 1-5 encapsulated, connected components with "
    "compatible-but-scaled units; units enriched with aliases, two-level definitions and units used by cn elements only; optionally one component subtree duplicated 2-3 times) is cut by 1-5 operations into a main model and 1-5 "
    "library models: component subtrees become imported components (chains of depth <= 4, diamonds, one library component imported several times, importer-side children below an import element, placeholder variables for the "
    "connections crossing the boundary), units become imported units (also twice under two names), library-side names are chosen to clash with importer-side names of components and units. Imports are resolved through addModel "
    "keys or from files in a run-private directory; flattenModel is called; the flat model must be non-null and import-free, validate when every input validates, correspond component by component and variable by variable to the "
    "unsplit model (encapsulation, equivalence classes, units reduced independently), be analysed with the same type and per-variable roles as the unsplit model, and its generated C code must reproduce the ground-truth values; the "
    "dumps of the main and library models must be identical before and after. Non-trivial: >= 2 import edges and at least one of {chain >= 2, diamond, duplicate import, component or units name clash, imported units used by cn only, "
    "encapsulated children}. Distinct = hash of the forest text.",
    run,
    nullptr,
    {"the reference for the flat model is the unsplit model the forest was cut from (spec-level inlining by construction); its truth comes from the C03 ground-truth generator (margin 2e-3, tolerance 1e-7, NLA systems checked at the constructed solution)",
     "flat components are related to reference components by encapsulation position, expected name modulo a _<n> suffix and variable names; where that is ambiguous every candidate correspondence is tried and one must pass",
     "cases whose unsplit model the analyser does not classify as constructed (C05's claim) are counted and judged on structure, validity and immutability only",
     "system cc (C99) executes the generated code"},
};
}

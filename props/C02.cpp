// C02 — printing then parsing a model preserves its content (round trip against an independent canonical dump).
#include <libcellml>

#include <libxml/parser.h>
#include <libxml/tree.h>

#include <algorithm>
#include <cfloat>
#include <cmath>
#include <cstdio>
#include <functional>

#include "gen.h"
#include "prop.h"
#include "spec.h"

using namespace vp;
using namespace libcellml;

namespace {

bool needsEscaping(const std::string &s)
{
    return s.find_first_of("&<>\"'\t\n\r") != std::string::npos;
}

// Localisation for the known "no escaping" family: which attribute of the spec first carries a character that needs escaping.
std::string firstUnescaped(const ModelSpec &m)
{
    if (needsEscaping(m.name)) {
        return "model@name";
    }
    if (needsEscaping(m.id) || needsEscaping(m.encId)) {
        return "model@id";
    }
    for (const auto &i : m.imports) {
        if (needsEscaping(i.url)) {
            return "import@href";
        }
        if (needsEscaping(i.id)) {
            return "import@id";
        }
    }
    for (const auto &u : m.units) {
        if (needsEscaping(u.name)) {
            return "units@name";
        }
        if (needsEscaping(u.id)) {
            return "units@id";
        }
        if (needsEscaping(u.importRef)) {
            return "units@units_ref";
        }
        for (const auto &c : u.units) {
            if (needsEscaping(c.ref) || needsEscaping(c.prefix) || needsEscaping(c.id)) {
                return "unit@*";
            }
        }
    }
    for (const auto &c : m.comps) {
        if (needsEscaping(c.name)) {
            return "component@name";
        }
        if (needsEscaping(c.id) || needsEscaping(c.encId)) {
            return "component@id";
        }
        if (needsEscaping(c.importRef)) {
            return "component@component_ref";
        }
        for (const auto &v : c.vars) {
            if (needsEscaping(v.name)) {
                return "variable@name";
            }
            if (needsEscaping(v.id)) {
                return "variable@id";
            }
            if (needsEscaping(v.units)) {
                return "variable@units";
            }
            if (needsEscaping(v.initial)) {
                return "variable@initial_value";
            }
            if (needsEscaping(v.iface)) {
                return "variable@interface";
            }
        }
        for (const auto &r : c.resets) {
            if (needsEscaping(r.id) || needsEscaping(r.testValueId) || needsEscaping(r.resetValueId)) {
                return "reset@id";
            }
        }
    }
    for (const auto &cn : m.conns) {
        if (needsEscaping(cn.id)) {
            return "connection@id";
        }
        for (const auto &mp : cn.maps) {
            if (needsEscaping(mp.id)) {
                return "map_variables@id";
            }
        }
    }
    return "";
}

void silent(void *, const char *, ...)
{
}

bool wellFormedModel20(const std::string &s, std::string &why)
{
    xmlSetGenericErrorFunc(nullptr, silent);
    xmlSetStructuredErrorFunc(nullptr, nullptr);
    xmlDocPtr d = xmlReadMemory(s.c_str(), static_cast<int>(s.size()), "p.xml", nullptr, XML_PARSE_NOERROR | XML_PARSE_NOWARNING | XML_PARSE_NONET | XML_PARSE_HUGE);
    if (d == nullptr) {
        why = "not well-formed";
        return false;
    }
    xmlNodePtr r = xmlDocGetRootElement(d);
    bool ok = r != nullptr && std::string(reinterpret_cast<const char *>(r->name)) == "model" && r->ns != nullptr && std::string(reinterpret_cast<const char *>(r->ns->href)) == "http://www.cellml.org/cellml/2.0#";
    if (!ok) {
        why = "root is not {cellml 2.0}model";
    }
    xmlFreeDoc(d);
    return ok;
}


// ---------------------------------------------------------------------------------------------------------------
// Extensions (independent exploration): dimensions of the statement's domain that genValidModel does not draw. They
// are applied through the public API after buildApi (E3 replaces the model by a parsed one), are selected by the very
// first tape value (so that tapes recorded before they existed decode to the same case: an extension-free case reads
// the tape exactly as before).
enum Ext
{
    EXT_NONE = 0,
    EXT_DEEP_ENCAPSULATION, // a chain of 255..320 nested components
    EXT_DEEP_MATH, // a left-nested sum up to the depth the validator accepts
    EXT_ANCESTOR_NS, // document with xmlns:cellml (and optionally a MathML prefix) declared on <model>, parsed
    EXT_REALS_17, // exponents / multipliers that need 16 or 17 significant digits
    EXT_NONFINITE, // inf / nan exponent or multiplier
    EXT_CONNECTION_ID_CHANGED, // connection id changed after creation, two pairs per component pair sharing a variable
    EXT_WS_CONTROL, // class B: tab / line feed / carriage return in attribute text
};

const char *extName(Ext e)
{
    switch (e) {
    case EXT_DEEP_ENCAPSULATION: return "deep-encapsulation";
    case EXT_DEEP_MATH: return "deep-math";
    case EXT_ANCESTOR_NS: return "ancestor-namespaces";
    case EXT_REALS_17: return "reals-17-digits";
    case EXT_NONFINITE: return "nonfinite-reals";
    case EXT_CONNECTION_ID_CHANGED: return "connection-id-changed";
    case EXT_WS_CONTROL: return "ws-control-chars";
    default: return "none";
    }
}

// Parameters of an extension: a deterministic stream derived from ONE tape value drawn right after the selector (the
// generator and buildApi may use up a short tape; seed 0 = every choice 0 = the simplest parameters).
struct SeedSrc: Src
{
    uint64_t state;
    explicit SeedSrc(uint64_t seed)
        : state(seed)
    {
    }
protected:
    uint64_t raw(uint64_t n) override
    {
        if (state == 0) {
            return 0;
        }
        state += 0x9e3779b97f4a7c15ULL;
        uint64_t z = state;
        z = (z ^ (z >> 30)) * 0xbf58476d1ce4e5b9ULL;
        z = (z ^ (z >> 27)) * 0x94d049bb133111ebULL;
        z ^= z >> 31;
        return z % n;
    }
};

const std::string MATHML_NS = "http://www.w3.org/1998/Math/MathML";
const std::string CELLML_NS = "http://www.cellml.org/cellml/2.0#";

std::string visible(const std::string &s)
{
    std::string o;
    for (char ch : s) {
        switch (ch) {
        case '\t': o += "\\t"; break;
        case '\n': o += "\\n"; break;
        case '\r': o += "\\r"; break;
        default: o += ch;
        }
    }
    return o;
}

std::string hexReal(double v)
{
    if (std::isnan(v)) {
        return "nan";
    }
    char buf[64];
    snprintf(buf, sizeof buf, "%a", v);
    return buf;
}

// Exact (bit level) view of every exponent / multiplier, order-insensitive: dumpModel compares 15 digits only.
std::string exactReals(const ModelPtr &m)
{
    std::vector<std::string> lines;
    for (size_t i = 0; i < m->unitsCount(); ++i) {
        auto u = m->units(i);
        for (size_t k = 0; k < u->unitCount(); ++k) {
            std::string ref, prefix, id;
            double e = 1.0, mu = 1.0;
            u->unitAttributes(k, ref, prefix, e, mu, id);
            lines.push_back("units " + u->name() + " unit ref " + ref + " prefix=" + prefix + " id=" + id + " exponent=" + hexReal(e) + " (" + fmtDouble(e) + ") multiplier=" + hexReal(mu) + " (" + fmtDouble(mu) + ")\n");
        }
    }
    std::sort(lines.begin(), lines.end());
    std::string o;
    for (const auto &l : lines) {
        o += l;
    }
    return o;
}

// Every element name of a MathML string gets the prefix "mml:" and loses the default namespace declaration.
std::string prefixMathml(const std::string &math)
{
    std::string o;
    for (size_t i = 0; i < math.size(); ++i) {
        o += math[i];
        if (math[i] == '<' && i + 1 < math.size()) {
            if (math[i + 1] == '/') {
                o += "/mml:";
                ++i;
            } else if (isalpha(static_cast<unsigned char>(math[i + 1])) != 0) {
                o += "mml:";
            }
        }
    }
    const std::string decl = "xmlns=\"" + MATHML_NS + "\"";
    size_t p;
    while ((p = o.find(decl)) != std::string::npos) {
        o.erase(p, decl.size());
    }
    return o;
}

std::string eraseAll(std::string s, const std::string &what)
{
    size_t p;
    while ((p = s.find(what)) != std::string::npos) {
        s.erase(p, what.size());
    }
    return s;
}

std::string insertWs(Src &src, const std::string &s)
{
    static const std::vector<std::string> ws = {"\t", "\n", "\r", "\r\n", " \t", "\n\n"};
    std::string w = src.pick(ws);
    switch (src.below(3)) {
    case 0: return s + w; // trailing
    case 1: return w + s; // leading
    default:
        if (!s.empty() && static_cast<unsigned char>(s[0]) < 0x80) {
            return s.substr(0, 1) + w + s.substr(1);
        }
        return s + w + "z";
    }
}

void run(Src &src, Case &c)
{
    xmlKeepBlanksDefault(1); // hidden-state reset (see DESIGN 2.7)
    // One value decides class and extension: < 75 class A (40..74 with one of six extensions), >= 75 class B (90..99 with
    // tab / LF / CR in attribute text). Same consumption and the same class A / B split as the former flip(25).
    const unsigned k = static_cast<unsigned>(src.below(100));
    bool classB = k >= 75;
    Ext ext = EXT_NONE;
    if (k >= 40 && k < 75) {
        ext = static_cast<Ext>(EXT_DEEP_ENCAPSULATION + (k - 40) % 6);
    } else if (k >= 90) {
        ext = EXT_WS_CONTROL;
    }
    SeedSrc es(ext != EXT_NONE ? src.below(1ULL << 32) : 0);
    GenOpts opt;
    opt.hostileText = classB;
    ModelSpec spec = genValidModel(src, opt);
    if (ext == EXT_ANCESTOR_NS) {
        // a reset whose values carry cellml:units, so that both loaders of math (component, reset child) are met
        CompSpec rc;
        rc.name = "c02_reset";
        VarSpec x, t;
        x.name = "x";
        x.units = "second";
        x.initial = "0";
        t.name = "t";
        t.units = "second";
        rc.vars = {x, t};
        ResetSpec r;
        r.var = 0;
        r.testVar = 1;
        r.hasOrder = true;
        r.order = 1;
        r.testValue = mathBlockRaw("<cn cellml:units=\"second\">1</cn>", 0);
        r.resetValue = mathBlockRaw("<apply><plus/><ci>x</ci><cn cellml:units=\"second\">2</cn></apply>", 0);
        rc.resets.push_back(r);
        rc.math.push_back(mathBlockRaw("<apply><eq/><ci>t</ci><cn cellml:units=\"second\">3</cn></apply>", 0));
        spec.comps.push_back(rc);
    }
    Built b = buildApi(spec, &src);
    ModelPtr m = b.model;
    std::string extText;
    bool nonfinite = false;
    switch (ext) {
    case EXT_DEEP_ENCAPSULATION: {
        static const std::vector<int> depths = {256, 257, 255, 300, 320};
        int depth = es.pick(depths);
        ComponentPtr prev;
        for (int i = 0; i < depth; ++i) {
            auto comp = Component::create("c02_deep_" + std::to_string(i));
            if (prev == nullptr) {
                m->addComponent(comp);
            } else {
                prev->addComponent(comp);
            }
            prev = comp;
        }
        extText = "chain of " + std::to_string(depth) + " nested components c02_deep_<i>";
        break;
    }
    case EXT_DEEP_MATH: {
        static const std::vector<int> depths = {253, 254, 252, 251, 200};
        int depth = es.pick(depths);
        bool inReset = es.flip(30); // two more levels of the document around the math
        if (inReset) {
            depth -= 2;
        }
        auto comp = Component::create("c02_math");
        auto y = Variable::create("y");
        y->setUnits("dimensionless");
        comp->addVariable(y);
        std::string e = "<ci>y</ci>";
        for (int i = 0; i < depth; ++i) {
            e = "<apply><plus/>" + e + "<ci>y</ci></apply>";
        }
        if (inReset) {
            auto x = Variable::create("x");
            x->setUnits("dimensionless");
            x->setInitialValue("0");
            comp->addVariable(x);
            auto r = Reset::create();
            r->setVariable(x);
            r->setTestVariable(y);
            r->setOrder(1);
            r->setTestValue("<math xmlns=\"" + MATHML_NS + "\"><ci>y</ci></math>");
            r->setResetValue("<math xmlns=\"" + MATHML_NS + "\">" + e + "</math>");
            comp->addReset(r);
        } else {
            comp->setMath("<math xmlns=\"" + MATHML_NS + "\"><apply><eq/><ci>y</ci>" + e + "</apply></math>");
        }
        m->addComponent(comp);
        extText = "component c02_math with a left-nested sum of depth " + std::to_string(depth) + (inReset ? " as reset value" : " as math");
        break;
    }
    case EXT_ANCESTOR_NS: {
        // The same content as a document that declares the prefixes once, on <model> (the usual layout of CellML files),
        // read by the strict parser: the parsed model is the model under test.
        bool prefixed = es.flip(40);
        ModelSpec docSpec = spec;
        if (prefixed) {
            for (auto &cs : docSpec.comps) {
                for (auto &mm : cs.math) {
                    mm = prefixMathml(mm);
                }
                for (auto &r : cs.resets) {
                    r.testValue = prefixMathml(r.testValue);
                    r.resetValue = prefixMathml(r.resetValue);
                }
            }
        }
        XmlOptions xo;
        std::string doc = eraseAll(writeXml(docSpec, xo), "xmlns:cellml=\"" + CELLML_NS + "\"");
        size_t at = doc.find("<model");
        if (at != std::string::npos) {
            doc.insert(at + 6, " xmlns:cellml=\"" + CELLML_NS + "\"" + (prefixed ? " xmlns:mml=\"" + MATHML_NS + "\"" : std::string()));
        }
        auto p0 = Parser::create(true);
        ModelPtr parsed = p0->parseModel(doc);
        if (parsed != nullptr && p0->issueCount() == 0) {
            m = parsed;
            extText = std::string("model parsed from the document with xmlns:cellml") + (prefixed ? " and xmlns:mml (prefixed MathML)" : "") + " declared on <model>";
        } else {
            c.count("ancestor_ns_document_rejected");
            ext = EXT_NONE;
        }
        break;
    }
    case EXT_REALS_17:
    case EXT_NONFINITE: {
        static const std::vector<double> hard = {1.0 / 3.0, 0.1 + 0.2, 1.0000000000000002, 123456789012345678.0, DBL_MAX, 5e-324, 2.2250738585072014e-308,
                                                 9007199254740993.0, 1e23, 2.0 / 3.0, -1.0 / 3.0, 0.1, 1.7976931348623155e308, 4.35, 0.3};
        static const std::vector<double> bad = {INFINITY, NAN, -INFINITY};
        static const std::vector<std::string> refs = {"second", "metre", "kilogram", "ampere"};
        nonfinite = ext == EXT_NONFINITE;
        auto u = Units::create(nonfinite ? "c02_nonfinite" : "c02_reals");
        size_t n = 1 + es.below(3);
        for (size_t i = 0; i < n; ++i) {
            auto real = [&]() -> double {
                if (es.flip(40)) {
                    // any double of moderate magnitude: 52 random mantissa bits
                    uint64_t hi = es.below(1ULL << 26), lo = es.below(1ULL << 26);
                    double mant = 1.0 + static_cast<double>((hi << 26) | lo) / 4503599627370496.0;
                    return std::ldexp(es.flip(20) ? -mant : mant, es.range(-40, 40));
                }
                return es.pick(hard);
            };
            double e = es.flip(50) ? real() : 1.0;
            double mu = es.flip(70) ? real() : 1.0;
            if (nonfinite && i == 0) {
                if (es.flip(50)) {
                    e = es.pick(bad);
                } else {
                    mu = es.pick(bad);
                }
            }
            u->addUnit(refs[i % refs.size()], "", e, mu);
            extText += (i == 0 ? "" : "; ") + std::string("unit ") + refs[i % refs.size()] + " exponent " + hexReal(e) + " multiplier " + hexReal(mu);
        }
        m->addUnits(u);
        extText = "units " + u->name() + ": " + extText;
        break;
    }
    case EXT_CONNECTION_ID_CHANGED: {
        // a{p,q} and b{r} with p~r and q~r: two pairs of one connection that share a variable
        auto ca = Component::create("c02_a");
        auto cb = Component::create("c02_b");
        auto mk = [](const std::string &name) {
            auto v = Variable::create(name);
            v->setUnits("second");
            v->setInterfaceType("public");
            return v;
        };
        auto vp = mk("p"), vq = mk("q"), vr = mk("r");
        ca->addVariable(vp);
        ca->addVariable(vq);
        cb->addVariable(vr);
        m->addComponent(ca);
        m->addComponent(cb);
        bool idAtCreation = es.flip(50);
        Variable::addEquivalence(vp, vr, "", idAtCreation ? "c02_first" : "");
        Variable::addEquivalence(vq, vr, "", idAtCreation ? "c02_first" : "");
        if (!idAtCreation) {
            Variable::setEquivalenceConnectionId(vp, vr, "c02_first");
        }
        unsigned which = static_cast<unsigned>(es.below(4));
        VariablePtr s1 = (which & 1U) != 0 ? vp : vq, s2 = vr;
        if ((which & 2U) != 0) {
            std::swap(s1, s2);
        }
        Variable::setEquivalenceConnectionId(s1, s2, "c02_second");
        extText = "components c02_a{p,q} c02_b{r}, p~r, q~r, connection id c02_first " + std::string(idAtCreation ? "given to addEquivalence" : "set on (p,r)") + ", then setEquivalenceConnectionId(" + s1->name() + ", " + s2->name() + ", c02_second)";
        // the same on a connection of the generated model that has several mappings
        for (size_t ci = 0; ci < spec.conns.size(); ++ci) {
            const auto &cn = spec.conns[ci];
            if (cn.maps.size() >= 2 && es.flip(50)) {
                const auto &mp = cn.maps[es.below(cn.maps.size())];
                std::string nid = "c02_changed_" + std::to_string(ci);
                Variable::setEquivalenceConnectionId(b.vars[static_cast<size_t>(cn.c1)][static_cast<size_t>(mp.v1)], b.vars[static_cast<size_t>(cn.c2)][static_cast<size_t>(mp.v2)], nid);
                extText += "; connection " + std::to_string(ci) + " id changed to " + nid + " through mapping (" + std::to_string(mp.v1) + "," + std::to_string(mp.v2) + ")";
            }
        }
        break;
    }
    case EXT_WS_CONTROL: {
        auto change = [&](const std::string &what, const std::string &old, const std::function<void(const std::string &)> &set, unsigned pct) {
            if (!es.flip(pct)) {
                return;
            }
            std::string n = insertWs(es, old);
            set(n);
            extText += what + " -> \"" + visible(n) + "\"; ";
        };
        change("model id", m->id().empty() ? "c02 id" : m->id(), [&](const std::string &v) { m->setId(v); }, 100);
        change("model name", m->name(), [&](const std::string &v) { m->setName(v); }, 30);
        for (auto &is : b.imports) {
            change("import href", is->url(), [&](const std::string &v) { is->setUrl(v); }, 50);
            if (!is->id().empty()) {
                change("import id", is->id(), [&](const std::string &v) { is->setId(v); }, 30);
            }
        }
        for (size_t ci = 0; ci < b.comps.size(); ++ci) {
            auto &comp = b.comps[ci];
            change("component name", comp->name(), [&](const std::string &v) { comp->setName(v); }, 30);
            if (!comp->id().empty()) {
                change("component id", comp->id(), [&](const std::string &v) { comp->setId(v); }, 30);
            }
            if (spec.comps[ci].import >= 0) {
                change("component_ref", comp->importReference(), [&](const std::string &v) { comp->setImportReference(v); }, 30);
                continue;
            }
            for (auto &var : b.vars[ci]) {
                if (!var->id().empty()) {
                    change("variable id", var->id(), [&](const std::string &v) { var->setId(v); }, 30);
                }
                if (!var->initialValue().empty() && es.flip(30)) {
                    // only text that names no sibling variable
                    bool names = false;
                    for (auto &o : b.vars[ci]) {
                        names = names || o->name() == var->initialValue();
                    }
                    if (!names) {
                        change("initial value", var->initialValue(), [&](const std::string &v) { var->setInitialValue(v); }, 100);
                    }
                }
            }
        }
        break;
    }
    default: break;
    }
    c.text = (classB ? std::string("class B (XML character data)\n") : std::string("class A (valid by construction)\n")) + specToText(spec);
    if (ext != EXT_NONE) {
        c.text += "extension " + std::string(extName(ext)) + ": " + extText + "\n";
        c.cls(std::string("ext:") + extName(ext));
    }
    c.hash = hashStr(c.text);
    c.weight = c.text.size();

    // feature accounting
    int features = 0;
    bool hasUnitChildren = false, hasMulti = false, hasReset = false, hasImport = false, hasMath = false, deep = false;
    for (const auto &u : spec.units) {
        hasUnitChildren = hasUnitChildren || !u.units.empty();
        hasImport = hasImport || u.import >= 0;
    }
    for (const auto &cn : spec.conns) {
        hasMulti = hasMulti || cn.maps.size() >= 2;
    }
    for (size_t i = 0; i < spec.comps.size(); ++i) {
        hasReset = hasReset || !spec.comps[i].resets.empty();
        hasImport = hasImport || spec.comps[i].import >= 0;
        hasMath = hasMath || !spec.comps[i].math.empty();
        deep = deep || spec.depthOf(static_cast<int>(i)) >= 2;
    }
    for (bool f : {hasUnitChildren, hasMulti, hasReset, hasImport, hasMath, deep}) {
        features += f ? 1 : 0;
    }
    std::string unescaped = firstUnescaped(spec);
    if (ext == EXT_WS_CONTROL && unescaped.empty()) {
        unescaped = "ws-control";
    }
    c.nontrivial = features >= 2 || (classB && !unescaped.empty()) || ext != EXT_NONE;
    c.cls(classB ? "class-B" : "class-A");
    if (hasUnitChildren) c.cls("unit-children");
    if (hasMulti) c.cls("multi-map-connection");
    if (hasReset) c.cls("reset");
    if (hasImport) c.cls("import");
    if (hasMath) c.cls("math");
    if (deep) c.cls("encapsulation-depth>=2");
    if (!spec.conns.empty()) c.cls("connection");
    if (!unescaped.empty()) c.cls("needs-escaping");
    c.cls("imports=" + std::to_string(spec.imports.size()));

    const std::string before = dumpModel(m);
    // The validator is consulted lazily (it is expensive: the MathML DTD is parsed per math block): only when a
    // check that is claimed for validator-accepted models fails is the model validated, and the failure is reported
    // only if the validator accepts the model.
    auto validatorAccepts = [&]() {
        auto v = Validator::create();
        v->validateModel(m);
        if (v->issueCount() != 0) {
            c.count("classA_not_validated");
            c.cls("validator-has-issues");
            return false;
        }
        return true;
    };
    auto printer = Printer::create();
    std::string s = printer->printModel(m);
    {
        std::string lg = checkLogger(printer);
        VP_CHECK(c, lg.empty(), "C15.monitor|Printer|" + lg.substr(0, lg.find('|')), lg);
    }
    VP_CHECK(c, dumpModel(m) == before, "C02.input-modified|Printer", firstDiff(before, dumpModel(m)));
    if (s.empty()) {
        c.fail("C02.empty|" + (ext != EXT_NONE ? std::string("ext:") + extName(ext) : (unescaped.empty() ? std::string("no-special-characters") : "unescaped:" + unescaped)),
               "printModel returned an empty string; printer issues: " + dumpIssues(printer));
        return;
    }
    std::string why;
    VP_CHECK(c, wellFormedModel20(s, why), "C02.malformed|" + why, s.substr(0, 600));
    if (nonfinite) {
        // An infinite or undefined exponent / multiplier has no CellML representation ("inf" / "nan" are not real number
        // strings): such a model cannot be in the validator-accepted class. The validator has to say so about these units.
        auto v = Validator::create();
        v->validateModel(m);
        bool reported = false;
        for (size_t i = 0; i < v->issueCount(); ++i) {
            reported = reported || v->issue(i)->description().find("c02_nonfinite") != std::string::npos;
        }
        VP_CHECK(c, reported, "C02.nonfinite|validator-silent", "the validator raises no issue about units c02_nonfinite (" + extText + "), the printed document is not readable:\n" + s.substr(0, 1500));
        return;
    }
    const std::string realsBefore = exactReals(m);
    auto parser = Parser::create(true);
    ModelPtr m2 = parser->parseModel(s);
    {
        std::string lg = checkLogger(parser);
        VP_CHECK(c, lg.empty(), "C15.monitor|Parser|" + lg.substr(0, lg.find('|')), lg);
    }
    VP_CHECK(c, m2 != nullptr, "C02.reparse-null", dumpIssues(parser));
    std::string d2 = dumpModel(m2);
    if (d2 != before) {
        // localisation: which kind of line differs first
        std::string diff = firstDiff(before, d2);
        std::string kind = "other";
        for (const char *k : {"equivalence", "unit ref", "units name", "variable name", "reset id", "component name", "model name", "math="}) {
            if (diff.find(k) != std::string::npos) {
                kind = k;
                break;
            }
        }
        std::string loc = kind;
        if (ext != EXT_NONE) {
            loc += std::string("|ext:") + extName(ext);
        } else if (!unescaped.empty()) {
            loc += "|unescaped:" + unescaped;
        }
        c.fail("C02.content|" + loc, diff + "\n--- printed ---\n" + s.substr(0, 3000));
        return;
    }
    {
        std::string realsAfter = exactReals(m2);
        VP_CHECK(c, realsAfter == realsBefore, "C02.content|unit real value", firstDiff(realsBefore, realsAfter) + "\n--- printed ---\n" + s.substr(0, 3000));
    }
    if (!classB) {
        auto printer2 = Printer::create();
        std::string s2 = printer2->printModel(m2);
        auto parser2 = Parser::create(true);
        ModelPtr m3 = s2.empty() ? nullptr : parser2->parseModel(s2);
        std::string d3 = m3 != nullptr ? dumpModel(m3) : "";
        bool clean = parser->issueCount() == 0 && !s2.empty() && m3 != nullptr && d3 == d2;
        if (!clean && validatorAccepts()) {
            VP_CHECK(c, parser->issueCount() == 0, "C02.parser-issue-on-valid", dumpIssues(parser) + "\n--- printed ---\n" + s.substr(0, 3000));
            VP_CHECK(c, !s2.empty(), "C02.second-print-empty", dumpIssues(printer2));
            VP_CHECK(c, m3 != nullptr, "C02.second-reparse-null", dumpIssues(parser2));
            VP_CHECK(c, d3 == d2, "C02.second-trip", firstDiff(d2, d3));
        }
        c.count("fixed_point_checked");
    }
}

} // namespace

namespace vp {
Property property = {
    "C02",
    "exploration",
    "rapidcheck tapes drive a valid-by-construction CellML 2.0 model generator (class A) and the same shapes with arbitrary XML character data in names/ids/hrefs (class B); "
    "each model is built through the API in a tape-chosen insertion order, printed, checked for well-formedness with libxml2 in the harness, re-parsed strictly and compared by an "
    "independent order-insensitive dump with canonical MathML; validator-clean models additionally need zero parser issues and a second trip that is a fixed point. "
    "Extensions applied through the API to about a third of the cases: encapsulation 255-320 deep, math nested up to the validator's limit, a document with the namespace prefixes declared on <model> read by the parser as the model under test, "
    "exponents / multipliers needing 16-17 digits, non-finite ones, a connection id changed after creation where two mappings share a variable, tab / LF / CR in attribute text. "
    "Non-trivial: at least two of {unit children, connection with >= 2 mappings, reset, import, math, encapsulation depth >= 2}, or (class B) a string that needs escaping, or an extension. Distinct = hash of the spec text.",
    run,
    nullptr,
    {"libxml2 2.13.9 as linked by the baseline build",
     "a model holding an infinite or undefined exponent / multiplier is only required to be reported by the validator (the value has no CellML representation)",
     "exponents and multipliers are compared exactly (hexadecimal float), other doubles to 15 significant digits"},
};
}

// C02 — printing then parsing a model preserves its content (round trip against an independent canonical dump).
#include <libcellml>

#include <libxml/parser.h>
#include <libxml/tree.h>

#include "gen.h"
#include "prop.h"
#include "spec.h"

using namespace vp;
using namespace libcellml;

namespace {

bool needsEscaping(const std::string &s)
{
    return s.find_first_of("&<>\"'") != std::string::npos;
}

// Localisation for the known "no escaping" family: which attribute of the spec first carries a character that needs escaping.
std::string firstUnescaped(const ModelSpec &m)
{
    if (needsEscaping(m.name)) {
        return "model@name";
    }
    if (needsEscaping(m.id) || needsEscaping(m.encId)) {
        return "model@id";
    }
    for (const auto &i : m.imports) {
        if (needsEscaping(i.url)) {
            return "import@href";
        }
        if (needsEscaping(i.id)) {
            return "import@id";
        }
    }
    for (const auto &u : m.units) {
        if (needsEscaping(u.name)) {
            return "units@name";
        }
        if (needsEscaping(u.id)) {
            return "units@id";
        }
        if (needsEscaping(u.importRef)) {
            return "units@units_ref";
        }
        for (const auto &c : u.units) {
            if (needsEscaping(c.ref) || needsEscaping(c.prefix) || needsEscaping(c.id)) {
                return "unit@*";
            }
        }
    }
    for (const auto &c : m.comps) {
        if (needsEscaping(c.name)) {
            return "component@name";
        }
        if (needsEscaping(c.id) || needsEscaping(c.encId)) {
            return "component@id";
        }
        if (needsEscaping(c.importRef)) {
            return "component@component_ref";
        }
        for (const auto &v : c.vars) {
            if (needsEscaping(v.name)) {
                return "variable@name";
            }
            if (needsEscaping(v.id)) {
                return "variable@id";
            }
            if (needsEscaping(v.units)) {
                return "variable@units";
            }
            if (needsEscaping(v.initial)) {
                return "variable@initial_value";
            }
            if (needsEscaping(v.iface)) {
                return "variable@interface";
            }
        }
        for (const auto &r : c.resets) {
            if (needsEscaping(r.id) || needsEscaping(r.testValueId) || needsEscaping(r.resetValueId)) {
                return "reset@id";
            }
        }
    }
    for (const auto &cn : m.conns) {
        if (needsEscaping(cn.id)) {
            return "connection@id";
        }
        for (const auto &mp : cn.maps) {
            if (needsEscaping(mp.id)) {
                return "map_variables@id";
            }
        }
    }
    return "";
}

void silent(void *, const char *, ...)
{
}

bool wellFormedModel20(const std::string &s, std::string &why)
{
    xmlSetGenericErrorFunc(nullptr, silent);
    xmlSetStructuredErrorFunc(nullptr, nullptr);
    xmlDocPtr d = xmlReadMemory(s.c_str(), static_cast<int>(s.size()), "p.xml", nullptr, XML_PARSE_NOERROR | XML_PARSE_NOWARNING | XML_PARSE_NONET);
    if (d == nullptr) {
        why = "not well-formed";
        return false;
    }
    xmlNodePtr r = xmlDocGetRootElement(d);
    bool ok = r != nullptr && std::string(reinterpret_cast<const char *>(r->name)) == "model" && r->ns != nullptr && std::string(reinterpret_cast<const char *>(r->ns->href)) == "http://www.cellml.org/cellml/2.0#";
    if (!ok) {
        why = "root is not {cellml 2.0}model";
    }
    xmlFreeDoc(d);
    return ok;
}

void run(Src &src, Case &c)
{
    xmlKeepBlanksDefault(1); // hidden-state reset (see DESIGN 2.7)
    bool classB = src.flip(25);
    GenOpts opt;
    opt.hostileText = classB;
    ModelSpec spec = genValidModel(src, opt);
    Built b = buildApi(spec, &src);
    ModelPtr m = b.model;
    c.text = (classB ? std::string("class B (XML character data)\n") : std::string("class A (valid by construction)\n")) + specToText(spec);
    c.hash = hashStr(c.text);
    c.weight = c.text.size();

    // feature accounting
    int features = 0;
    bool hasUnitChildren = false, hasMulti = false, hasReset = false, hasImport = false, hasMath = false, deep = false;
    for (const auto &u : spec.units) {
        hasUnitChildren = hasUnitChildren || !u.units.empty();
        hasImport = hasImport || u.import >= 0;
    }
    for (const auto &cn : spec.conns) {
        hasMulti = hasMulti || cn.maps.size() >= 2;
    }
    for (size_t i = 0; i < spec.comps.size(); ++i) {
        hasReset = hasReset || !spec.comps[i].resets.empty();
        hasImport = hasImport || spec.comps[i].import >= 0;
        hasMath = hasMath || !spec.comps[i].math.empty();
        deep = deep || spec.depthOf(static_cast<int>(i)) >= 2;
    }
    for (bool f : {hasUnitChildren, hasMulti, hasReset, hasImport, hasMath, deep}) {
        features += f ? 1 : 0;
    }
    std::string unescaped = firstUnescaped(spec);
    c.nontrivial = features >= 2 || (classB && !unescaped.empty());
    c.cls(classB ? "class-B" : "class-A");
    if (hasUnitChildren) c.cls("unit-children");
    if (hasMulti) c.cls("multi-map-connection");
    if (hasReset) c.cls("reset");
    if (hasImport) c.cls("import");
    if (hasMath) c.cls("math");
    if (deep) c.cls("encapsulation-depth>=2");
    if (!spec.conns.empty()) c.cls("connection");
    if (!unescaped.empty()) c.cls("needs-escaping");
    c.cls("imports=" + std::to_string(spec.imports.size()));

    const std::string before = dumpModel(m);
    // The validator is consulted lazily (it is expensive: the MathML DTD is parsed per math block): only when a
    // check that is claimed for validator-accepted models fails is the model validated, and the failure is reported
    // only if the validator accepts the model.
    auto validatorAccepts = [&]() {
        auto v = Validator::create();
        v->validateModel(m);
        if (v->issueCount() != 0) {
            c.count("classA_not_validated");
            c.cls("validator-has-issues");
            return false;
        }
        return true;
    };
    auto printer = Printer::create();
    std::string s = printer->printModel(m);
    {
        std::string lg = checkLogger(printer);
        VP_CHECK(c, lg.empty(), "C15.monitor|Printer|" + lg.substr(0, lg.find('|')), lg);
    }
    VP_CHECK(c, dumpModel(m) == before, "C02.input-modified|Printer", firstDiff(before, dumpModel(m)));
    if (s.empty()) {
        c.fail("C02.empty|" + (unescaped.empty() ? std::string("no-special-characters") : "unescaped:" + unescaped), "printModel returned an empty string; printer issues: " + dumpIssues(printer));
        return;
    }
    std::string why;
    VP_CHECK(c, wellFormedModel20(s, why), "C02.malformed|" + why, s.substr(0, 600));
    auto parser = Parser::create(true);
    ModelPtr m2 = parser->parseModel(s);
    {
        std::string lg = checkLogger(parser);
        VP_CHECK(c, lg.empty(), "C15.monitor|Parser|" + lg.substr(0, lg.find('|')), lg);
    }
    VP_CHECK(c, m2 != nullptr, "C02.reparse-null", dumpIssues(parser));
    std::string d2 = dumpModel(m2);
    if (d2 != before) {
        // localisation: which kind of line differs first
        std::string diff = firstDiff(before, d2);
        std::string kind = "other";
        for (const char *k : {"equivalence", "unit ref", "units name", "variable name", "reset id", "component name", "model name", "math="}) {
            if (diff.find(k) != std::string::npos) {
                kind = k;
                break;
            }
        }
        std::string loc = kind;
        if (!unescaped.empty()) {
            loc += "|unescaped:" + unescaped;
        }
        c.fail("C02.content|" + loc, diff + "\n--- printed ---\n" + s.substr(0, 3000));
        return;
    }
    if (!classB) {
        auto printer2 = Printer::create();
        std::string s2 = printer2->printModel(m2);
        auto parser2 = Parser::create(true);
        ModelPtr m3 = s2.empty() ? nullptr : parser2->parseModel(s2);
        std::string d3 = m3 != nullptr ? dumpModel(m3) : "";
        bool clean = parser->issueCount() == 0 && !s2.empty() && m3 != nullptr && d3 == d2;
        if (!clean && validatorAccepts()) {
            VP_CHECK(c, parser->issueCount() == 0, "C02.parser-issue-on-valid", dumpIssues(parser) + "\n--- printed ---\n" + s.substr(0, 3000));
            VP_CHECK(c, !s2.empty(), "C02.second-print-empty", dumpIssues(printer2));
            VP_CHECK(c, m3 != nullptr, "C02.second-reparse-null", dumpIssues(parser2));
            VP_CHECK(c, d3 == d2, "C02.second-trip", firstDiff(d2, d3));
        }
        c.count("fixed_point_checked");
    }
}

} // namespace

namespace vp {
Property property = {
    "C02",
    "exploration",
    "rapidcheck tapes drive a valid-by-construction CellML 2.0 model generator (class A) and the same shapes with arbitrary XML character data in names/ids/hrefs (class B); "
    "each model is built through the API in a tape-chosen insertion order, printed, checked for well-formedness with libxml2 in the harness, re-parsed strictly and compared by an "
    "independent order-insensitive dump with canonical MathML; validator-clean models additionally need zero parser issues and a second trip that is a fixed point. "
    "Non-trivial: at least two of {unit children, connection with >= 2 mappings, reset, import, math, encapsulation depth >= 2}, or (class B) a string that needs escaping. Distinct = hash of the spec text.",
    run,
    nullptr,
    {"libxml2 2.13.9 as linked by the baseline build", "tab/newline/carriage return are not generated in attribute text (attribute value normalisation is outside the statement)",
     "doubles compared to 15 significant digits"},
};
}

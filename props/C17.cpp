// C17 — generated code's declared structure matches the analysed model (translation validation of the declarations:
// counts, info tables, buffer sizes, interface/implementation pairing, helper functions, diagnostics, empty code for
// models that are not valid).
#include <libcellml>

#include <libxml/parser.h>

#include <algorithm>
#include <cstring>
#include <functional>

#include "c17_text.h"
#include "gt.h"
#include "gtrun.h"
#include "prop.h"
#include "runner.h"
#include "spec.h"

using namespace vp;
using namespace libcellml;

namespace {

CodeRunner *gRunner = nullptr;

// ---------------------------------------------------------------------------------------------- generator options

const std::vector<Op> &plainOps()
{
    // every operator that needs no helper function in either profile
    static const std::vector<Op> v = {Op::PLUS, Op::MINUS, Op::TIMES, Op::DIVIDE, Op::POWER, Op::ROOT, Op::ABS, Op::EXP, Op::LN, Op::LOG, Op::CEILING, Op::FLOOR, Op::REM,
                                      Op::SIN, Op::COS, Op::TAN, Op::SINH, Op::COSH, Op::TANH, Op::ASIN, Op::ACOS, Op::ATAN, Op::ASINH, Op::ACOSH, Op::ATANH};
    return v;
}

// A small equation "hq<k> = f(op(literals))" with a known, safe value: the coverage quota for helper-requiring operators.
Expr quotaCall(Op op)
{
    auto n = [](double v) { return Expr::cn(v, "dimensionless", numText(v)); };
    switch (op) {
    case Op::XOR:
    case Op::AND:
    case Op::OR: return Expr::make(op, {n(1), n(0)});
    case Op::NOT: return Expr::make(op, {n(0)});
    case Op::MIN:
    case Op::MAX: return Expr::make(op, {n(1.5), n(2)});
    case Op::EQ:
    case Op::NEQ:
    case Op::LT:
    case Op::LEQ:
    case Op::GT:
    case Op::GEQ: return Expr::make(op, {n(1), n(2)});
    case Op::ASEC:
    case Op::ACSC:
    case Op::ACOT:
    case Op::ACSCH:
    case Op::ACOTH: return Expr::make(op, {n(2)});
    default: return Expr::make(op, {n(0.5)}); // sec csc cot sech csch coth asech
    }
}

Expr quotaRhs(Op op, unsigned form)
{
    auto n = [](double v) { return Expr::cn(v, "dimensionless", numText(v)); };
    Expr call = quotaCall(op);
    switch (form) {
    case 0: return call;
    case 1: { // value of the piece that is taken
        Expr e = Expr::make(Op::PIECEWISE, {call, Expr::make(Op::LT, {n(1), n(2)}), n(3)});
        e.hasOtherwise = true;
        return e;
    }
    case 2: { // the otherwise branch, never evaluated: only the text can tell whether the helper exists
        Expr e = Expr::make(Op::PIECEWISE, {n(3), Expr::make(Op::LT, {n(1), n(2)}), call});
        e.hasOtherwise = true;
        return e;
    }
    case 3: // inside a logbase: base = 2 + |call| >= 2 (relational / logical calls are 0 or 1 already; abs() around them would
            // only reproduce the listed -Wabsolute-value finding in every such case)
        return Expr::make(Op::LOG, {Expr::make(Op::PLUS, {n(2), (isRelational(op) || isLogical(op)) ? call : Expr::make(Op::ABS, {call})}), n(3)});
    case 5: // below a unary plus, as the left operand of a comparison: "+(a < b) < c", "+(!a) < c"
        return Expr::make(Op::LT, {Expr::make(Op::PLUS, {call}), n(3)});
    case 6: // ... and as the right operand: "c == +(a < b)"
        return Expr::make(Op::EQ, {n(3), Expr::make(Op::PLUS, {call})});
    case 7: {
        // a logical result used as a number where the compiler can see it: "1.5/not(2)" in a branch that is never evaluated
        // (so Python does not raise); for the other operators two unary pluses in a row
        Expr e = Expr::make(Op::PIECEWISE, {n(3), Expr::make(Op::LT, {n(1), n(2)}), op == Op::NOT ? Expr::make(Op::DIVIDE, {n(1.5), Expr::make(Op::NOT, {n(2)})}) : Expr::make(Op::LT, {Expr::make(Op::PLUS, {Expr::make(Op::PLUS, {call})}), n(3)})});
        e.hasOtherwise = true;
        return e;
    }
    default: // operand of an ordinary operator
        return Expr::make(Op::PLUS, {n(1.5), Expr::make(Op::TIMES, {n(2), call})});
    }
}

void injectQuota(uint64_t where, GtModel &gt, Op op, unsigned form, size_t k)
{
    size_t comp = where % gt.spec.comps.size();
    std::string name = "hq" + std::to_string(k);
    Expr rhs = quotaRhs(op, form);
    EvalEnv env;
    env.var = [](const std::string &) { return std::nan(""); };
    env.diff = [](const std::string &, const std::string &) { return std::nan(""); };
    double v = evalExpr(rhs, env, nullptr);
    VarSpec vs;
    vs.name = name;
    vs.units = "dimensionless";
    gt.spec.comps[comp].vars.push_back(vs);
    GtClass c;
    c.role = GtRole::COMPUTED_CONSTANT;
    GtInstance in;
    in.comp = static_cast<int>(comp);
    in.var = static_cast<int>(gt.spec.comps[comp].vars.size()) - 1;
    in.units = "dimensionless";
    c.inst.push_back(in);
    c.value[0] = c.value[1] = v;
    c.rhs = rhs;
    gt.classes.push_back(c);
    std::pair<Expr, Expr> eq(Expr::ci(name), rhs);
    gt.spec.comps[comp].equations.push_back(eq);
    gt.spec.comps[comp].math.push_back(mathBlock({eq}, 0));
    ++gt.equationCount;
}

// Further NLA systems (the ground-truth generator makes at most one): system s has n unknowns nv<s>_<j> with known values and
// n equations sum_j coef_ij*u_j + sin(u_j) = <the same expression over the values>, which read nothing but literals. A lone
// unknown carries no initial value (the analyser then takes the equation for an NLA equation of that unknown), several
// unknowns carry an initial guess each (the analyser's convention for coupled unknowns). All systems go into one component,
// whose equations are then put in a tape-chosen order - either a permutation of everything or an explicit interleaving of
// the systems' equations - and re-split into math blocks: AnalyserModel::equations() follows document order, so equations of
// different NLA systems end up interleaved.
struct Lcg
{
    uint64_t s;
    uint64_t next(uint64_t n)
    {
        s = s * 6364136223846793005ULL + 1442695040888963407ULL;
        return n <= 1 ? 0 : (s >> 33) % n;
    }
};

void injectNlaSystems(GtModel &gt, size_t systems, uint64_t shape, uint64_t orderSeed, uint64_t layout)
{
    if (systems == 0 || gt.spec.comps.empty()) {
        return;
    }
    auto n = [](double v) { return Expr::cn(v, "dimensionless", numText(v)); };
    const size_t comp = shape % gt.spec.comps.size();
    shape /= 8;
    CompSpec &cs = gt.spec.comps[comp];
    static const double values[] = {1.25, 0.75, 2.5, -0.5, 1.5, 0.3};
    std::vector<std::vector<std::pair<Expr, Expr>>> added;
    for (size_t s = 0; s < systems; ++s) {
        const size_t size = 1 + shape % 3;
        shape /= 3;
        GtNlaSystem sys;
        sys.comp = static_cast<int>(comp);
        std::vector<std::string> names;
        for (size_t j = 0; j < size; ++j) {
            VarSpec vs;
            vs.name = "nv" + std::to_string(s) + "_" + std::to_string(j);
            vs.units = "dimensionless";
            if (size > 1) {
                vs.initial = (j % 2 == 0) ? "1" : "0.5";
            }
            cs.vars.push_back(vs);
            GtClass cl;
            cl.role = GtRole::NLA;
            GtInstance in;
            in.comp = static_cast<int>(comp);
            in.var = static_cast<int>(cs.vars.size()) - 1;
            in.units = "dimensionless";
            cl.inst.push_back(in);
            cl.value[0] = cl.value[1] = values[(s * 3 + j) % 6];
            cl.rhs = n(cl.value[0]);
            cl.nlaSystem = static_cast<int>(gt.nla.size());
            gt.classes.push_back(cl);
            sys.unknowns.push_back(static_cast<int>(gt.classes.size()) - 1);
            names.push_back(vs.name);
        }
        for (size_t i = 0; i < size; ++i) {
            std::vector<Expr> lhs, rhs;
            for (size_t j = 0; j < size; ++j) {
                double coef = 2 + static_cast<double>((i * 3 + j * 5 + s) % 7);
                double v = values[(s * 3 + j) % 6];
                lhs.push_back(Expr::make(Op::PLUS, {Expr::make(Op::TIMES, {n(coef), Expr::ci(names[j])}), Expr::make(Op::SIN, {Expr::ci(names[j])})}));
                rhs.push_back(Expr::make(Op::PLUS, {Expr::make(Op::TIMES, {n(coef), n(v)}), Expr::make(Op::SIN, {n(v)})}));
            }
            Expr F = lhs.size() == 1 ? Expr::make(Op::PLUS, {lhs[0], n(1)}) : Expr::make(Op::PLUS, lhs);
            Expr R = rhs.size() == 1 ? Expr::make(Op::PLUS, {rhs[0], n(1)}) : Expr::make(Op::PLUS, rhs);
            sys.equations.emplace_back(F, R);
        }
        added.push_back(sys.equations);
        gt.nla.push_back(sys);
        gt.equationCount += size;
    }
    // ---- order of the component's equations
    Lcg rng {orderSeed * 2 + 1};
    std::vector<std::pair<Expr, Expr>> eqs;
    if (layout % 2 == 0) {
        // explicit interleaving: round-robin over the new systems, the component's own equations spread in between
        std::vector<std::vector<std::pair<Expr, Expr>>> queues = added;
        queues.push_back(cs.equations);
        size_t left = 0;
        for (const auto &q : queues) {
            left += q.size();
        }
        std::vector<size_t> pos(queues.size(), 0);
        size_t start = rng.next(queues.size());
        for (size_t k = start; left > 0; ++k) {
            size_t q = k % queues.size();
            if (pos[q] < queues[q].size()) {
                eqs.push_back(queues[q][pos[q]++]);
                --left;
            }
        }
    } else {
        eqs = cs.equations;
        for (const auto &a : added) {
            eqs.insert(eqs.end(), a.begin(), a.end());
        }
        for (size_t i = eqs.size(); i > 1; --i) {
            std::swap(eqs[i - 1], eqs[rng.next(i)]);
        }
    }
    for (auto &e : eqs) {
        if (rng.next(4) == 0) {
            std::swap(e.first, e.second);
        }
    }
    cs.equations = eqs;
    cs.math.clear();
    size_t split = ((layout / 2) % 2 == 1 && eqs.size() > 1) ? 1 + rng.next(eqs.size() - 1) : eqs.size();
    std::vector<std::pair<Expr, Expr>> first(eqs.begin(), eqs.begin() + static_cast<long>(split)), second(eqs.begin() + static_cast<long>(split), eqs.end());
    cs.math.push_back(mathBlock(first, static_cast<int>((layout / 4) % 3)));
    if (!second.empty()) {
        cs.math.push_back(mathBlock(second, static_cast<int>((layout / 12) % 3)));
    }
    bool ode = gt.voi >= 0;
    gt.expectedType = ode ? "dae" : "nla";
}

// Degenerate unit scaling: one non-home instance of a connected class gets units "odd_scale" = its old units with
// multiplier 0 / a negative multiplier / a subnormal multiplier / prefix -400. Validator and analyser accept such models (the
// units are compatible); the factor between the equivalent variables is then 0, infinite or not a number. The ground truth's
// values no longer hold for what reads that instance, which is fine here: values are C03's subject.
std::string injectOddScale(GtModel &gt, uint64_t h)
{
    std::vector<std::pair<size_t, size_t>> cand;
    for (size_t k = 0; k < gt.classes.size(); ++k) {
        for (size_t i = 1; i < gt.classes[k].inst.size(); ++i) {
            cand.emplace_back(k, i);
        }
    }
    if (cand.empty()) {
        return "";
    }
    auto pick = cand[h % cand.size()];
    h /= 97;
    GtInstance &in = gt.classes[pick.first].inst[pick.second];
    UnitsSpec us;
    us.name = "odd_scale";
    UnitSpec u;
    u.ref = in.units;
    std::string kind;
    switch (h % 4) {
    case 0: u.multiplier = 0.0; kind = "multiplier-0"; break;
    case 1: u.multiplier = -1.0; kind = "multiplier-negative"; break;
    case 2: u.multiplier = 1e-320; kind = "multiplier-subnormal"; break;
    default: u.prefix = "-400"; kind = "prefix--400"; break;
    }
    us.units.push_back(u);
    gt.spec.units.push_back(us);
    gt.spec.comps[static_cast<size_t>(in.comp)].vars[static_cast<size_t>(in.var)].units = "odd_scale";
    in.units = "odd_scale";
    return kind;
}

// ---------------------------------------------------------------------------------------------- expectations

const char *typeName(AnalyserVariable::Type t)
{
    switch (t) {
    case AnalyserVariable::Type::VARIABLE_OF_INTEGRATION: return "VARIABLE_OF_INTEGRATION";
    case AnalyserVariable::Type::STATE: return "STATE";
    case AnalyserVariable::Type::CONSTANT: return "CONSTANT";
    case AnalyserVariable::Type::COMPUTED_CONSTANT: return "COMPUTED_CONSTANT";
    case AnalyserVariable::Type::ALGEBRAIC: return "ALGEBRAIC";
    case AnalyserVariable::Type::EXTERNAL: return "EXTERNAL";
    }
    return "?";
}

InfoEntry expectedInfo(const AnalyserVariablePtr &av)
{
    InfoEntry e;
    auto v = av->variable();
    e.name = v->name();
    e.units = v->units() != nullptr ? v->units()->name() : "";
    auto comp = std::dynamic_pointer_cast<Component>(v->parent());
    e.component = comp != nullptr ? comp->name() : "";
    e.type = typeName(av->type());
    return e;
}

// the analyser variable of a table whose index() is i (null when none or several)
AnalyserVariablePtr byIndex(const std::vector<AnalyserVariablePtr> &all, size_t i)
{
    AnalyserVariablePtr r;
    for (const auto &a : all) {
        if (a->index() == i) {
            if (r != nullptr) {
                return nullptr;
            }
            r = a;
        }
    }
    return r;
}

struct Expectation
{
    AnalyserModelPtr am;
    bool ode = false, ext = false, nla = false;
    std::set<Op> opsStrict; // operators of the equations the generated code still contains
    std::set<Op> opsLoose; // operators of every equation of the model (before equations of external variables were dropped)
    std::map<size_t, size_t> nlaEquations; // AnalyserEquation::nlaSystemIndex() -> number of NLA equations carrying it
    std::map<size_t, size_t> nlaUnknowns; // ... -> number of unknowns of the system
};

// Compares one info entry; returns the failing field ("" = equal)
std::string infoDiff(const InfoEntry &got, const InfoEntry &want, long *comparisons)
{
    *comparisons += 4;
    if (got.name != want.name) return "name";
    if (got.units != want.units) return "units";
    if (got.component != want.component) return "component";
    if (got.type != want.type) return "type";
    return "";
}

std::string show(const InfoEntry &e)
{
    return "{" + e.name + ", " + e.units + ", " + e.component + ", " + e.type + "}";
}

// Counts and tables reported by an executed module against the analyser model.
void checkTables(Case &c, const std::string &profile, const Expectation &x, const RunResult &r, bool capacities, long *comparisons)
{
    const auto &am = x.am;
    *comparisons += 3;
    VP_CHECK(c, r.hasStateCount == x.ode, "C17.count|" + profile + "|STATE_COUNT-presence", "STATE_COUNT is " << (r.hasStateCount ? "present" : "absent") << " but the model " << (x.ode ? "has" : "has no") << " ODEs");
    if (x.ode) {
        VP_CHECK(c, r.stateCount == am->stateCount(), "C17.count|" + profile + "|STATE_COUNT", "STATE_COUNT = " << r.stateCount << ", AnalyserModel::stateCount() = " << am->stateCount());
    }
    VP_CHECK(c, r.variableCount == am->variableCount(), "C17.count|" + profile + "|VARIABLE_COUNT", "VARIABLE_COUNT = " << r.variableCount << ", AnalyserModel::variableCount() = " << am->variableCount());
    VP_CHECK(c, r.hasVoiInfo == x.ode, "C17.info|" + profile + "|VOI_INFO|presence", "VOI_INFO is " << (r.hasVoiInfo ? "present" : "absent") << " but the model " << (x.ode ? "has" : "has no") << " ODEs");
    auto capOk = [&](const InfoEntry &e, const char *table, size_t i) {
        if (!capacities) {
            return true;
        }
        *comparisons += 3;
        struct F
        {
            const char *field;
            const std::string *s;
            size_t cap;
        } fs[] = {{"name", &e.name, e.nameCap}, {"units", &e.units, e.unitsCap}, {"component", &e.component, e.componentCap}};
        for (const auto &f : fs) {
            if (f.s->size() + 1 > f.cap) {
                c.fail(std::string("C17.buffer|") + table + "|" + f.field, std::string(table) + "[" + std::to_string(i) + "]." + f.field + " holds \"" + *f.s + "\" (" + std::to_string(f.s->size()) + " characters + terminator) in char[" + std::to_string(f.cap) + "]");
                return false;
            }
        }
        return true;
    };
    if (x.ode) {
        InfoEntry want = expectedInfo(am->voi());
        // the expected strings have to fit first: what is read back from an overflowing field runs into the next one
        InfoEntry capE = want;
        capE.nameCap = r.voiInfo.nameCap;
        capE.unitsCap = r.voiInfo.unitsCap;
        capE.componentCap = r.voiInfo.componentCap;
        if (!capOk(capE, "VOI_INFO", 0)) {
            return;
        }
        std::string d = infoDiff(r.voiInfo, want, comparisons);
        VP_CHECK(c, d.empty(), "C17.info|" + profile + "|VOI_INFO|" + d, "VOI_INFO is " << show(r.voiInfo) << ", the analyser's variable of integration is " << show(want));
        VP_CHECK(c, r.stateInfo.size() == am->stateCount(), "C17.info|" + profile + "|STATE_INFO|size", "STATE_INFO has " << r.stateInfo.size() << " entries, the model has " << am->stateCount() << " states");
        for (size_t i = 0; i < am->stateCount(); ++i) {
            auto av = byIndex(am->states(), i);
            VP_CHECK(c, av != nullptr, "C17.analyser|state-index", "no unique state with index() == " << i);
            want = expectedInfo(av);
            capE = want;
            capE.nameCap = r.stateInfo[i].nameCap;
            capE.unitsCap = r.stateInfo[i].unitsCap;
            capE.componentCap = r.stateInfo[i].componentCap;
            if (!capOk(capE, "STATE_INFO", i)) {
                return;
            }
            d = infoDiff(r.stateInfo[i], want, comparisons);
            VP_CHECK(c, d.empty(), "C17.info|" + profile + "|STATE_INFO|" + d, "STATE_INFO[" << i << "] is " << show(r.stateInfo[i]) << ", the state with index " << i << " is " << show(want));
        }
    } else {
        VP_CHECK(c, r.stateInfo.empty(), "C17.info|" + profile + "|STATE_INFO|presence", "STATE_INFO present in a model without ODEs");
    }
    VP_CHECK(c, r.variableInfo.size() == am->variableCount(), "C17.info|" + profile + "|VARIABLE_INFO|size", "VARIABLE_INFO has " << r.variableInfo.size() << " entries, the model has " << am->variableCount() << " variables");
    for (size_t i = 0; i < am->variableCount(); ++i) {
        auto av = byIndex(am->variables(), i);
        VP_CHECK(c, av != nullptr, "C17.analyser|variable-index", "no unique variable with index() == " << i);
        InfoEntry want = expectedInfo(av);
        InfoEntry capE = want;
        capE.nameCap = r.variableInfo[i].nameCap;
        capE.unitsCap = r.variableInfo[i].unitsCap;
        capE.componentCap = r.variableInfo[i].componentCap;
        if (!capOk(capE, "VARIABLE_INFO", i)) {
            return;
        }
        std::string d = infoDiff(r.variableInfo[i], want, comparisons);
        VP_CHECK(c, d.empty(), "C17.info|" + profile + "|VARIABLE_INFO|" + d, "VARIABLE_INFO[" << i << "] is " << show(r.variableInfo[i]) << ", the variable with index " << i << " is " << show(want));
    }
}

std::string showSet(const std::set<std::string> &s)
{
    std::string o = "{";
    for (const auto &e : s) {
        o += (o.size() > 1 ? ", " : "") + e;
    }
    return o + "}";
}

// Helper functions of one profile: defined in the text exactly when needed, never called without being defined, nothing
// defined twice, no function the profile does not know. Helpers of equations that were dropped for external variables are
// reported through Case::alsoFailed so that every other check is still made.
void checkFunctions(Case &c, const std::string &profile, const Expectation &x, const std::string &text, long *comparisons)
{
    const bool isC = profile == "C";
    auto defs = isC ? c17::cDefinitions(text) : c17::pyDefinitions(text);
    std::map<std::string, int> defCount;
    for (const auto &d : defs) {
        ++defCount[d.name];
    }
    for (const auto &d : defCount) {
        ++*comparisons;
        VP_CHECK(c, d.second == 1, "C17.function|defined-twice|" + profile, "function " << d.first << " is defined " << d.second << " times\n--- implementation ---\n" << text.substr(0, 8000));
    }
    std::set<std::string> helperNames, wantStrict, wantLoose;
    for (const auto &h : c17::helpers()) {
        const char *n = isC ? h.cName : h.pyName;
        if (n == nullptr) {
            continue;
        }
        helperNames.insert(n);
        if (x.opsStrict.count(h.op) != 0) {
            wantStrict.insert(n);
        }
        if (x.opsLoose.count(h.op) != 0) {
            wantLoose.insert(n);
        }
    }
    // the interface / NLA functions
    std::set<std::string> structural;
    if (isC) {
        for (const auto &f : c17::expectedCInterface(x.ode, x.ext)) {
            structural.insert(f.name);
        }
    } else {
        for (const auto &f : c17::expectedPyInterface(x.ode, x.ext)) {
            structural.insert(f.name);
        }
    }
    std::set<std::string> defined;
    for (const auto &d : defCount) {
        if (helperNames.count(d.first) != 0) {
            defined.insert(d.first);
        } else if (structural.count(d.first) == 0) {
            bool nlaFn = x.nla && (d.first.rfind(isC ? "objectiveFunction" : "objective_function_", 0) == 0 || d.first.rfind(isC ? "findRoot" : "find_root_", 0) == 0);
            VP_CHECK(c, nlaFn, "C17.function|unexpected|" + profile, "the implementation defines " << d.first << ", which is neither part of the interface, nor an NLA function of a model with NLA systems, nor a helper\n--- implementation ---\n" << text.substr(0, 8000));
        }
    }
    // one objective function / root finder per NLA system index the AnalyserModel reports - no more, no fewer - with one
    // f[] entry per NLA equation of that system and room for each of its unknowns
    {
        const std::string objP = isC ? "objectiveFunction" : "objective_function_", rootP = isC ? "findRoot" : "find_root_";
        std::set<std::string> wantNla, gotNla;
        for (const auto &k : x.nlaEquations) {
            wantNla.insert(objP + std::to_string(k.first));
            wantNla.insert(rootP + std::to_string(k.first));
        }
        for (const auto &d : defCount) {
            if (d.first.rfind(objP, 0) == 0 || d.first.rfind(rootP, 0) == 0) {
                gotNla.insert(d.first);
            }
        }
        ++*comparisons;
        VP_CHECK(c, wantNla == gotNla, "C17.nla|functions-vs-systems|" + profile, "the AnalyserModel reports NLA system indices that call for " << showSet(wantNla) << ", the implementation defines " << showSet(gotNla) << "\n--- implementation ---\n" << text.substr(0, 8000));
        std::vector<std::string> ls;
        {
            std::istringstream in(text);
            std::string l;
            while (std::getline(in, l)) {
                ls.push_back(l);
            }
        }
        auto bodyOf = [&](const std::string &name) {
            std::vector<std::string> body;
            for (const auto &d : defs) {
                if (d.name != name) {
                    continue;
                }
                for (size_t i = 0; i < ls.size(); ++i) {
                    if (ls[i] != d.line) {
                        continue;
                    }
                    for (size_t k = i + 1; k < ls.size(); ++k) {
                        if (!ls[k].empty() && ls[k][0] != ' ' && ls[k] != "{") {
                            break; // C: the closing brace; Python: the next top-level statement
                        }
                        body.push_back(ls[k]);
                    }
                    return body;
                }
            }
            return body;
        };
        for (const auto &k : x.nlaEquations) {
            const std::string idx = std::to_string(k.first);
            size_t fLines = 0;
            for (const auto &l : bodyOf(objP + idx)) {
                if (l.rfind("    f[", 0) == 0) {
                    ++fLines;
                }
            }
            *comparisons += 2;
            VP_CHECK(c, fLines == k.second, "C17.nla|objective-size|" + profile, objP << idx << " assigns " << fLines << " entries of f, NLA system " << idx << " has " << k.second << " equations\n--- implementation ---\n" << text.substr(0, 8000));
            const size_t unknowns = x.nlaUnknowns.at(k.first);
            const std::string call = objP + idx + ", u, " + std::to_string(unknowns) + ",";
            const std::string decl = isC ? "double u[" + std::to_string(unknowns) + "];" : "u = [nan]*" + std::to_string(unknowns);
            bool hasCall = false, hasDecl = false;
            for (const auto &l : bodyOf(rootP + idx)) {
                hasCall = hasCall || l.find(call) != std::string::npos;
                hasDecl = hasDecl || l.find(decl) != std::string::npos;
            }
            VP_CHECK(c, hasCall && hasDecl, "C17.nla|root-finder-size|" + profile, rootP << idx << " does not hand " << objP << idx << " and " << unknowns << " unknowns to the solver\n--- implementation ---\n" << text.substr(0, 8000));
        }
    }
    for (const auto &s : structural) {
        ++*comparisons;
        VP_CHECK(c, defCount.count(s) != 0, "C17.function|missing|" + profile + "|" + s, "the implementation does not define " << s << "\n--- implementation ---\n" << text.substr(0, 8000));
    }
    // called => defined (Python evaluates lazily and shadows min/max with builtins: only the text can tell)
    auto called = c17::calledNames(text, helperNames, isC);
    for (const auto &n : called) {
        ++*comparisons;
        VP_CHECK(c, defined.count(n) != 0, "C17.helper|called-undefined|" + profile + "|" + n, "helper " << n << " is called but not defined\n--- implementation ---\n" << text.substr(0, 8000));
    }
    *comparisons += static_cast<long>(helperNames.size());
    for (const auto &n : wantStrict) {
        VP_CHECK(c, defined.count(n) != 0, "C17.helper|missing|" + profile + "|" + n, "an equation uses an operator that needs helper " << n << " in the " << profile << " profile, but the helper is not defined; defined " << showSet(defined) << ", needed " << showSet(wantStrict) << "\n--- implementation ---\n" << text.substr(0, 8000));
    }
    for (const auto &n : defined) {
        if (wantStrict.count(n) != 0) {
            continue;
        }
        const bool onlyDropped = x.ext && wantLoose.count(n) != 0;
        std::ostringstream m;
        m << "helper " << n << " is defined in the " << profile << " implementation but no equation of the generated code uses it"
          << (onlyDropped ? " (its only uses are in equations that were replaced by calls of the external-variable callback)" : "") << "; defined " << showSet(defined) << ", needed " << showSet(wantStrict)
          << ", called in the text " << showSet(called) << "\n--- implementation ---\n"
          << text.substr(0, 8000);
        if (onlyDropped) {
            // a listed finding: recorded, and every other check still runs
            c.alsoFailed.emplace_back("C17.helper|emitted-unused|externals", m.str());
        } else {
            c.fail("C17.helper|emitted-unused|" + profile + "|" + n, m.str());
            return;
        }
    }
    // text-level cross check of the oracle itself: what is defined is called (harness sanity; also catches a helper the
    // oracle wrongly expects)
    for (const auto &n : defined) {
        if (wantStrict.count(n) != 0) {
            VP_CHECK(c, called.count(n) != 0, "C17.helper|defined-not-called|" + profile + "|" + n, "helper " << n << " is expected and defined, yet never called in the text\n--- implementation ---\n" << text.substr(0, 8000));
        }
    }
}

void checkEmpty(Case &c, const AnalyserModelPtr &am, const std::string &why, long *comparisons)
{
    std::string type = am != nullptr ? AnalyserModel::typeAsString(am->type()) : "null";
    c.cls("nonvalid:" + type);
    c.cls("nonvalid-by:" + why);
    for (int p = 0; p < 2; ++p) {
        auto gen = Generator::create();
        if (p == 1) {
            gen->setProfile(GeneratorProfile::create(GeneratorProfile::Profile::PYTHON));
        }
        // a generator that still holds text from a valid model must not leak it either: covered by setModel below
        gen->setModel(am);
        std::string iface = gen->interfaceCode(), impl = gen->implementationCode();
        *comparisons += 2;
        const char *prof = p == 0 ? "C" : "Python";
        VP_CHECK(c, iface.empty(), std::string("C17.nonvalid|code-not-empty|") + type + "|" + prof + "/interface", "interfaceCode() is not empty for a " << type << " analyser model (" << why << "):\n" << iface.substr(0, 2000));
        VP_CHECK(c, impl.empty(), std::string("C17.nonvalid|code-not-empty|") + type + "|" + prof + "/implementation", "implementationCode() is not empty for a " << type << " analyser model (" << why << "):\n" << impl.substr(0, 2000));
    }
    c.count("nonvalid-models");
}

std::string issuesOf(const AnalyserPtr &a)
{
    std::string o;
    for (size_t i = 0; i < a->issueCount() && i < 6; ++i) {
        o += "  " + a->issue(i)->description() + "\n";
    }
    return o;
}

void run(Src &src, Case &c)
{
    xmlKeepBlanksDefault(1);
    if (gRunner == nullptr) {
        gRunner = new CodeRunner();
    }
    // ---- plan (drawn first)
    const unsigned kind = static_cast<unsigned>(src.below(10)); // 0..6 valid model, 7 drop an equation, 8 duplicate definition, 9 other non-valid
    const unsigned extPlan = static_cast<unsigned>(src.below(5)); // 0..2 none, 3 one, 4 two external variables
    const unsigned poolMode = static_cast<unsigned>(src.below(4)); // 0 no helper operator, 1 a few, 2 trigonometric helpers, 3 every operator
    const size_t quota = src.below(4);
    const unsigned sub = static_cast<unsigned>(src.below(6));
    // raw numbers for the choices that can only be made once the model exists (drawn now so that short tapes still vary them)
    uint64_t rnd[8];
    for (auto &r : rnd) {
        r = src.below(1u << 20);
    }
    const auto &H = c17::helpers();
    GtOptions opt;
    if (poolMode != 3) {
        opt.operatorPool = plainOps();
        opt.operatorPool.push_back(Op::PIECEWISE);
        if (poolMode == 1) {
            size_t k = 1 + src.below(5);
            for (size_t i = 0; i < k; ++i) {
                opt.operatorPool.push_back(H[src.below(H.size())].op);
            }
        } else if (poolMode == 2) {
            for (const auto &h : H) {
                if (isTrig(h.op)) {
                    opt.operatorPool.push_back(h.op);
                }
            }
        }
    }
    std::vector<std::pair<Op, unsigned>> quotaOps;
    for (size_t i = 0; i < quota; ++i) {
        Op op = H[src.below(H.size())].op;
        quotaOps.emplace_back(op, static_cast<unsigned>(src.below(8)));
        quotaOps.back().second += static_cast<unsigned>(src.below(4)) * 8; // component choice, packed
    }

    // unary pluses around sub-expressions (content-hash driven in the generator, no tape reads); `sub` is otherwise only used by
    // the non-valid variants
    opt.unaryPlus = kind < 7 && sub % 2 == 1;
    GtModel gt = genGroundTruthModel(src, opt);
    for (size_t i = 0; i < quotaOps.size(); ++i) {
        injectQuota(quotaOps[i].second / 8, gt, quotaOps[i].first, quotaOps[i].second % 8, i);
    }
    // further NLA systems, interleaved with each other and with the component's equations (valid-model cases only: rnd[0..3]
    // are otherwise used by the non-valid variants): 0..3 none, 4..5 one, 6..7 two
    const size_t extraNla = kind < 7 ? (rnd[0] % 8 < 4 ? 0 : (rnd[0] % 8 < 6 ? 1 : 2)) : 0;
    injectNlaSystems(gt, extraNla, rnd[1], rnd[2], rnd[3]);
    // degenerate scaling between connected variables in 1 of 10 valid-model cases (decided by a content hash: no tape read)
    std::string oddScale;
    if (kind < 7) {
        uint64_t hh = hashStr("odd-scale:" + specToText(gt.spec));
        if (hh % 10 == 0) {
            oddScale = injectOddScale(gt, hh / 10);
        }
    }
    for (const auto &k : gt.counters) {
        c.count("gen:" + k.first, k.second);
    }
    long comparisons = 0;

    // ---- models that are not valid
    std::string mutation;
    if (kind >= 7) {
        auto rebuildMath = [&](CompSpec &cs) {
            cs.math.clear();
            if (!cs.equations.empty()) {
                cs.math.push_back(mathBlock(cs.equations, 0));
            }
        };
        std::vector<size_t> withEq;
        for (size_t i = 0; i < gt.spec.comps.size(); ++i) {
            if (!gt.spec.comps[i].equations.empty()) {
                withEq.push_back(i);
            }
        }
        auto dropEquation = [&]() {
            if (withEq.empty()) {
                return false;
            }
            CompSpec &cs = gt.spec.comps[withEq[rnd[0] % withEq.size()]];
            cs.equations.erase(cs.equations.begin() + static_cast<long>(rnd[1] % cs.equations.size()));
            rebuildMath(cs);
            return true;
        };
        auto duplicateDefinition = [&]() {
            std::vector<size_t> cand;
            for (size_t k = 0; k < gt.classes.size(); ++k) {
                if (gt.classes[k].role != GtRole::VOI) {
                    cand.push_back(k);
                }
            }
            if (cand.empty()) {
                return false;
            }
            const GtClass &cl = gt.classes[cand[rnd[2] % cand.size()]];
            const GtInstance &in = cl.inst[rnd[3] % cl.inst.size()];
            CompSpec &cs = gt.spec.comps[static_cast<size_t>(in.comp)];
            cs.equations.emplace_back(Expr::ci(cs.vars[static_cast<size_t>(in.var)].name), Expr::cn(1.0, in.units, "1"));
            rebuildMath(cs);
            return true;
        };
        if (kind == 7) {
            mutation = dropEquation() ? "dropped-equation" : "";
        } else if (kind == 8) {
            mutation = duplicateDefinition() ? "duplicate-definition" : "";
        } else {
            switch (sub) {
            case 0: mutation = "null-model"; break;
            case 1: mutation = "fresh-analyser-model"; break;
            case 2: mutation = "empty-model"; break;
            case 3: {
                // a variable without units: the validator rejects the model
                auto &cs = gt.spec.comps[rnd[0] % gt.spec.comps.size()];
                if (!cs.vars.empty()) {
                    cs.vars[rnd[1] % cs.vars.size()].units = "";
                    mutation = "variable-without-units";
                }
                break;
            }
            case 4: mutation = (dropEquation() && duplicateDefinition()) ? "dropped-and-duplicate" : ""; break;
            default: {
                // the variable of integration gets an initial value
                if (gt.voi >= 0) {
                    const auto &in = gt.classes[static_cast<size_t>(gt.voi)].inst[0];
                    gt.spec.comps[static_cast<size_t>(in.comp)].vars[static_cast<size_t>(in.var)].initial = "0";
                    mutation = "initialised-voi";
                }
                break;
            }
            }
        }
    }

    Built b = buildApi(gt.spec);
    c.text = "kind=" + std::to_string(kind) + " mutation=" + (mutation.empty() ? "none" : mutation) + " pool=" + std::to_string(poolMode) + " quota=" + std::to_string(quota) + " extra-nla=" + std::to_string(extraNla) + " unary-plus=" + std::to_string(opt.unaryPlus ? 1 : 0) + " odd-scale=" + (oddScale.empty() ? "none" : oddScale) + "\n" + specToText(gt.spec) + "\n" + gt.describe();
    c.weight = c.text.size();

    if (mutation == "null-model" || mutation == "fresh-analyser-model" || mutation == "empty-model") {
        c.hash = hashStr(mutation);
        AnalyserModelPtr am;
        if (mutation == "fresh-analyser-model") {
            am = Analyser::create()->model();
            VP_CHECK(c, am != nullptr && am->type() == AnalyserModel::Type::UNKNOWN, "C17.harness|fresh-analyser-model", "a new analyser's model is expected to be of type UNKNOWN");
        } else if (mutation == "empty-model") {
            auto a = Analyser::create();
            a->analyseModel(Model::create("empty"));
            am = a->model();
        }
        checkEmpty(c, am, mutation, &comparisons);
        c.count("comparisons", comparisons);
        return;
    }

    auto analyser = Analyser::create();
    analyser->analyseModel(b.model);
    auto am = analyser->model();
    if (!mutation.empty()) {
        c.hash = hashStr(c.text);
        if (am == nullptr || !am->isValid()) {
            checkEmpty(c, am, mutation, &comparisons);
            c.count("comparisons", comparisons);
            return;
        }
        c.count("mutation-still-valid:" + mutation);
        c.cls("mutation-still-valid");
        // the mutated model is valid for the analyser: it no longer corresponds to the ground truth, nothing to check here
        return;
    }
    std::string type = am != nullptr ? AnalyserModel::typeAsString(am->type()) : "null";
    if (am == nullptr || !am->isValid()) {
        // whether the classification of this valid-by-construction model is right is C05's claim; here the code must be empty
        c.hash = hashStr(c.text);
        c.count("not-analysed-as-valid");
        c.cls("expected:" + gt.expectedType + "/got:" + type);
        checkEmpty(c, am, "unexpected", &comparisons);
        c.count("comparisons", comparisons);
        return;
    }

    // ---- external variables: chosen among the states and variables of the analysed model
    std::set<int> extClasses;
    std::string extText;
    if (extPlan >= 3) {
        GtMapping m0;
        if (!mapAnalyserModel(am, gt, m0)) {
            c.fail("C17.mapping|" + m0.problem.substr(0, 40), m0.problem);
            return;
        }
        std::vector<std::pair<int, int>> all = m0.states;
        all.insert(all.end(), m0.vars.begin(), m0.vars.end());
        size_t want = extPlan - 2;
        auto analyser2 = Analyser::create();
        for (size_t k = 0; k < want && !all.empty(); ++k) {
            auto ci = all[rnd[4 + k] % all.size()];
            const GtClass &cl = gt.classes[static_cast<size_t>(ci.first)];
            size_t inst = static_cast<size_t>(ci.second);
            if (cl.inst.size() > 1 && (rnd[6 + k] % 100) < 20) {
                inst = (rnd[6 + k] / 100) % cl.inst.size(); // possibly not the primary variable: the analyser is documented to use the primary one
                if (inst != static_cast<size_t>(ci.second)) {
                    c.cls("external-via-equivalent");
                }
            }
            const auto &in = cl.inst[inst];
            auto v = b.vars[static_cast<size_t>(in.comp)][static_cast<size_t>(in.var)];
            analyser2->addExternalVariable(AnalyserExternalVariable::create(v));
            extClasses.insert(ci.first);
            extText += " " + gt.spec.comps[static_cast<size_t>(in.comp)].name + "." + v->name() + "(" + gtRoleName(cl.role) + ")";
            c.cls(std::string("external-role:") + gtRoleName(cl.role));
            if (cl.role == GtRole::NLA && cl.nlaSystem >= 0 && gt.nla[static_cast<size_t>(cl.nlaSystem)].unknowns.size() > 1) {
                // one external unknown of a coupled system leaves more equations than unknowns (the library calls that
                // overconstrained): mark the whole system external instead, which drops its equations
                for (int u : gt.nla[static_cast<size_t>(cl.nlaSystem)].unknowns) {
                    if (extClasses.insert(u).second) {
                        const auto &ui = gt.classes[static_cast<size_t>(u)].inst[0];
                        auto uv = b.vars[static_cast<size_t>(ui.comp)][static_cast<size_t>(ui.var)];
                        analyser2->addExternalVariable(AnalyserExternalVariable::create(uv));
                        extText += " " + gt.spec.comps[static_cast<size_t>(ui.comp)].name + "." + uv->name() + "(nla_unknown)";
                    }
                }
                c.cls("external-whole-nla-system");
            }
        }
        analyser2->analyseModel(b.model);
        analyser = analyser2;
        am = analyser->model();
        c.text += "\nexternal variables:" + extText;
        type = am != nullptr ? AnalyserModel::typeAsString(am->type()) : "null";
        if (am == nullptr || !am->isValid()) {
            c.hash = hashStr(c.text);
            c.cls("externals-made-model-nonvalid");
            checkEmpty(c, am, "externals", &comparisons);
            c.count("comparisons", comparisons);
            return;
        }
    }
    c.hash = hashStr(c.text);
    c.cls("type:" + type);
    c.cls("externals:" + std::to_string(std::min<size_t>(extClasses.size(), 3)) + (extClasses.size() >= 3 ? "+" : ""));

    GtMapping map;
    if (!mapAnalyserModel(am, gt, map)) {
        c.fail("C17.mapping|" + map.problem.substr(0, 40), map.problem);
        return;
    }
    Expectation x;
    x.am = am;
    x.ode = am->type() == AnalyserModel::Type::ODE || am->type() == AnalyserModel::Type::DAE;
    x.nla = am->type() == AnalyserModel::Type::NLA || am->type() == AnalyserModel::Type::DAE;
    x.ext = am->hasExternalVariables();
    VP_CHECK(c, x.ext == !extClasses.empty(), "C17.analyser|hasExternalVariables", "hasExternalVariables() = " << x.ext << " with " << extClasses.size() << " variables marked external");
    VP_CHECK(c, x.ode == (am->voi() != nullptr), "C17.analyser|voi-vs-type", "model type " << type << " but voi() is " << (am->voi() != nullptr ? "set" : "null"));

    // operators of the equations: all of them, and those left once the equations computing external variables are gone
    for (size_t k = 0; k < gt.classes.size(); ++k) {
        const GtClass &cl = gt.classes[k];
        if (cl.role == GtRole::COMPUTED_CONSTANT || cl.role == GtRole::ALGEBRAIC || cl.role == GtRole::STATE) {
            c17::collectOps(cl.rhs, x.opsLoose);
            if (extClasses.count(static_cast<int>(k)) == 0) {
                c17::collectOps(cl.rhs, x.opsStrict);
            }
        }
    }
    for (const auto &sys : gt.nla) {
        bool allExternal = true;
        for (int u : sys.unknowns) {
            allExternal = allExternal && extClasses.count(u) != 0;
        }
        for (const auto &e : sys.equations) {
            c17::collectOps(e.first, x.opsLoose);
            c17::collectOps(e.second, x.opsLoose);
            if (!allExternal) {
                c17::collectOps(e.first, x.opsStrict);
                c17::collectOps(e.second, x.opsStrict);
            }
        }
    }
    {
        // the same set read from the equations of the spec (a top-level eq is the pair itself, so it is never collected)
        std::set<Op> fromSpec;
        for (const auto &cs : gt.spec.comps) {
            for (const auto &e : cs.equations) {
                c17::collectOps(e.first, fromSpec);
                c17::collectOps(e.second, fromSpec);
            }
        }
        fromSpec.erase(Op::DIFF);
        std::set<Op> loose = x.opsLoose;
        loose.erase(Op::DIFF);
        VP_CHECK(c, fromSpec == loose, "C17.harness|operator-sets", "operators of the spec's equations and of the ground truth's defining expressions differ");
    }
    size_t helperOps = 0;
    for (const auto &h : H) {
        if (x.opsStrict.count(h.op) != 0) {
            ++helperOps;
            c.cls(std::string("helper:") + h.pyName);
        }
    }
    c.cls(helperOps == 0 ? "helpers:0" : helperOps <= 2 ? "helpers:1-2" : helperOps <= 5 ? "helpers:3-5" : "helpers:6+");
    c.nontrivial = (am->stateCount() > 0 || x.nla || x.ext) && helperOps > 0;
    if (x.nla) c.cls("nla-system");
    if (opt.unaryPlus) c.cls("unary-plus-on");
    if (!oddScale.empty()) {
        c.cls("odd-scale");
        c.cls("odd-scale:" + oddScale);
    }
    {
        // NLA systems as the AnalyserModel reports them, in the order of AnalyserModel::equations()
        std::vector<size_t> order;
        for (const auto &e : am->equations()) {
            if (e->type() == AnalyserEquation::Type::NLA) {
                ++x.nlaEquations[e->nlaSystemIndex()];
                x.nlaUnknowns[e->nlaSystemIndex()] = e->variableCount();
                order.push_back(e->nlaSystemIndex());
            }
        }
        VP_CHECK(c, x.nla == !x.nlaEquations.empty(), "C17.analyser|nla-type-vs-equations", "model type " << type << " with " << order.size() << " NLA equations");
        bool multi = false, interleaved = false;
        for (const auto &k : x.nlaEquations) {
            multi = multi || k.second >= 2;
        }
        std::set<size_t> closed;
        for (size_t i = 0; i < order.size(); ++i) {
            if (i > 0 && order[i] != order[i - 1]) {
                closed.insert(order[i - 1]);
            }
            interleaved = interleaved || closed.count(order[i]) != 0;
        }
        if (x.nlaEquations.size() >= 2) c.cls("nla-systems>=2");
        if (multi) c.cls("nla-multi-equation-system");
        if (interleaved) c.cls("nla-systems-interleaved");
    }
    if (gt.spec.comps.size() > 1) c.cls("multi-component");

    bool hasUnaryPlus = false;
    {
        std::function<void(const Expr &)> walk = [&](const Expr &e) {
            hasUnaryPlus = hasUnaryPlus || (e.op == Op::PLUS && e.kids.size() == 1);
            for (const auto &k : e.kids) {
                walk(k);
            }
        };
        for (const auto &cs : gt.spec.comps) {
            for (const auto &e : cs.equations) {
                walk(e.first);
                walk(e.second);
            }
        }
    }
    if (hasUnaryPlus) c.cls("unary-plus-in-model");
    RunPlan plan = makeRunPlan(gt, map);
    plan.externals = x.ext;
    for (size_t i = 0; i < am->variableCount(); ++i) {
        if (am->variable(i)->type() == AnalyserVariable::Type::EXTERNAL && map.vars[i].first >= 0) {
            for (int pt = 0; pt < 2; ++pt) {
                plan.externalValues[pt].emplace_back(i, gt.instanceValue(map.vars[i].first, map.vars[i].second, pt));
            }
        }
    }

    // ---- C profile
    {
        auto gen = Generator::create();
        gen->setModel(am);
        std::string iface = gen->interfaceCode(), impl = gen->implementationCode();
        VP_CHECK(c, !iface.empty() && !impl.empty(), "C17.empty-code|C", "generator returned empty C code for a valid analyser model");
        RunResult rc;
        std::string warnings;
        if (!gRunner->runC(iface, impl, plan, rc, &warnings)) {
            const bool compile = rc.error.rfind("model.c does not compile", 0) == 0;
            c.fail(!oddScale.empty() && compile ? "C17.nonfinite-scaling|C" : "C17.run|C|" + rc.error.substr(0, 30), rc.error + "\n--- interface ---\n" + iface.substr(0, 4000) + "\n--- implementation ---\n" + impl.substr(0, 8000));
            return;
        }
        c.count("programs");
        // diagnostics
        std::set<std::string> flags;
        auto bad = c17::forbiddenDiagnostics(warnings, &flags);
        ++comparisons;
        for (const auto &f : flags) {
            // one failure per kind of diagnostic (each is matched against the known findings on its own); the other checks still run
            std::string first;
            for (const auto &l : bad) {
                if (first.empty() && l.find("[" + f + "]") != std::string::npos) {
                    first = l;
                }
            }
            c.cls("diag:" + f);
            // the two parenthesisation diagnostics have been repaired for plain operands; what is left needs a unary plus in
            // between, so a model that contains one gets its own (listed) signature and a regression of the repair stays visible
            const bool paren = f == "-Wparentheses" || f == "-Wlogical-not-parentheses";
            // ... and "&& within ||" below a unary plus is a shape of its own (not covered by the repair of the comparison rule)
            const bool andInOr = (first.empty() ? bad[0] : first).find("'&&' within '||'") != std::string::npos;
            c.alsoFailed.emplace_back("C17.diagnostic|" + f + (paren && hasUnaryPlus ? "|with-unary-plus" : "") + (paren && hasUnaryPlus && andInOr ? "|and-in-or" : ""), "cc -std=c99 -Wall -Wextra reports " + std::to_string(bad.size()) + " diagnostics other than unused-parameter / unused-variable, first of this kind: " + (first.empty() ? bad[0] : first) + "\n--- implementation ---\n" + impl.substr(0, 8000));
        }
        if (warnings.find("[-Wunused-parameter]") != std::string::npos) c.cls("diag:unused-parameter");
        if (warnings.find("[-Wunused-variable]") != std::string::npos) c.cls("diag:unused-variable");
        // counts and tables
        checkTables(c, "C", x, rc, true, &comparisons);
        if (!c.ok) return;
        // the tables have exactly as many initialisers as the counts say (the driver can only read COUNT entries)
        if (x.ode) {
            long n = c17::tableEntries(impl, "const VariableInfo STATE_INFO[] = {");
            ++comparisons;
            VP_CHECK(c, n == static_cast<long>(am->stateCount()), "C17.info|C|STATE_INFO|initialisers", "STATE_INFO[] has " << n << " initialisers in the text, the model has " << am->stateCount() << " states");
        }
        {
            long n = c17::tableEntries(impl, "const VariableInfo VARIABLE_INFO[] = {");
            ++comparisons;
            VP_CHECK(c, n == static_cast<long>(am->variableCount()), "C17.info|C|VARIABLE_INFO|initialisers", "VARIABLE_INFO[] has " << n << " initialisers in the text, the model has " << am->variableCount() << " variables");
        }
        // interface: what model.h declares is what the (ODE, externals) combination calls for ...
        auto declared = c17::cPrototypes(iface);
        auto expected = c17::expectedCInterface(x.ode, x.ext);
        std::set<std::string> dn, en;
        for (const auto &f : declared) dn.insert(f.name);
        for (const auto &f : expected) en.insert(f.name);
        ++comparisons;
        VP_CHECK(c, dn == en && declared.size() == expected.size(), "C17.interface|declared-set", "model.h declares " << showSet(dn) << " (" << declared.size() << " prototypes), expected " << showSet(en) << "\n--- interface ---\n" << iface.substr(0, 4000));
        auto defs = c17::cDefinitions(impl);
        for (const auto &d : declared) {
            // ... every declared function is defined once with the declared parameter types (the compiler has already
            // accepted model.c, which includes model.h; this is the same statement read off the text) ...
            const c17::FuncText *def = nullptr;
            int n = 0;
            for (const auto &f : defs) {
                if (f.name == d.name) {
                    def = &f;
                    ++n;
                }
            }
            comparisons += 2;
            VP_CHECK(c, n == 1, "C17.interface|defined-once|" + d.name, d.name << " is declared in model.h and defined " << n << " times in model.c");
            VP_CHECK(c, def->ret == d.ret && def->params == d.params, "C17.interface|signature|" + d.name, "declared as '" << d.line << "' but defined as '" << def->line << "'");
            for (const auto &e : expected) {
                if (e.name == d.name) {
                    ++comparisons;
                    VP_CHECK(c, e.ret == d.ret && e.params == d.params, "C17.interface|signature-for-model-type|" + d.name, "'" << d.line << "' declared for a model with" << (x.ode ? "" : "out") << " ODEs and with" << (x.ext ? "" : "out") << " external variables; expected (" << c17::joinParams(e.params) << ")");
                }
            }
        }
        // ... and can have its address taken with the expected type and links (definition present in the object)
        std::string probe = c17::addressProbe(gRunner->dir, declared, expected, x.nla);
        ++comparisons;
        VP_CHECK(c, probe.empty(), "C17.probe|address-of-declared-function", "the address-taking probe does not compile / link: " << probe << "\n--- interface ---\n" << iface.substr(0, 4000));
        checkFunctions(c, "C", x, impl, &comparisons);
        if (!c.ok) return;
        // enumerators: EXTERNAL exists iff there are external variables, VARIABLE_OF_INTEGRATION / STATE iff ODEs
        comparisons += 2;
        bool hasExternalEnum = iface.find("    EXTERNAL\n") != std::string::npos;
        bool hasStateEnum = iface.find("    STATE,\n") != std::string::npos && iface.find("    VARIABLE_OF_INTEGRATION,\n") != std::string::npos;
        VP_CHECK(c, hasExternalEnum == x.ext, "C17.interface|enumerator|EXTERNAL", "enumerator EXTERNAL " << (hasExternalEnum ? "present" : "absent") << " with " << extClasses.size() << " external variables");
        VP_CHECK(c, hasStateEnum == x.ode, "C17.interface|enumerator|STATE", "enumerators VARIABLE_OF_INTEGRATION / STATE " << (hasStateEnum ? "present" : "absent") << " in a model of type " << type);
        bool hasExtTypedef = iface.find("typedef double (* ExternalVariable)(") != std::string::npos;
        VP_CHECK(c, hasExtTypedef == x.ext, "C17.interface|typedef|ExternalVariable", "typedef ExternalVariable " << (hasExtTypedef ? "present" : "absent") << " with " << extClasses.size() << " external variables");
    }
    // ---- Python profile
    {
        auto gen = Generator::create();
        gen->setProfile(GeneratorProfile::create(GeneratorProfile::Profile::PYTHON));
        gen->setModel(am);
        std::string iface = gen->interfaceCode(), impl = gen->implementationCode();
        VP_CHECK(c, iface.empty(), "C17.python-interface-not-empty", "the Python profile has no interface, interfaceCode() returned text");
        VP_CHECK(c, !impl.empty(), "C17.empty-code|Python", "generator returned empty Python code for a valid analyser model");
        RunResult rp;
        if (!gRunner->runPython(impl, plan, rp)) {
            // with a degenerate scaling factor the computed values are infinite / NaN and Python (unlike C) raises on floor(nan),
            // 1.0/0.0, ...: the module has loaded and the tables were read by then, which is all the property asks for
            const bool domain = rp.error.rfind("ValueError", 0) == 0 || rp.error.rfind("OverflowError", 0) == 0 || rp.error.rfind("ZeroDivisionError", 0) == 0;
            if (!oddScale.empty() && domain) {
                c.count("odd-scale:python-domain-error-not-judged");
            } else {
                c.fail(!oddScale.empty() && rp.error.rfind("SyntaxError", 0) == 0 ? "C17.nonfinite-scaling|Python" : "C17.run|Python|" + rp.error.substr(0, 30), rp.error + "\n--- implementation ---\n" + impl.substr(0, 8000));
                return;
            }
        }
        c.count("programs");
        checkTables(c, "Python", x, rp, false, &comparisons);
        if (!c.ok) return;
        // functions and their parameters
        auto defs = c17::pyDefinitions(impl);
        for (const auto &e : c17::expectedPyInterface(x.ode, x.ext)) {
            const c17::FuncText *def = nullptr;
            for (const auto &f : defs) {
                if (f.name == e.name) {
                    def = &f;
                }
            }
            ++comparisons;
            VP_CHECK(c, def != nullptr, "C17.function|missing|Python|" + e.name, "the Python implementation does not define " << e.name);
            VP_CHECK(c, def->params == e.params, "C17.interface|signature-for-model-type|" + e.name, "'" << def->line << "' for a model with" << (x.ode ? "" : "out") << " ODEs and with" << (x.ext ? "" : "out") << " external variables; expected (" << c17::joinParams(e.params) << ")");
        }
        comparisons += 2;
        bool hasExternalEnum = impl.find("    EXTERNAL = ") != std::string::npos;
        bool hasStateEnum = impl.find("    STATE = ") != std::string::npos;
        VP_CHECK(c, hasExternalEnum == x.ext, "C17.interface|enumerator|EXTERNAL|Python", "VariableType.EXTERNAL " << (hasExternalEnum ? "present" : "absent") << " with " << extClasses.size() << " external variables");
        VP_CHECK(c, hasStateEnum == x.ode, "C17.interface|enumerator|STATE|Python", "VariableType.STATE " << (hasStateEnum ? "present" : "absent") << " in a model of type " << type);
        checkFunctions(c, "Python", x, impl, &comparisons);
        if (!c.ok) return;
    }
    c.count("comparisons", comparisons);
}

} // namespace

namespace vp {
Property property = {
    "C17",
    "translation_validation",
    "rapidcheck tapes drive the ground-truth model generator of C03 (1-4 components, constants / computed constants / algebraic variables / states / NLA systems, expression trees over the MathML operator set) with a per-case operator pool "
    "(no helper-requiring operator / a few / the trigonometric ones / all) plus 0-3 quota equations that each use one helper-requiring operator directly, in a taken or untaken piecewise branch, in a logbase or as an operand; half of the valid cases get 1-2 further NLA systems (1-3 unknowns, literal-only equations with a known solution) whose equations are interleaved with each other and "
    "with the component's other equations in document order (round-robin or a tape-seeded permutation, re-split into math blocks); half of the valid cases switch on the generator's unary pluses, quota forms put a unary plus between comparison operators, and 1 valid case in 10 gives one "
    "connected variable units whose factor to its equivalent variable is 0 / infinite / not a number (multiplier 0, negative, subnormal, prefix -400); 40 % of the "
    "cases mark 1-2 states/variables external (sometimes through a non-primary equivalent variable); 30 % are made non-valid (equation dropped, duplicate definition, both, variable without units, initialised voi, empty model, null "
    "model, a new analyser's UNKNOWN model). Valid models: C code is compiled (-Wall -Wextra), linked with an address-taking probe and run, Python code is exec'd; counts, every info-table entry, buffer capacities, declared/defined "
    "signatures, enumerators, the set of helper functions defined / called in the text and the objective function / root finder of every NLA system index (defined once, one f[] entry per equation, sized for its unknowns) are compared with the AnalyserModel and with the operators of the equations. Non-valid models: all four code strings are empty. "
    "Non-trivial: the model has a state, an NLA system or an external variable, and at least one helper-requiring operator. Distinct = hash of the model text and external-variable choice.",
    run,
    nullptr,
    {"system cc (C99, gcc) and system python3 execute the generated code; diagnostics are those of 'cc -std=c99 -Wall -Wextra -fsyntax-only'",
     "function definitions / prototypes / calls are read off the generated text with the layout of the two built-in profiles (one definition head per line, '{' on its own line; 'def name(params):')",
     "helper functions expected = operators of the ground truth's defining expressions, minus the expressions of equations whose unknowns were all marked external",
     "the variable of integration is never marked external"},
};
}

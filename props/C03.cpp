// C03 — generated code computes what the model's equations say (translation validation against a reference evaluator).
#include <libcellml>

#include <libxml/parser.h>

#include "c20_ref.h"
#include "gt.h"
#include "gtrun.h"
#include "prop.h"
#include "runner.h"
#include "spec.h"

using namespace vp;
using namespace libcellml;

namespace {

CodeRunner *gRunner = nullptr;
const double kTol = 1e-7;

void run(Src &src, Case &c)
{
    xmlKeepBlanksDefault(1);
    if (gRunner == nullptr) {
        gRunner = new CodeRunner();
    }
    GtOptions opt;
    opt.nlaBareKnown = true;
    // extensions after the independent exploration (notes/C03.md): shapes the explorer's seven findings live in
    opt.nlaSparseReads = true;
    opt.nlaDependents = true;
    opt.rateReaders = true;
    opt.initByName = true;
    opt.exoticReals = true;
    opt.unaryPlus = true;
    GtModel gt = genGroundTruthModel(src, opt);
    Built b = buildApi(gt.spec);
    c.text = specToText(gt.spec) + "\n" + gt.describe();
    c.hash = hashStr(c.text);
    c.weight = c.text.size();
    for (const auto &k : gt.counters) {
        c.count("gen:" + k.first, k.second);
    }

    auto analyser = Analyser::create();
    analyser->analyseModel(b.model);
    auto am = analyser->model();
    std::string type = am != nullptr ? AnalyserModel::typeAsString(am->type()) : "null";
    c.cls("type:" + type);
    if (am == nullptr || !am->isValid()) {
        // C03 speaks about models the analyser classifies as algebraic / ODE / NLA / DAE; whether the classification of
        // this valid-by-construction model is right is C05's claim. Count it and stop.
        c.count("not-analysed-as-valid");
        c.cls("expected:" + gt.expectedType + "/got:" + type);
        return;
    }
    GtMapping map;
    if (!mapAnalyserModel(am, gt, map)) {
        c.fail("C03.mapping|" + map.problem.substr(0, 40), map.problem);
        return;
    }
    RunPlan plan = makeRunPlan(gt, map);
    // Half of the ODE / DAE models run under the stale-order protocol (kit/runner.h: computeRates at the second point,
    // computeRates at the first point, then computeVariables at the second point): whatever is state / rate based has to be
    // recomputed by computeVariables. Decided from the content hash, not from a tape read, so recorded tapes decode as before.
    // Variables that vary with the VOI only are exempt at the second point under that protocol (kit/c20_ref.h).
    const C20Staleness staleness = c20Staleness(gt);
    plan.staleOrder = plan.ode && (c.hash >> 7) % 2 == 0;
    if (plan.staleOrder) {
        plan.staleResolve = c20StaleResolve(gt, map, staleness);
        c.cls("stale-order");
    }
    bool scaled = false, multiComp = gt.spec.comps.size() > 1;
    for (const auto &cl : gt.classes) {
        for (const auto &in : cl.inst) {
            scaled = scaled || in.log10scale != cl.inst[0].log10scale;
        }
    }
    bool hasOde = map.hasVoi, hasNla = !gt.nla.empty();
    c.nontrivial = gt.equationCount >= 3 && (hasOde || hasNla || scaled);
    if (scaled) c.cls("scaled-connection");
    if (multiComp) c.cls("multi-component");
    if (hasNla) c.cls("nla-system");
    if (hasOde) c.cls("ode");
    for (const char *k : {"nla-sparse-system", "nla-dependent", "nla-constant-system", "rate-reader", "rate-reader-scaled", "rate-reader-scaled-voi", "init-by-name-constant", "init-by-name-scaled", "init-by-name-chain", "init-by-name-declared-before", "init-by-name-state", "exotic-real-upper-e", "exotic-real"}) {
        auto it = gt.counters.find(k);
        if (it != gt.counters.end() && it->second > 0) {
            c.cls(std::string("shape:") + k);
        }
    }
    for (const auto &o : gt.operatorsUsed) {
        c.cls("op:" + o);
    }
    c.count("equations", static_cast<long>(gt.equationCount));

    long comparisons = 0;
    RunResult rc, rp;
    // C profile
    {
        auto gen = Generator::create();
        gen->setModel(am);
        std::string iface = gen->interfaceCode(), impl = gen->implementationCode();
        VP_CHECK(c, !iface.empty() && !impl.empty(), "C03.empty-code|C", "generator returned empty C code for a valid analyser model");
        if (!gRunner->runC(iface, impl, plan, rc)) {
            c.fail("C03.run|C|" + rc.error.substr(0, 30), rc.error + "\n--- implementation ---\n" + impl.substr(0, 6000));
            return;
        }
        c.count("programs");
        std::string d = compareRunWithTruth(gt, map, plan.staleOrder ? c20TolerateStale(gt, map, rc, staleness) : rc, kTol, &comparisons);
        if (!d.empty()) {
            c.fail("C03.value|C|" + d.substr(0, d.find('\n')), d.substr(d.find('\n') + 1) + "\n--- implementation ---\n" + impl.substr(0, 8000));
            return;
        }
        if (hasNla) {
            VP_CHECK(c, rc.nlaCalls > 0, "C03.nla-not-called|C", "model has an NLA system but nlaSolve was never called");
            VP_CHECK(c, rc.nlaResidual <= 1e-6, "C03.nla-residual|C", "objective function does not vanish at the true solution: max |f| = " << rc.nlaResidual << "\n--- implementation ---\n" << impl.substr(0, 8000));
        }
    }
    // Python profile
    {
        auto gen = Generator::create();
        gen->setProfile(GeneratorProfile::create(GeneratorProfile::Profile::PYTHON));
        gen->setModel(am);
        std::string impl = gen->implementationCode();
        VP_CHECK(c, !impl.empty(), "C03.empty-code|Python", "generator returned empty Python code for a valid analyser model");
        if (!gRunner->runPython(impl, plan, rp)) {
            c.fail("C03.run|Python|" + rp.error.substr(0, 30), rp.error + "\n--- implementation ---\n" + impl.substr(0, 6000));
            return;
        }
        c.count("programs");
        std::string d = compareRunWithTruth(gt, map, plan.staleOrder ? c20TolerateStale(gt, map, rp, staleness) : rp, kTol, &comparisons);
        if (!d.empty()) {
            c.fail("C03.value|Python|" + d.substr(0, d.find('\n')), d.substr(d.find('\n') + 1) + "\n--- implementation ---\n" + impl.substr(0, 8000));
            return;
        }
        if (hasNla) {
            VP_CHECK(c, rp.nlaCalls > 0, "C03.nla-not-called|Python", "model has an NLA system but nla_solve was never called");
            VP_CHECK(c, rp.nlaResidual <= 1e-6, "C03.nla-residual|Python", "objective function does not vanish at the true solution: max |f| = " << rp.nlaResidual);
        }
    }
    std::string d = compareRuns(rc, rp, kTol, &comparisons);
    if (!d.empty()) {
        c.fail("C03.profiles-disagree|" + d.substr(0, d.find('\n')), d.substr(d.find('\n') + 1));
        return;
    }
    c.count("comparisons", comparisons);
}

} // namespace

namespace vp {
Property property = {
    "C03",
    "translation_validation",
    "rapidcheck tapes drive a ground-truth model generator: a random dependency DAG of constants, computed constants, algebraic variables, states with ODEs and NLA systems built around a known solution, spread over 1-4 connected "
    "components with compatible-but-scaled units, right-hand sides being value-safe expression trees over the whole supported MathML operator set; each model is analysed, C and Python code is generated, the C code is compiled and run, "
    "the Python code is executed, and every array entry (initial states, constants, computed constants, rates and variables at two evaluation points) is compared with an independent reference evaluator, NLA objective functions are "
    "evaluated at the true solution, and the two profiles are compared with each other. Non-trivial: >= 3 equations and at least one of {ODE, NLA system, scaled connection}. Distinct = hash of the model text.",
    run,
    nullptr,
    {"expressions are kept away from poles, branch points, integer boundaries and equality by construction (margin 2e-3), magnitudes below 1e4; relative tolerance 1e-7",
     "NLA systems are not solved: the unknowns are pre-loaded with the constructed solution and the objective function must vanish there",
     "system cc (C99) and system python3 execute the generated code"},
};
}

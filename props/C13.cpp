// C13 — identifier assignment is complete, unique and non-destructive.
//
// Histories of Annotator calls (setModel, assignAllIds, assignIds(type), assignId(item), clearAllIds, lookups)
// interleaved with edits of the model through the public API, on generated models whose id-bearing items carry
// pre-existing ids drawn from {none, unique, duplicated, auto-shaped}.  The oracle is a reference id index: an
// independent traversal of the model through public getters (see traverse()).  Printer::printModel(model, true) is
// judged by collecting the ids of the printed document with libxml2 in the harness.
#include <libcellml>

#include <libxml/parser.h>
#include <libxml/tree.h>

#include <algorithm>
#include <functional>

#include "gen.h"
#include "prop.h"
#include "spec.h"

using namespace vp;
using namespace libcellml;

namespace {

using T = CellmlElementType;

const char *typeName(T t)
{
    switch (t) {
    case T::COMPONENT: return "component";
    case T::COMPONENT_REF: return "component_ref";
    case T::CONNECTION: return "connection";
    case T::ENCAPSULATION: return "encapsulation";
    case T::IMPORT: return "import";
    case T::MAP_VARIABLES: return "map_variables";
    case T::MATH: return "math";
    case T::MODEL: return "model";
    case T::RESET: return "reset";
    case T::RESET_VALUE: return "reset_value";
    case T::TEST_VALUE: return "test_value";
    case T::UNDEFINED: return "undefined";
    case T::UNIT: return "unit";
    case T::UNITS: return "units";
    case T::VARIABLE: return "variable";
    }
    return "?";
}

// mapping / connection ids are not part of the annotator's model hash
bool hashBlind(T t)
{
    return t == T::MAP_VARIABLES || t == T::CONNECTION;
}

// ---------------------------------------------------------------------------------------------- reference id index

// One place of the model that can carry an id.
struct Slot
{
    T type = T::UNDEFINED;
    std::string key; // printable locator, also the key of the element in the printed document
    std::string hkey; // positional locator (what the annotator's hash sees: positions, not names or objects)
    std::string id;
    bool exists = true; // the XML representation has an element for it (completeness is demanded)
    bool printed = true; // printModel writes an element for it
    ModelPtr model;
    ComponentPtr comp; // component / component_ref; owning component of variable / reset
    UnitsPtr units;
    size_t index = 0; // unit child index
    VariablePtr v1, v2;
    ComponentPtr c1, c2; // owning components of v1 / v2
    ResetPtr reset;
    ImportSourcePtr imp;
    size_t users = 1; // import source: number of importing entities that share it
    bool partial = false; // connection: some variable pairs report the connection id, others report none
};

struct Index
{
    std::vector<Slot> slots;
    bool inconsistentConnection = false; // direct pairs of one connection report different connection ids
    bool foreignEquivalence = false; // an equivalent variable outside the model tree
    // ids inside MathML strings (component math, test_value, reset_value; math element and descendants): not items that
    // can be looked up, but identifiers present in the model that an automatic id must not repeat
    std::vector<std::pair<std::string, std::string>> mathIds; // (id, where)

    std::string mathCarrier(const std::string &id) const
    {
        for (const auto &m : mathIds) {
            if (m.first == id) {
                return m.second;
            }
        }
        return "";
    }

    std::vector<size_t> withId(const std::string &id) const
    {
        std::vector<size_t> r;
        for (size_t i = 0; i < slots.size(); ++i) {
            if (slots[i].id == id) {
                r.push_back(i);
            }
        }
        return r;
    }
    std::vector<std::string> ids() const // sorted, unique, non-empty
    {
        std::vector<std::string> r;
        for (const auto &s : slots) {
            if (!s.id.empty()) {
                r.push_back(s.id);
            }
        }
        std::sort(r.begin(), r.end());
        r.erase(std::unique(r.begin(), r.end()), r.end());
        return r;
    }
    bool has(const std::string &id) const
    {
        for (const auto &s : slots) {
            if (s.id == id) {
                return true;
            }
        }
        return false;
    }
};

ComponentPtr ownerOf(const VariablePtr &v)
{
    return v == nullptr ? nullptr : std::dynamic_pointer_cast<Component>(v->parent());
}

std::string pairKey(const std::string &a, const std::string &b)
{
    return a < b ? a + "|" + b : b + "|" + a;
}

void collectComponents(const ComponentPtr &c, std::vector<ComponentPtr> &out)
{
    out.push_back(c);
    for (size_t i = 0; i < c->componentCount(); ++i) {
        collectComponents(c->component(i), out);
    }
}

std::vector<ComponentPtr> allComponents(const ModelPtr &m)
{
    std::vector<ComponentPtr> out;
    for (size_t i = 0; i < m->componentCount(); ++i) {
        collectComponents(m->component(i), out);
    }
    return out;
}

bool contains(const std::vector<ComponentPtr> &v, const ComponentPtr &c)
{
    return std::find(v.begin(), v.end(), c) != v.end();
}

void silentXml(void *, const char *, ...)
{
}

void walkMathIds(xmlNodePtr n, const std::string &where, std::vector<std::pair<std::string, std::string>> &out)
{
    for (xmlNodePtr ch = n; ch != nullptr; ch = ch->next) {
        if (ch->type != XML_ELEMENT_NODE) {
            continue;
        }
        xmlChar *v = xmlGetNoNsProp(ch, reinterpret_cast<const xmlChar *>("id"));
        if (v != nullptr) {
            std::string id(reinterpret_cast<const char *>(v));
            xmlFree(v);
            if (!id.empty()) {
                out.emplace_back(id, where + " <" + reinterpret_cast<const char *>(ch->name) + ">");
            }
        }
        walkMathIds(ch->children, where, out);
    }
}

// ids on the elements of a math string (several math elements may be concatenated), read with libxml2 in the harness
void collectMathIds(const std::string &math, const std::string &where, std::vector<std::pair<std::string, std::string>> &out)
{
    if (math.find("id") == std::string::npos) {
        return;
    }
    std::string doc = "<vp_wrap>" + math + "</vp_wrap>";
    xmlSetGenericErrorFunc(nullptr, silentXml);
    xmlSetStructuredErrorFunc(nullptr, nullptr);
    xmlDocPtr d = xmlReadMemory(doc.c_str(), static_cast<int>(doc.size()), "m.xml", nullptr, XML_PARSE_NOERROR | XML_PARSE_NOWARNING | XML_PARSE_NONET);
    if (d == nullptr) {
        return;
    }
    xmlNodePtr root = xmlDocGetRootElement(d);
    if (root != nullptr) {
        walkMathIds(root->children, where, out);
    }
    xmlFreeDoc(d);
}

Index traverse(const ModelPtr &m)
{
    Index ix;
    auto &out = ix.slots;
    std::vector<ImportSourcePtr> seenImports;
    auto importSlot = [&](const ImportSourcePtr &imp, const std::string &firstUser) {
        if (imp == nullptr) {
            return;
        }
        if (std::find(seenImports.begin(), seenImports.end(), imp) != seenImports.end()) {
            for (auto &o : out) {
                if (o.type == T::IMPORT && o.imp == imp) {
                    ++o.users;
                }
            }
            return;
        }
        seenImports.push_back(imp);
        Slot s;
        s.type = T::IMPORT;
        s.key = "import:" + firstUser;
        s.hkey = "i" + std::to_string(seenImports.size());
        s.id = imp->id();
        s.imp = imp;
        out.push_back(s);
    };
    {
        Slot s;
        s.type = T::MODEL;
        s.key = "model";
        s.hkey = "m";
        s.id = m->id();
        s.model = m;
        out.push_back(s);
    }
    for (size_t u = 0; u < m->unitsCount(); ++u) {
        auto units = m->units(u);
        Slot s;
        s.type = T::UNITS;
        s.key = "units:" + units->name();
        s.hkey = "U" + std::to_string(u);
        s.id = units->id();
        s.units = units;
        out.push_back(s);
        for (size_t i = 0; i < units->unitCount(); ++i) {
            Slot k;
            k.type = T::UNIT;
            k.key = "unit:" + units->name() + "#" + std::to_string(i);
            k.hkey = "U" + std::to_string(u) + "u" + std::to_string(i);
            k.id = units->unitId(i);
            k.units = units;
            k.index = i;
            k.printed = !units->isImport();
            out.push_back(k);
        }
        importSlot(units->importSource(), "units:" + units->name());
    }
    std::vector<ComponentPtr> comps = allComponents(m);
    std::vector<std::string> paths;
    for (const auto &c : comps) {
        // position path of the component: index among its siblings, prefixed by the path of its parent
        std::string path;
        ComponentPtr cur = c;
        while (cur != nullptr) {
            auto parent = std::dynamic_pointer_cast<ComponentEntity>(cur->parent());
            size_t pos = 0;
            for (size_t i = 0; parent != nullptr && i < parent->componentCount(); ++i) {
                if (parent->component(i) == cur) {
                    pos = i;
                }
            }
            path = "c" + std::to_string(pos) + path;
            cur = std::dynamic_pointer_cast<Component>(cur->parent());
        }
        paths.push_back(path);
    }
    bool anyHierarchy = false;
    for (size_t compIndex = 0; compIndex < comps.size(); ++compIndex) {
        const auto &c = comps[compIndex];
        const std::string &path = paths[compIndex];
        bool top = std::dynamic_pointer_cast<Model>(c->parent()) != nullptr;
        bool inHierarchy = !top || c->componentCount() > 0;
        anyHierarchy = anyHierarchy || inHierarchy;
        Slot s;
        s.type = T::COMPONENT;
        s.key = "component:" + c->name();
        s.hkey = path;
        s.id = c->id();
        s.comp = c;
        out.push_back(s);
        importSlot(c->importSource(), "component:" + c->name());
        Slot r;
        r.type = T::COMPONENT_REF;
        r.key = "component_ref:" + c->name();
        r.hkey = path + "ce";
        r.id = c->encapsulationId();
        r.comp = c;
        r.exists = inHierarchy;
        r.printed = inHierarchy;
        out.push_back(r);
        for (size_t v = 0; v < c->variableCount(); ++v) {
            auto var = c->variable(v);
            Slot k;
            k.type = T::VARIABLE;
            k.key = "variable:" + c->name() + "/" + var->name();
            k.hkey = path + "v" + std::to_string(v);
            k.id = var->id();
            k.comp = c;
            k.v1 = var;
            k.printed = !c->isImport();
            out.push_back(k);
        }
        for (size_t ri = 0; ri < c->resetCount(); ++ri) {
            auto reset = c->reset(ri);
            std::string base = c->name() + "#" + std::to_string(ri);
            Slot k;
            k.type = T::RESET;
            k.key = "reset:" + base;
            k.hkey = path + "r" + std::to_string(ri);
            k.id = reset->id();
            k.comp = c;
            k.reset = reset;
            k.printed = !c->isImport();
            out.push_back(k);
            Slot tv = k;
            tv.type = T::TEST_VALUE;
            tv.key = "test_value:" + base;
            tv.hkey = k.hkey + "tv";
            tv.id = reset->testValueId();
            tv.exists = !reset->testValue().empty() || !tv.id.empty();
            tv.printed = k.printed && tv.exists;
            out.push_back(tv);
            Slot rv = k;
            rv.type = T::RESET_VALUE;
            rv.key = "reset_value:" + base;
            rv.hkey = k.hkey + "rv";
            rv.id = reset->resetValueId();
            rv.exists = !reset->resetValue().empty() || !rv.id.empty();
            rv.printed = k.printed && rv.exists;
            out.push_back(rv);
        }
    }
    // mappings (one per unordered pair of directly equivalent variables) and connections (one per unordered pair of
    // components that have at least one mapping between them)
    size_t firstPair = out.size();
    for (const auto &c : comps) {
        for (size_t v = 0; v < c->variableCount(); ++v) {
            auto var = c->variable(v);
            for (size_t e = 0; e < var->equivalentVariableCount(); ++e) {
                auto other = var->equivalentVariable(e);
                auto oc = ownerOf(other);
                if (other == nullptr || oc == nullptr || !contains(comps, oc)) {
                    ix.foreignEquivalence = true;
                    continue;
                }
                bool seen = false;
                for (size_t i = firstPair; i < out.size(); ++i) {
                    if (out[i].type == T::MAP_VARIABLES && out[i].v1 == other && out[i].v2 == var) {
                        seen = true;
                    }
                }
                if (seen) {
                    continue;
                }
                Slot k;
                k.type = T::MAP_VARIABLES;
                k.key = "map_variables:" + pairKey(c->name() + "/" + var->name(), oc->name() + "/" + other->name());
                k.id = Variable::equivalenceMappingId(var, other);
                k.v1 = var;
                k.v2 = other;
                k.c1 = c;
                k.c2 = oc;
                out.push_back(k);
                // The connection id is one attribute of one connection element but is stored per variable pair: the id of
                // the connection is the one non-empty value its pairs report (in either direction); pairs that report none
                // make the connection "partial"; two different non-empty values are ambiguous (case discarded).
                std::string cid1 = Variable::equivalenceConnectionId(var, other);
                std::string cid2 = Variable::equivalenceConnectionId(other, var);
                bool known = false;
                for (size_t i = firstPair; i < out.size(); ++i) {
                    if (out[i].type == T::CONNECTION && ((out[i].c1 == c && out[i].c2 == oc) || (out[i].c1 == oc && out[i].c2 == c))) {
                        known = true;
                        for (const std::string &cid : {cid1, cid2}) {
                            if (cid.empty()) {
                                out[i].index = 1; // saw a pair without the id
                            } else if (out[i].id.empty()) {
                                out[i].id = cid;
                            } else if (out[i].id != cid) {
                                ix.inconsistentConnection = true;
                            }
                        }
                    }
                }
                if (!known) {
                    Slot q = k;
                    q.type = T::CONNECTION;
                    q.key = "connection:" + pairKey(c->name(), oc->name());
                    q.id = !cid1.empty() ? cid1 : cid2;
                    q.index = (cid1.empty() || cid2.empty()) ? 1 : 0;
                    if (!cid1.empty() && !cid2.empty() && cid1 != cid2) {
                        ix.inconsistentConnection = true;
                    }
                    out.push_back(q);
                }
            }
        }
    }
    for (auto &q : out) {
        if (q.type == T::CONNECTION) {
            q.partial = q.index == 1 && !q.id.empty();
            q.index = 0;
        }
    }
    for (const auto &c : comps) {
        collectMathIds(c->math(), "math of component " + c->name(), ix.mathIds);
        for (size_t ri = 0; ri < c->resetCount(); ++ri) {
            collectMathIds(c->reset(ri)->testValue(), "test_value math of reset " + c->name() + "#" + std::to_string(ri), ix.mathIds);
            collectMathIds(c->reset(ri)->resetValue(), "reset_value math of reset " + c->name() + "#" + std::to_string(ri), ix.mathIds);
        }
    }
    {
        Slot s;
        s.type = T::ENCAPSULATION;
        s.key = "encapsulation";
        s.hkey = "me";
        s.id = m->encapsulationId();
        s.model = m;
        s.exists = anyHierarchy;
        s.printed = anyHierarchy;
        out.push_back(s);
    }
    return ix;
}

void setSlotId(const Slot &s, const std::string &id)
{
    switch (s.type) {
    case T::MODEL: s.model->setId(id); break;
    case T::ENCAPSULATION: s.model->setEncapsulationId(id); break;
    case T::IMPORT: s.imp->setId(id); break;
    case T::UNITS: s.units->setId(id); break;
    case T::UNIT: s.units->setUnitId(s.index, id); break;
    case T::COMPONENT: s.comp->setId(id); break;
    case T::COMPONENT_REF: s.comp->setEncapsulationId(id); break;
    case T::VARIABLE: s.v1->setId(id); break;
    case T::RESET: s.reset->setId(id); break;
    case T::TEST_VALUE: s.reset->setTestValueId(id); break;
    case T::RESET_VALUE: s.reset->setResetValueId(id); break;
    case T::MAP_VARIABLES: Variable::setEquivalenceMappingId(s.v1, s.v2, id); break;
    case T::CONNECTION: Variable::setEquivalenceConnectionId(s.v1, s.v2, id); break;
    default: break;
    }
}

// Is `item` the very object of slot `s` (and of its type)?
bool sameObject(const AnyCellmlElementPtr &item, const Slot &s)
{
    if (item == nullptr || item->type() != s.type) {
        return false;
    }
    switch (s.type) {
    case T::MODEL:
    case T::ENCAPSULATION: return item->model() == s.model;
    case T::IMPORT: return item->importSource() == s.imp;
    case T::UNITS: return item->units() == s.units;
    case T::UNIT: return item->unitsItem() != nullptr && item->unitsItem()->units() == s.units && item->unitsItem()->index() == s.index;
    case T::COMPONENT:
    case T::COMPONENT_REF: return item->component() == s.comp;
    case T::VARIABLE: return item->variable() == s.v1;
    case T::RESET:
    case T::TEST_VALUE:
    case T::RESET_VALUE: return item->reset() == s.reset;
    case T::MAP_VARIABLES: {
        auto p = item->variablePair();
        return p != nullptr && ((p->variable1() == s.v1 && p->variable2() == s.v2) || (p->variable1() == s.v2 && p->variable2() == s.v1));
    }
    case T::CONNECTION: {
        auto p = item->variablePair();
        if (p == nullptr) {
            return false;
        }
        auto a = ownerOf(p->variable1()), b = ownerOf(p->variable2());
        return (a == s.c1 && b == s.c2) || (a == s.c2 && b == s.c1);
    }
    default: return false;
    }
}

std::string hexId(size_t v)
{
    std::ostringstream o;
    o << std::hex << v;
    return o.str();
}

bool parseAuto(const std::string &id, size_t &v)
{
    if (id.size() != 6) {
        return false;
    }
    v = 0;
    for (char ch : id) {
        int d;
        if (ch >= '0' && ch <= '9') {
            d = ch - '0';
        } else if (ch >= 'a' && ch <= 'f') {
            d = ch - 'a' + 10;
        } else {
            return false;
        }
        v = v * 16 + static_cast<size_t>(d);
    }
    return v >= 0xb4da55 && v < 0xb4da55 + 4096;
}

// ---------------------------------------------------------------------------------------------- the world of one case

struct World
{
    Case *c = nullptr;
    ModelPtr m;
    AnnotatorPtr a;
    bool attached = false;
    int freshName = 0, freshId = 0;
    std::vector<EntityPtr> keepAlive; // removed items stay alive until the end of the case
    // Model of what the annotator's id list knows (only used to LOCALISE a failure as "stale": the verdict itself
    // never depends on it).  The list is rebuilt by setModel; lookups and assignId(item) rebuild it only when a hash over
    // the ids (mapping / connection ids excluded) differs from the stored one; assignAllIds / assignIds use it as it is.
    std::vector<std::pair<std::string, std::string>> cache; // (id, slot key)
    std::string hashState = "\x01none"; // visible state the stored hash was computed from
    std::string lastEditGroup; // "", "id", "add", "remove", "equiv"
    // per-step choices added later; they are read from the tail of the step's values so that older tapes keep their meaning
    bool checkSiblings = false; // this step also asks the typed getters of sibling kinds
    int extraEdit = -1; // edit kinds 15..17
    bool nonItemPair = false; // assignId on a variable pair that is no item of the model
    std::ostringstream log;

    static std::string visible(const Index &ix)
    {
        std::string s;
        for (const auto &sl : ix.slots) {
            if (!hashBlind(sl.type)) {
                s += sl.hkey + "=" + sl.id + ";";
            }
        }
        return s;
    }
    static std::vector<std::pair<std::string, std::string>> actual(const Index &ix)
    {
        std::vector<std::pair<std::string, std::string>> r;
        for (const auto &sl : ix.slots) {
            if (!sl.id.empty()) {
                r.emplace_back(sl.id, sl.key);
            }
        }
        return r;
    }
    void rebuild(const Index &ix)
    {
        cache = actual(ix);
        hashState = visible(ix);
    }
    void onUpdate(const Index &ix) // Annotator update()
    {
        if (visible(ix) != hashState) {
            rebuild(ix);
        }
    }
    bool cacheHas(const std::string &id) const
    {
        for (const auto &e : cache) {
            if (e.first == id) {
                return true;
            }
        }
        return false;
    }
    void cacheRemove(const std::string &id, const std::string &key)
    {
        for (size_t i = 0; i < cache.size(); ++i) {
            if (cache[i].first == id && cache[i].second == key) {
                cache.erase(cache.begin() + static_cast<long>(i));
                return;
            }
        }
    }
    // Would a lookup now answer from an id list that no longer matches the model?
    bool staleLookupExpected(const Index &ix) const
    {
        if (visible(ix) != hashState) {
            return false; // the hash differs: the list is rebuilt
        }
        auto a = actual(ix), b = cache;
        std::sort(a.begin(), a.end());
        std::sort(b.begin(), b.end());
        return a != b;
    }
};

std::string monitor(World &w, const char *call)
{
    std::string lg = checkLogger(w.a);
    if (!lg.empty()) {
        w.c->fail("C15.monitor|Annotator|" + lg.substr(0, lg.find('|')), std::string("after ") + call + ": " + lg);
    }
    return lg;
}

// An id for an edit. 0 = the next automatic id (the smallest b4da55+k not in the model).
std::string chooseId(Src &src, World &w, const Index &ix, bool allowEmpty)
{
    size_t next = 0xb4da55, maxAuto = 0;
    for (const auto &s : ix.slots) {
        size_t v;
        if (parseAuto(s.id, v)) {
            maxAuto = std::max(maxAuto, v);
        }
    }
    while (ix.has(hexId(next))) {
        ++next;
    }
    switch (src.below(allowEmpty ? 8 : 7)) {
    case 0:
    case 1: return hexId(next);
    case 2: return hexId(maxAuto == 0 ? next : maxAuto + 1);
    case 3: return hexId(next + src.below(6));
    case 4: {
        auto ids = ix.ids();
        if (!ids.empty()) {
            return src.pick(ids);
        }
        return hexId(next);
    }
    case 5:
    case 6: return "e" + std::to_string(++w.freshId);
    default: return "";
    }
}

// Connection ids are stored per variable pair but read through a map of all pairs between two components; keep the
// stored values of one connection equal (see notes/C13.md).  `before` holds the connection ids before the edit.
void normaliseConnections(World &w, const Index &before, const ComponentPtr &newA, const ComponentPtr &newB, const std::string &newId)
{
    Index now = traverse(w.m);
    for (const auto &s : now.slots) {
        if (s.type != T::CONNECTION) {
            continue;
        }
        std::string id;
        bool found = false;
        for (const auto &b : before.slots) {
            if (b.type == T::CONNECTION && ((b.c1 == s.c1 && b.c2 == s.c2) || (b.c1 == s.c2 && b.c2 == s.c1))) {
                id = b.id;
                found = true;
            }
        }
        if (!found && ((s.c1 == newA && s.c2 == newB) || (s.c1 == newB && s.c2 == newA))) {
            id = newId;
        }
        Variable::setEquivalenceConnectionId(s.v1, s.v2, id);
    }
}

std::vector<VariablePtr> classOf(const VariablePtr &v)
{
    std::vector<VariablePtr> cls = {v};
    for (size_t i = 0; i < cls.size(); ++i) {
        for (size_t e = 0; e < cls[i]->equivalentVariableCount(); ++e) {
            auto o = cls[i]->equivalentVariable(e);
            if (o != nullptr && std::find(cls.begin(), cls.end(), o) == cls.end()) {
                cls.push_back(o);
            }
        }
    }
    return cls;
}

// May v1 ~ v2 be added without putting two variables of one component into one equivalence class?
bool mayLink(const VariablePtr &v1, const VariablePtr &v2)
{
    auto a = classOf(v1), b = classOf(v2);
    for (const auto &x : a) {
        for (const auto &y : b) {
            if (x == y || ownerOf(x) == ownerOf(y)) {
                return false;
            }
        }
    }
    return true;
}

void unlinkVariable(World &w, const VariablePtr &v)
{
    while (v->equivalentVariableCount() > 0) {
        auto o = v->equivalentVariable(0);
        if (!Variable::removeEquivalence(v, o)) {
            break;
        }
    }
}

// A math block whose math / apply / ci elements carry the given ids ("" = no id attribute).
std::string mathWithIds(const std::string &var, const std::string &idMath, const std::string &idApply, const std::string &idCi)
{
    auto at = [](const std::string &id) { return id.empty() ? std::string() : " id=\"" + id + "\""; };
    return "<math xmlns=\"http://www.w3.org/1998/Math/MathML\" xmlns:cellml=\"http://www.cellml.org/cellml/2.0#\"" + at(idMath) + "><apply" + at(idApply) + "><eq/><ci" + at(idCi) + ">" + var
           + "</ci><cn cellml:units=\"dimensionless\">1</cn></apply></math>";
}

// One edit of the model through the public API. Returns its label.
std::string doEdit(Src &src, World &w)
{
    Index ix = traverse(w.m);
    std::vector<ComponentPtr> comps = allComponents(w.m);
    std::vector<size_t> varSlots, mapSlots, resetSlots, unitSlots, unitsSlots, compSlots;
    for (size_t i = 0; i < ix.slots.size(); ++i) {
        switch (ix.slots[i].type) {
        case T::VARIABLE: varSlots.push_back(i); break;
        case T::MAP_VARIABLES: mapSlots.push_back(i); break;
        case T::RESET: resetSlots.push_back(i); break;
        case T::UNIT: unitSlots.push_back(i); break;
        case T::UNITS: unitsSlots.push_back(i); break;
        case T::COMPONENT: compSlots.push_back(i); break;
        default: break;
        }
    }
    unsigned kind = static_cast<unsigned>(src.below(15));
    if (w.extraEdit >= 0) {
        kind = static_cast<unsigned>(w.extraEdit);
    }
    std::vector<size_t> connSlots;
    for (size_t i = 0; i < ix.slots.size(); ++i) {
        if (ix.slots[i].type == T::CONNECTION) {
            connSlots.push_back(i);
        }
    }
    auto name = [&](const char *p) { return std::string(p) + std::to_string(++w.freshName); };
    switch (kind) {
    case 1: { // add a variable
        if (comps.empty()) {
            break;
        }
        auto comp = src.pick(comps);
        auto v = Variable::create(name("zv"));
        v->setUnits("dimensionless");
        std::string id = chooseId(src, w, ix, true);
        if (!id.empty()) {
            v->setId(id);
        }
        comp->addVariable(v);
        w.lastEditGroup = "add";
        w.log << "  edit add variable " << comp->name() << "/" << v->name() << " id='" << id << "'\n";
        return "add-variable";
    }
    case 2: { // add an equivalence
        if (varSlots.size() < 2) {
            break;
        }
        for (int attempt = 0; attempt < 4; ++attempt) {
            const Slot &s1 = ix.slots[src.pick(varSlots)];
            const Slot &s2 = ix.slots[src.pick(varSlots)];
            if (s1.comp == s2.comp || !mayLink(s1.v1, s2.v1)) {
                continue;
            }
            std::string mid = chooseId(src, w, ix, true);
            std::string cid = chooseId(src, w, ix, true);
            bool existing = false;
            for (const auto &b : ix.slots) {
                if (b.type == T::CONNECTION && ((b.c1 == s1.comp && b.c2 == s2.comp) || (b.c1 == s2.comp && b.c2 == s1.comp))) {
                    existing = true;
                }
            }
            Variable::addEquivalence(s1.v1, s2.v1);
            Variable::setEquivalenceMappingId(s1.v1, s2.v1, mid);
            normaliseConnections(w, ix, s1.comp, s2.comp, cid);
            if (!existing) {
            }
            w.lastEditGroup = "equiv";
            w.log << "  edit add equivalence " << s1.key << " ~ " << s2.key << " mapping id='" << mid << "'" << (existing ? "" : " connection id='" + cid + "'") << "\n";
            return "add-equivalence";
        }
        break;
    }
    case 3: { // add a component (top level or as a child)
        auto comp = Component::create(name("zc"));
        std::string id = chooseId(src, w, ix, true);
        if (!id.empty()) {
            comp->setId(id);
        }
        std::string eid = src.flip(40) ? chooseId(src, w, ix, true) : "";
        if (!eid.empty()) {
            comp->setEncapsulationId(eid);
        }
        size_t where = src.below(comps.size() + 1);
        if (where == 0) {
            w.m->addComponent(comp);
        } else {
            comps[where - 1]->addComponent(comp);
        }
        w.lastEditGroup = "add";
        w.log << "  edit add component " << comp->name() << " under " << (where == 0 ? std::string("model") : comps[where - 1]->name()) << " id='" << id << "' encapsulation id='" << eid << "'\n";
        return "add-component";
    }
    case 4: { // add units with 0..2 children
        auto units = Units::create(name("zu"));
        std::string id = chooseId(src, w, ix, true);
        if (!id.empty()) {
            units->setId(id);
        }
        size_t n = src.below(3);
        std::string kids;
        for (size_t i = 0; i < n; ++i) {
            std::string kid = chooseId(src, w, ix, true);
            units->addUnit("second", "", 1.0 + static_cast<double>(i), 1.0, kid);
            kids += " '" + kid + "'";
        }
        w.m->addUnits(units);
        w.lastEditGroup = "add";
        w.log << "  edit add units " << units->name() << " id='" << id << "' unit ids:" << kids << "\n";
        return "add-units";
    }
    case 5: { // add a unit child
        std::vector<UnitsPtr> local;
        for (size_t i : unitsSlots) {
            if (!ix.slots[i].units->isImport()) {
                local.push_back(ix.slots[i].units);
            }
        }
        if (local.empty()) {
            break;
        }
        auto units = src.pick(local);
        std::string kid = chooseId(src, w, ix, true);
        units->addUnit("metre", "", 1.0, 1.0, kid);
        w.lastEditGroup = "add";
        w.log << "  edit add unit to " << units->name() << " id='" << kid << "'\n";
        return "add-unit";
    }
    case 6: { // add a reset
        std::vector<ComponentPtr> withVars;
        for (const auto &cp : comps) {
            if (cp->variableCount() > 0 && !cp->isImport()) {
                withVars.push_back(cp);
            }
        }
        if (withVars.empty()) {
            break;
        }
        auto comp = src.pick(withVars);
        auto r = Reset::create();
        r->setVariable(comp->variable(0));
        r->setTestVariable(comp->variable(comp->variableCount() - 1));
        r->setOrder(100 + w.freshName);
        std::string id = chooseId(src, w, ix, true);
        if (!id.empty()) {
            r->setId(id);
        }
        std::string tid, rid;
        if (src.flip(50)) {
            r->setTestValue("<math xmlns=\"http://www.w3.org/1998/Math/MathML\"><cn xmlns:cellml=\"http://www.cellml.org/cellml/2.0#\" cellml:units=\"dimensionless\">1</cn></math>");
            tid = chooseId(src, w, ix, true);
            r->setTestValueId(tid);
        }
        if (src.flip(50)) {
            r->setResetValue("<math xmlns=\"http://www.w3.org/1998/Math/MathML\"><cn xmlns:cellml=\"http://www.cellml.org/cellml/2.0#\" cellml:units=\"dimensionless\">2</cn></math>");
            rid = chooseId(src, w, ix, true);
            r->setResetValueId(rid);
        }
        comp->addReset(r);
        w.lastEditGroup = "add";
        w.log << "  edit add reset to " << comp->name() << " id='" << id << "' test_value id='" << tid << "' reset_value id='" << rid << "'\n";
        return "add-reset";
    }
    case 7: { // remove an equivalence
        if (mapSlots.empty()) {
            break;
        }
        const Slot &s = ix.slots[src.pick(mapSlots)];
        Variable::removeEquivalence(s.v1, s.v2);
        normaliseConnections(w, ix, nullptr, nullptr, "");
        w.lastEditGroup = "equiv";
        w.log << "  edit remove equivalence " << s.key << "\n";
        return "remove-equivalence";
    }
    case 8: { // remove a variable (its equivalences first)
        if (varSlots.empty()) {
            break;
        }
        const Slot &s = ix.slots[src.pick(varSlots)];
        bool referenced = false; // keep variables a reset refers to
        for (size_t i : resetSlots) {
            referenced = referenced || ix.slots[i].reset->variable() == s.v1 || ix.slots[i].reset->testVariable() == s.v1;
        }
        if (referenced) {
            break;
        }
        unlinkVariable(w, s.v1);
        normaliseConnections(w, ix, nullptr, nullptr, "");
        w.keepAlive.push_back(s.v1);
        for (size_t i = 0; i < s.comp->variableCount(); ++i) {
            if (s.comp->variable(i) == s.v1) {
                s.comp->removeVariable(i);
                break;
            }
        }
        w.lastEditGroup = "remove";
        w.log << "  edit remove " << s.key << "\n";
        return "remove-variable";
    }
    case 9: { // remove a component with its subtree
        if (comps.size() < 2) {
            break;
        }
        auto comp = src.pick(comps);
        std::vector<ComponentPtr> sub;
        collectComponents(comp, sub);
        for (const auto &sc : sub) {
            for (size_t i = 0; i < sc->variableCount(); ++i) {
                unlinkVariable(w, sc->variable(i));
            }
        }
        normaliseConnections(w, ix, nullptr, nullptr, "");
        w.keepAlive.push_back(comp);
        auto parent = comp->parent();
        auto pe = std::dynamic_pointer_cast<ComponentEntity>(parent);
        for (size_t i = 0; pe != nullptr && i < pe->componentCount(); ++i) {
            if (pe->component(i) == comp) {
                pe->removeComponent(i);
                break;
            }
        }
        w.lastEditGroup = "remove";
        w.log << "  edit remove component " << comp->name() << " (subtree of " << sub.size() << ")\n";
        return "remove-component";
    }
    case 10: { // remove units
        if (unitsSlots.empty()) {
            break;
        }
        const Slot &s = ix.slots[src.pick(unitsSlots)];
        w.keepAlive.push_back(s.units);
        for (size_t i = 0; i < w.m->unitsCount(); ++i) {
            if (w.m->units(i) == s.units) {
                w.m->removeUnits(i);
                break;
            }
        }
        w.lastEditGroup = "remove";
        w.log << "  edit remove " << s.key << "\n";
        return "remove-units";
    }
    case 11: { // remove a unit child
        if (unitSlots.empty()) {
            break;
        }
        const Slot &s = ix.slots[src.pick(unitSlots)];
        s.units->removeUnit(s.index);
        w.lastEditGroup = "remove";
        w.log << "  edit remove " << s.key << "\n";
        return "remove-unit";
    }
    case 12: { // remove a reset
        if (resetSlots.empty()) {
            break;
        }
        const Slot &s = ix.slots[src.pick(resetSlots)];
        w.keepAlive.push_back(s.reset);
        for (size_t i = 0; i < s.comp->resetCount(); ++i) {
            if (s.comp->reset(i) == s.reset) {
                s.comp->removeReset(i);
                break;
            }
        }
        w.lastEditGroup = "remove";
        w.log << "  edit remove " << s.key << "\n";
        return "remove-reset";
    }
    case 13: { // turn a variable-less leaf component into an import with its own import source
        std::vector<ComponentPtr> cand;
        for (const auto &cp : comps) {
            if (!cp->isImport() && cp->variableCount() == 0 && cp->resetCount() == 0) {
                cand.push_back(cp);
            }
        }
        if (cand.empty()) {
            break;
        }
        auto comp = src.pick(cand);
        auto imp = ImportSource::create();
        imp->setUrl("edit" + std::to_string(++w.freshName) + ".cellml");
        std::string id = chooseId(src, w, ix, true);
        if (!id.empty()) {
            imp->setId(id);
        }
        comp->setImportSource(imp);
        comp->setImportReference("ref");
        w.lastEditGroup = "add";
        w.log << "  edit import component " << comp->name() << " import id='" << id << "'\n";
        return "add-import";
    }
    case 14: { // replace the last variable of a component by a new object with the same id (same position, same id)
        std::vector<ComponentPtr> cand;
        for (const auto &cp : comps) {
            if (cp->variableCount() == 0 || cp->variable(cp->variableCount() - 1)->id().empty()) {
                continue;
            }
            auto last = cp->variable(cp->variableCount() - 1);
            bool referenced = false;
            for (size_t i : resetSlots) {
                referenced = referenced || ix.slots[i].reset->variable() == last || ix.slots[i].reset->testVariable() == last;
            }
            if (!referenced) {
                cand.push_back(cp);
            }
        }
        if (cand.empty()) {
            break;
        }
        auto comp = src.pick(cand);
        auto old = comp->variable(comp->variableCount() - 1);
        unlinkVariable(w, old);
        normaliseConnections(w, ix, nullptr, nullptr, "");
        w.keepAlive.push_back(old);
        comp->removeVariable(comp->variableCount() - 1);
        auto v = Variable::create(name("zv"));
        v->setUnits("dimensionless");
        v->setId(old->id());
        comp->addVariable(v);
        w.lastEditGroup = "replace";
        w.log << "  edit replace variable " << comp->name() << "/" << old->name() << " by new variable " << v->name() << " with the same id '" << v->id() << "'\n";
        return "replace-variable";
    }
    case 15: { // add a variable pair to an existing connection without touching any id (2-argument addEquivalence)
        if (connSlots.empty()) {
            break;
        }
        const Slot &cs = ix.slots[src.pick(connSlots)];
        std::vector<std::pair<VariablePtr, VariablePtr>> cand;
        for (size_t i = 0; i < cs.c1->variableCount(); ++i) {
            for (size_t j = 0; j < cs.c2->variableCount(); ++j) {
                if (mayLink(cs.c1->variable(i), cs.c2->variable(j))) {
                    cand.emplace_back(cs.c1->variable(i), cs.c2->variable(j));
                }
            }
        }
        if (cand.empty()) {
            // no free variables: make two
            auto x = Variable::create(name("zv"));
            auto y = Variable::create(name("zv"));
            x->setUnits("dimensionless");
            y->setUnits("dimensionless");
            cs.c1->addVariable(x);
            cs.c2->addVariable(y);
            cand.emplace_back(x, y);
        }
        auto pr = src.pick(cand);
        bool swap = src.flip(50);
        Variable::addEquivalence(swap ? pr.second : pr.first, swap ? pr.first : pr.second);
        w.lastEditGroup = "equiv";
        w.log << "  edit add pair " << pr.first->name() << " ~ " << pr.second->name() << " to " << cs.key << " ('" << cs.id << "') with the 2-argument addEquivalence, no ids\n";
        return cs.id.empty() ? "add-pair-to-connection" : "add-pair-to-labelled-connection";
    }
    case 16: { // the connection id is held by one variable pair of a connection only (4-argument addEquivalence)
        std::vector<size_t> multi;
        for (size_t ci : connSlots) {
            size_t n = 0;
            for (size_t mi : mapSlots) {
                const Slot &ms = ix.slots[mi];
                n += ((ms.c1 == ix.slots[ci].c1 && ms.c2 == ix.slots[ci].c2) || (ms.c1 == ix.slots[ci].c2 && ms.c2 == ix.slots[ci].c1)) ? 1 : 0;
            }
            if (n >= 2) {
                multi.push_back(ci);
            }
        }
        if (multi.empty()) {
            // single-pair connections only: label one (through the setter) and add an unlabelled second pair
            if (connSlots.empty()) {
                break;
            }
            const Slot &one = ix.slots[src.pick(connSlots)];
            std::string id1 = one.id.empty() ? chooseId(src, w, ix, false) : one.id;
            Variable::setEquivalenceConnectionId(one.v1, one.v2, id1);
            auto x = Variable::create(name("zv"));
            auto y = Variable::create(name("zv"));
            x->setUnits("dimensionless");
            y->setUnits("dimensionless");
            one.c1->addVariable(x);
            one.c2->addVariable(y);
            Variable::addEquivalence(x, y);
            w.lastEditGroup = "equiv";
            w.log << "  edit " << one.key << ": id '" << id1 << "', then a second pair " << x->name() << " ~ " << y->name() << " added with the 2-argument addEquivalence\n";
            return "partial-connection-id";
        }
        const Slot &cs = ix.slots[src.pick(multi)];
        std::vector<size_t> pairs;
        for (size_t mi : mapSlots) {
            const Slot &ms = ix.slots[mi];
            if ((ms.c1 == cs.c1 && ms.c2 == cs.c2) || (ms.c1 == cs.c2 && ms.c2 == cs.c1)) {
                pairs.push_back(mi);
            }
        }
        std::string id = cs.id;
        if (id.empty()) {
            id = chooseId(src, w, ix, false);
        }
        // Which pair holds the id is tape-chosen, then rotated until some other pair reports no id through the public
        // getter (what the getter reports depends on the address order of the variables in the unrepaired library).
        size_t start = src.below(pairs.size());
        size_t holder = start;
        for (size_t t = 0; t < pairs.size(); ++t) {
            holder = (start + t) % pairs.size();
            Variable::setEquivalenceConnectionId(cs.v1, cs.v2, "");
            const Slot &h = ix.slots[pairs[holder]];
            Variable::addEquivalence(h.v1, h.v2, h.id, id);
            bool visible = false;
            for (size_t mi : pairs) {
                const Slot &o = ix.slots[mi];
                visible = visible || Variable::equivalenceConnectionId(o.v1, o.v2).empty() || Variable::equivalenceConnectionId(o.v2, o.v1).empty();
            }
            if (visible) {
                break;
            }
        }
        w.lastEditGroup = "equiv";
        w.log << "  edit " << cs.key << ": id '" << id << "' held by one of its " << pairs.size() << " variable pairs only (4-argument addEquivalence)\n";
        return "partial-connection-id";
    }
    case 17: { // ids inside MathML: component math or a reset's test / reset value
        std::vector<ComponentPtr> cand;
        for (const auto &cp : comps) {
            if (!cp->isImport() && cp->variableCount() > 0) {
                cand.push_back(cp);
            }
        }
        if (cand.empty()) {
            break;
        }
        auto comp = src.pick(cand);
        std::string i1 = chooseId(src, w, ix, true), i2 = src.flip(50) ? chooseId(src, w, ix, true) : "", i3 = src.flip(30) ? chooseId(src, w, ix, true) : "";
        std::string math = mathWithIds(comp->variable(0)->name(), i1, i2, i3);
        std::string where = "math of component " + comp->name();
        if (comp->resetCount() > 0 && src.flip(40)) {
            auto r = comp->reset(src.below(comp->resetCount()));
            if (src.flip(50)) {
                r->setTestValue(math);
                where = "test_value of a reset of " + comp->name();
            } else {
                r->setResetValue(math);
                where = "reset_value of a reset of " + comp->name();
            }
        } else {
            comp->setMath(math);
        }
        w.lastEditGroup = "math";
        w.log << "  edit set " << where << " with MathML ids '" << i1 << "' '" << i2 << "' '" << i3 << "'\n";
        return "set-math-ids";
    }
    default: break;
    }
    // kind 0 and every inapplicable edit: set / remove the id of one slot
    size_t si = src.below(ix.slots.size());
    {
        // mapping / connection slots are few: give them a share of their own
        std::vector<size_t> pairSlots;
        for (size_t i = 0; i < ix.slots.size(); ++i) {
            if (hashBlind(ix.slots[i].type)) {
                pairSlots.push_back(i);
            }
        }
        if (!pairSlots.empty() && src.flip(25)) {
            si = src.pick(pairSlots);
        }
    }
    const Slot &s = ix.slots[si];
    std::string id = chooseId(src, w, ix, true);
    setSlotId(s, id);
    w.lastEditGroup = "id";
    w.log << "  edit set id of " << s.key << " '" << s.id << "' -> '" << id << "'\n";
    return std::string(id.empty() ? "remove-id:" : "set-id:") + typeName(s.type);
}

// ---------------------------------------------------------------------------------------------- lookups vs reference

// Localisation of the shared-import-source finding: one ImportSource object used by n entities is listed n times.
bool sharedImportSeen(World &w, const Index &ix, const char *after)
{
    for (const auto &s : ix.slots) {
        if (s.type != T::IMPORT || s.users < 2 || s.id.empty()) {
            continue;
        }
        size_t perObject = 0, perUser = 0;
        for (size_t i : ix.withId(s.id)) {
            ++perObject;
            perUser += ix.slots[i].type == T::IMPORT ? ix.slots[i].users : 1;
        }
        size_t n = w.a->itemCount(s.id);
        if (n == perUser) {
            w.c->fail("C13.index|shared-import-source|itemCount", std::string("after ") + after + ": itemCount('" + s.id + "') = " + std::to_string(n) + " but " + std::to_string(perObject) + " item(s) carry it; the import source " + s.key
                                                                      + " is shared by " + std::to_string(s.users) + " importing entities and is counted once per entity");
            return true;
        }
    }
    return false;
}

// ids(), duplicateIds(), itemCount(), items(), item(), isUnique() and the typed getters against the traversal.
void checkIndex(World &w, const char *after)
{
    Case &c = *w.c;
    Index ix = traverse(w.m);
    if (ix.inconsistentConnection || ix.foreignEquivalence) {
        c.count("discard:ambiguous-connection-state");
        return;
    }
    // localisation only: is the annotator expected to answer from an id list that its hash guard considers current
    // although the model changed?
    const std::string stale = w.staleLookupExpected(ix) ? "stale-hash|" : "";
    w.onUpdate(ix);
    auto a = w.a;
    if (stale.empty() && sharedImportSeen(w, ix, after)) {
        return;
    }
    std::vector<std::string> want = ix.ids();
    std::vector<std::string> got = a->ids();
    if (!monitor(w, "ids()").empty()) {
        return;
    }
    auto join = [](const std::vector<std::string> &v) {
        std::string s;
        for (const auto &x : v) {
            s += "'" + x + "' ";
        }
        return s;
    };
    std::sort(got.begin(), got.end());
    VP_CHECK(c, got == want, "C13.index|" + stale + "ids", "after " << after << ": ids() = " << join(got) << " but the model carries " << join(want));
    std::vector<std::string> wantDup;
    for (const auto &id : want) {
        if (ix.withId(id).size() > 1) {
            wantDup.push_back(id);
        }
    }
    std::vector<std::string> gotDup = a->duplicateIds();
    if (!monitor(w, "duplicateIds()").empty()) {
        return;
    }
    std::sort(gotDup.begin(), gotDup.end());
    // which kind of item makes the difference (localisation)
    auto kindsOf = [&](const std::string &id) {
        std::string k;
        if (id.empty()) {
            return k;
        }
        for (size_t i : ix.withId(id)) {
            k += std::string(k.empty() ? "" : "+") + typeName(ix.slots[i].type);
        }
        return k;
    };
    if (gotDup != wantDup) {
        std::string which;
        for (const auto &id : gotDup) {
            if (std::find(wantDup.begin(), wantDup.end(), id) == wantDup.end()) {
                which = "extra:" + kindsOf(id);
                break;
            }
        }
        if (which.empty()) {
            for (const auto &id : wantDup) {
                if (std::find(gotDup.begin(), gotDup.end(), id) == gotDup.end()) {
                    which = "missing:" + kindsOf(id);
                    break;
                }
            }
        }
        c.fail("C13.index|" + stale + "duplicateIds|" + which, std::string("after ") + after + ": duplicateIds() = " + join(gotDup) + " but the traversal finds " + join(wantDup));
        return;
    }
    std::vector<std::string> probe = want;
    probe.push_back("no-such-id");
    probe.push_back("");
    for (const auto &id : probe) {
        std::vector<size_t> slots = id.empty() ? std::vector<size_t>() : ix.withId(id);
        size_t n = a->itemCount(id);
        VP_CHECK(c, n == slots.size(), "C13.index|" + stale + "itemCount|" + kindsOf(id), "after " << after << ": itemCount('" << id << "') = " << n << " but " << slots.size() << " item(s) carry it: " << kindsOf(id));
        bool uq = a->isUnique(id);
        VP_CHECK(c, uq == (slots.size() == 1), "C13.index|" + stale + "isUnique", "after " << after << ": isUnique('" << id << "') = " << uq << " with " << slots.size() << " carriers");
        auto items = a->items(id);
        VP_CHECK(c, items.size() == slots.size(), "C13.index|" + stale + "items|" + kindsOf(id), "after " << after << ": items('" << id << "') has " << items.size() << " entries, expected " << slots.size());
        std::vector<bool> used(items.size(), false);
        for (size_t si : slots) {
            bool found = false;
            for (size_t k = 0; k < items.size(); ++k) {
                if (!used[k] && sameObject(items[k], ix.slots[si])) {
                    used[k] = true;
                    found = true;
                    break;
                }
            }
            VP_CHECK(c, found, "C13.index|" + stale + "items-object|" + typeName(ix.slots[si].type), "after " << after << ": items('" << id << "') does not contain " << ix.slots[si].key);
        }
        auto one = a->item(id);
        if (!monitor(w, "item(id)").empty()) {
            return;
        }
        VP_CHECK(c, one != nullptr, "C13.index|" + stale + "item-null", "item('" << id << "') returned a null pointer");
        if (slots.size() == 1) {
            const Slot &s = ix.slots[slots[0]];
            VP_CHECK(c, sameObject(one, s), "C13.index|" + stale + "item|" + typeName(s.type), "after " << after << ": item('" << id << "') is of type " << typeName(one->type()) << " and is not " << s.key);
            bool typed = true;
            switch (s.type) {
            case T::MODEL: typed = a->model(id) == s.model; break;
            case T::ENCAPSULATION: typed = a->encapsulation(id) == s.model; break;
            case T::IMPORT: typed = a->importSource(id) == s.imp; break;
            case T::UNITS: typed = a->units(id) == s.units; break;
            case T::UNIT: {
                auto ui = a->unitsItem(id);
                typed = ui != nullptr && ui->units() == s.units && ui->index() == s.index;
                break;
            }
            case T::COMPONENT: typed = a->component(id) == s.comp; break;
            case T::COMPONENT_REF: typed = a->componentEncapsulation(id) == s.comp; break;
            case T::VARIABLE: typed = a->variable(id) == s.v1; break;
            case T::RESET: typed = a->reset(id) == s.reset; break;
            case T::TEST_VALUE: typed = a->testValue(id) == s.reset; break;
            case T::RESET_VALUE: typed = a->resetValue(id) == s.reset; break;
            case T::MAP_VARIABLES: typed = a->mapVariables(id) != nullptr; break;
            case T::CONNECTION: typed = a->connection(id) != nullptr; break;
            default: break;
            }
            if (w.checkSiblings) {
                // the typed getters of the kinds that share the C++ class must not answer for this id
                bool none = true;
                switch (s.type) {
                case T::MODEL: none = a->encapsulation(id) == nullptr; break;
                case T::ENCAPSULATION: none = a->model(id) == nullptr; break;
                case T::COMPONENT: none = a->componentEncapsulation(id) == nullptr; break;
                case T::COMPONENT_REF: none = a->component(id) == nullptr; break;
                case T::RESET: none = a->testValue(id) == nullptr && a->resetValue(id) == nullptr; break;
                case T::TEST_VALUE: none = a->reset(id) == nullptr && a->resetValue(id) == nullptr; break;
                case T::RESET_VALUE: none = a->reset(id) == nullptr && a->testValue(id) == nullptr; break;
                case T::MAP_VARIABLES: none = a->connection(id) == nullptr; break;
                case T::CONNECTION: none = a->mapVariables(id) == nullptr; break;
                default: break;
                }
                if (!monitor(w, "typed getter of a sibling kind").empty()) {
                    return;
                }
                c.count("sibling_getter_checks");
                VP_CHECK(c, none, "C13.index|typed-getter-sibling|" + std::string(typeName(s.type)), "after " << after << ": '" << id << "' is the id of " << s.key << " but the typed getter of a sibling kind returns an object for it");
            }
            VP_CHECK(c, typed, "C13.index|" + stale + "typed-getter|" + typeName(s.type), "after " << after << ": the typed getter for '" << id << "' does not return " << s.key);
        } else {
            VP_CHECK(c, one->type() == T::UNDEFINED, "C13.index|" + stale + "item-non-unique|" + kindsOf(id), "after " << after << ": item('" << id << "') returned a " << typeName(one->type()) << " although " << slots.size() << " items carry the id");
            for (size_t k = 0; k < slots.size(); ++k) {
                auto nth = a->item(id, k);
                VP_CHECK(c, nth != nullptr && nth->type() != T::UNDEFINED, "C13.index|" + stale + "item-indexed|" + kindsOf(id), "after " << after << ": item('" << id << "', " << k << ") is undefined with " << slots.size() << " carriers");
            }
        }
    }
    monitor(w, "lookups");
}

// ---------------------------------------------------------------------------------------------- assign oracle

struct AssignCall
{
    std::string kind; // signature token: assignAllIds, assignAllIds(model), assignIds:<type>, assignId:<type>
    bool all = false;
    bool byType = false;
    T type = T::UNDEFINED;
    long target = -1; // slot index for assignId(item)
    bool expectNothing = false; // no model attached / foreign item: nothing may change
    bool viaAny = false; // assignId(AnyCellmlElement obtained from items())
    bool refuse = false; // the item is not an item of the model: the call must be refused
    VariablePtr nv1, nv2; // the non-item pair
    std::string hiddenBefore; // what the pair getters reported for it before the call
    std::string returned; // assignId(item) return value
};

void judgeAssign(World &w, const Index &pre, const AssignCall &call, bool verify)
{
    Case &c = *w.c;
    Index post = traverse(w.m);
    VP_CHECK(c, post.slots.size() == pre.slots.size(), "C13.structure|" + call.kind, "the set of id-bearing items changed from " << pre.slots.size() << " to " << post.slots.size());
    if (post.inconsistentConnection || post.foreignEquivalence) {
        c.count("discard:ambiguous-connection-state");
        return;
    }
    std::vector<size_t> fresh;
    for (size_t i = 0; i < pre.slots.size(); ++i) {
        const Slot &p = pre.slots[i];
        const Slot &q = post.slots[i];
        VP_CHECK(c, p.type == q.type && p.key == q.key, "C13.structure|" + call.kind, "slot " << i << " was " << p.key << " and is " << q.key);
        bool requested = !call.expectNothing && (call.all || (call.byType && p.type == call.type) || static_cast<long>(i) == call.target);
        bool isTarget = !call.expectNothing && static_cast<long>(i) == call.target;
        if (!p.id.empty() && !isTarget) {
            VP_CHECK(c, q.id == p.id, (p.type == T::CONNECTION && p.partial) ? "C13.preserve|partial-connection-id|" + call.kind : "C13.preserve|" + call.kind + "|" + typeName(p.type),
                     p.key << " had id '" << p.id << "' and now has '" << q.id << "'" << (p.partial ? " (the id was held by some variable pairs of the connection only)" : ""));
            continue;
        }
        if (isTarget) {
            // assignId(item) is documented to give the item a new automatic id (also when it had one)
            VP_CHECK(c, !q.id.empty(), "C13.complete|" + call.kind + "|" + typeName(p.type), p.key << " has no id after assignId");
            VP_CHECK(c, q.id == call.returned, "C13.return|" + call.kind, "assignId returned '" << call.returned << "' but " << p.key << " carries '" << q.id << "'");
            if (q.id != p.id) {
                fresh.push_back(i);
            } else {
                bool stale = w.attached && !w.cacheHas(p.id);
                c.fail(std::string("C13.unique|") + (stale ? "stale-cache|" : "") + call.kind + "|same-as-before",
                       p.key + " carried '" + p.id + "' at the time of the call and received the same id as its new automatic id" + (stale ? " (the annotator's id list had not seen that id)" : ""));
                return;
            }
            continue;
        }
        // p.id is empty
        if (requested && p.exists) {
            VP_CHECK(c, !q.id.empty(), "C13.complete|" + call.kind + "|" + typeName(p.type), p.key << " lacked an id and still has none");
        }
        if (!requested) {
            VP_CHECK(c, q.id.empty(), "C13.scope|" + call.kind + "|" + typeName(p.type), p.key << " was not of the requested kind but received id '" << q.id << "'");
        }
        if (!q.id.empty()) {
            fresh.push_back(i);
        }
    }
    if (call.expectNothing) {
        VP_CHECK(c, fresh.empty() && call.returned.empty(), (call.refuse ? "C13.refuse|" : "C13.no-model|") + call.kind, "an id was assigned although the call had to be refused (returned '" << call.returned << "')");
        if (call.nv1 != nullptr) {
            // (the connection getter may legitimately report the id of an existing connection between the two components)
            std::string hidden = Variable::equivalenceMappingId(call.nv1, call.nv2) + "|" + Variable::equivalenceConnectionId(call.nv1, call.nv2);
            VP_CHECK(c, hidden == call.hiddenBefore, "C13.refuse|" + call.kind, "the pair getters of a variable pair that is no map_variables / connection of the model changed from '" << call.hiddenBefore << "' to '" << hidden << "'");
        }
    }
    VP_CHECK(c, pre.mathIds == post.mathIds, "C13.preserve|" + call.kind + "|math", "the ids inside MathML strings changed");
    for (size_t k = 0; k < fresh.size(); ++k) {
        const Slot &q = post.slots[fresh[k]];
        {
            std::string mc = pre.mathCarrier(q.id);
            VP_CHECK(c, mc.empty(), "C13.unique|" + call.kind + "|hit:math", q.key << " received id '" << q.id << "' which is already the id of an element in the " << mc);
        }
        auto carriers = pre.withId(q.id);
        if (!carriers.empty()) {
            const Slot &carrier = pre.slots[carriers[0]];
            bool stale = w.attached && !w.cacheHas(q.id);
            c.fail(std::string("C13.unique|") + (stale ? "stale-cache|" : "") + call.kind + "|hit:" + typeName(carrier.type),
                   q.key + " received id '" + q.id + "' which " + carrier.key + " already carried at the time of the call" + (stale ? " (the id was put into the model after the annotator last rebuilt its id list)" : ""));
            return;
        }
        for (size_t j = 0; j < k; ++j) {
            VP_CHECK(c, post.slots[fresh[j]].id != q.id, "C13.unique|" + call.kind + "|new-new", q.key << " and " << post.slots[fresh[j]].key << " both received '" << q.id << "'");
        }
    }
    c.count("ids_assigned", static_cast<long>(fresh.size()));
    // bookkeeping: what the annotator's id list knows now
    if (w.attached && !call.expectNothing) {
        if (call.byType) {
            w.rebuild(post); // assignIds ends with setModel
        } else {
            for (size_t i : fresh) {
                const Slot &p = pre.slots[i];
                bool removable = call.viaAny || !(hashBlind(p.type) || p.type == T::UNIT); // removeId compares pair / unit items by pointer
                if (!p.id.empty() && removable) {
                    w.cacheRemove(p.id, p.key);
                }
                w.cache.emplace_back(post.slots[i].id, p.key);
            }
        }
    }
    if (!verify || !w.attached) {
        return;
    }
    // item(id) for each new id: right type, the very object
    const std::string stale = w.staleLookupExpected(post) ? "stale-hash|" : "";
    w.onUpdate(post);
    if (stale.empty() && sharedImportSeen(w, post, call.kind.c_str())) {
        return;
    }
    for (size_t i : fresh) {
        const Slot &q = post.slots[i];
        auto item = w.a->item(q.id);
        if (!monitor(w, "item(new id)").empty()) {
            return;
        }
        VP_CHECK(c, item != nullptr && sameObject(item, q), "C13.item|" + stale + call.kind + "|" + typeName(q.type),
                 "item('" << q.id << "') is " << (item == nullptr ? "null" : typeName(item->type())) << " and not " << q.key << " which carries the new id");
    }
    checkIndex(w, call.kind.c_str());
}

// ---------------------------------------------------------------------------------------------- printer leg

void silent(void *, const char *, ...)
{
}

std::string attr(xmlNodePtr n, const char *name)
{
    xmlChar *v = xmlGetNoNsProp(n, reinterpret_cast<const xmlChar *>(name));
    if (v == nullptr) {
        return "";
    }
    std::string s(reinterpret_cast<const char *>(v));
    xmlFree(v);
    return s;
}

bool hasAttr(xmlNodePtr n, const char *name)
{
    return xmlHasNsProp(n, reinterpret_cast<const xmlChar *>(name), nullptr) != nullptr;
}

struct DocElement
{
    std::string key, id;
    bool hasId = false;
};

void collectDoc(xmlNodePtr n, const std::string &ctx, std::vector<DocElement> &out, int &resetCounter)
{
    static const std::string ns = "http://www.cellml.org/cellml/2.0#";
    for (xmlNodePtr ch = n; ch != nullptr; ch = ch->next) {
        if (ch->type != XML_ELEMENT_NODE || ch->ns == nullptr || ns != reinterpret_cast<const char *>(ch->ns->href)) {
            continue;
        }
        std::string local(reinterpret_cast<const char *>(ch->name));
        DocElement e;
        e.hasId = hasAttr(ch, "id");
        e.id = attr(ch, "id");
        std::string sub = ctx;
        if (local == "model") {
            e.key = "model";
        } else if (local == "import") {
            // identified by its first child
            std::string first;
            for (xmlNodePtr k = ch->children; k != nullptr && first.empty(); k = k->next) {
                if (k->type == XML_ELEMENT_NODE) {
                    first = std::string(reinterpret_cast<const char *>(k->name)) + ":" + attr(k, "name");
                }
            }
            e.key = "import:" + first;
        } else if (local == "units") {
            e.key = "units:" + attr(ch, "name");
            sub = attr(ch, "name");
        } else if (local == "unit") {
            int idx = 0;
            for (xmlNodePtr k = ch->prev; k != nullptr; k = k->prev) {
                if (k->type == XML_ELEMENT_NODE) {
                    ++idx;
                }
            }
            e.key = "unit:" + ctx + "#" + std::to_string(idx);
        } else if (local == "component") {
            e.key = "component:" + attr(ch, "name");
            sub = attr(ch, "name");
            resetCounter = 0;
        } else if (local == "variable") {
            e.key = "variable:" + ctx + "/" + attr(ch, "name");
        } else if (local == "reset") {
            sub = ctx + "#" + std::to_string(resetCounter++);
            e.key = "reset:" + sub;
        } else if (local == "test_value" || local == "reset_value") {
            e.key = local + ":" + ctx;
        } else if (local == "connection") {
            e.key = "connection:" + pairKey(attr(ch, "component_1"), attr(ch, "component_2"));
            sub = attr(ch, "component_1") + "\n" + attr(ch, "component_2");
        } else if (local == "map_variables") {
            size_t p = ctx.find('\n');
            e.key = "map_variables:" + pairKey(ctx.substr(0, p) + "/" + attr(ch, "variable_1"), ctx.substr(p == std::string::npos ? ctx.size() : p + 1) + "/" + attr(ch, "variable_2"));
        } else if (local == "encapsulation") {
            e.key = "encapsulation";
        } else if (local == "component_ref") {
            e.key = "component_ref:" + attr(ch, "component");
        } else {
            e.key = "?" + local;
        }
        out.push_back(e);
        if (local == "reset") {
            int dummy = 0;
            collectDoc(ch->children, sub, out, dummy);
        } else {
            collectDoc(ch->children, sub, out, resetCounter);
        }
    }
}

void printerLeg(World &w)
{
    Case &c = *w.c;
    Index pre = traverse(w.m);
    if (pre.inconsistentConnection || pre.foreignEquivalence) {
        c.count("discard:ambiguous-connection-state");
        return;
    }
    const std::string before = dumpModel(w.m, DUMP_ORDERED | DUMP_RAW_MATH);
    auto printer = Printer::create();
    std::string text = printer->printModel(w.m, true);
    {
        std::string lg = checkLogger(printer);
        VP_CHECK(c, lg.empty(), "C15.monitor|Printer|" + lg.substr(0, lg.find('|')), lg);
    }
    xmlKeepBlanksDefault(1);
    std::string after = dumpModel(w.m, DUMP_ORDERED | DUMP_RAW_MATH);
    VP_CHECK(c, after == before, "C13.print|model-modified", firstDiff(before, after));
    VP_CHECK(c, !text.empty(), "C13.print|empty", "printModel(model, true) returned an empty string; issues: " << dumpIssues(printer));
    xmlSetGenericErrorFunc(nullptr, silent);
    xmlSetStructuredErrorFunc(nullptr, nullptr);
    xmlDocPtr d = xmlReadMemory(text.c_str(), static_cast<int>(text.size()), "p.xml", nullptr, XML_PARSE_NOERROR | XML_PARSE_NOWARNING | XML_PARSE_NONET);
    VP_CHECK(c, d != nullptr, "C13.print|unparsable", text.substr(0, 1500));
    std::vector<DocElement> doc;
    int rc = 0;
    collectDoc(xmlDocGetRootElement(d), "", doc, rc);
    xmlFreeDoc(d);
    c.count("printed_elements", static_cast<long>(doc.size()));
    // every element that can carry an id has one
    for (const auto &e : doc) {
        VP_CHECK(c, e.hasId && !e.id.empty(), "C13.print|missing-id|" + e.key.substr(0, e.key.find(':')), "element " << e.key << " has no id\n" << text.substr(0, 3000));
    }
    // element set == printed slots of the reference
    std::vector<std::string> newIds;
    size_t printedSlots = 0;
    for (const auto &s : pre.slots) {
        if (!s.printed) {
            continue;
        }
        ++printedSlots;
        const DocElement *hit = nullptr;
        size_t hits = 0;
        for (const auto &e : doc) {
            if (e.key == s.key) {
                hit = &e;
                ++hits;
            }
        }
        VP_CHECK(c, hits == 1, "C13.print|element|" + std::string(typeName(s.type)), "expected exactly one element for " << s.key << ", found " << hits << "\n" << text.substr(0, 3000));
        if (!s.id.empty()) {
            VP_CHECK(c, hit->id == s.id, "C13.print|preserve|" + std::string(s.partial ? "partial-connection-id" : typeName(s.type)), s.key << " has id '" << s.id << "' but was printed with '" << hit->id << "'");
        } else {
            {
                std::string mc = pre.mathCarrier(hit->id);
                VP_CHECK(c, mc.empty(), "C13.print|unique|hit:math", s.key << " was printed with the automatic id '" << hit->id << "' which is the id of an element in the " << mc);
            }
            auto carriers = pre.withId(hit->id);
            VP_CHECK(c, carriers.empty(), "C13.print|unique|hit:" + std::string(carriers.empty() ? "" : typeName(pre.slots[carriers[0]].type)),
                     s.key << " was printed with the automatic id '" << hit->id << "' which " << (carriers.empty() ? std::string() : pre.slots[carriers[0]].key) << " carries in the model");
            VP_CHECK(c, std::find(newIds.begin(), newIds.end(), hit->id) == newIds.end(), "C13.print|unique|new-new", "automatic id '" << hit->id << "' was written twice (" << s.key << ")");
            newIds.push_back(hit->id);
        }
    }
    VP_CHECK(c, printedSlots == doc.size(), "C13.print|element|extra", "the document has " << doc.size() << " CellML elements, the reference expects " << printedSlots << "\n" << text.substr(0, 3000));
    c.count("printer_new_ids", static_cast<long>(newIds.size()));
    c.cls("printer-leg");
    if (!newIds.empty()) {
        c.cls("printer-leg:new-ids");
    }
}

// ---------------------------------------------------------------------------------------------- model generation

struct IdDraw
{
    std::vector<std::string> given;
    int unique = 0;
    bool sawAuto = false, sawDup = false, sawUnique = false;
    unsigned mode = 0; // 0 mixed, 1 none, 2 all unique, 3 mostly auto-shaped

    std::string draw(Src &src)
    {
        unsigned k = static_cast<unsigned>(src.below(10));
        if (mode == 1) {
            return "";
        }
        if (mode == 2) {
            k = 4;
        }
        if (mode == 3 && k >= 2) {
            k = 8;
        }
        std::string id;
        if (k <= 3) {
            return "";
        }
        if (k <= 5) {
            id = "u" + std::to_string(++unique);
            sawUnique = true;
        } else if (k == 6 && !given.empty()) {
            id = src.pick(given);
            sawDup = true;
        } else {
            id = hexId(0xb4da55 + src.below(6));
            sawAuto = true;
            if (std::find(given.begin(), given.end(), id) != given.end()) {
                sawDup = true;
            }
        }
        given.push_back(id);
        return id;
    }
};

// Drop mappings that would put two variables of one component into one equivalence class (see notes/C13.md).
void filterMappings(ModelSpec &spec)
{
    std::vector<std::vector<std::pair<int, int>>> classes;
    auto find = [&](int cidx, int v) -> long {
        for (size_t i = 0; i < classes.size(); ++i) {
            for (const auto &x : classes[i]) {
                if (x.first == cidx && x.second == v) {
                    return static_cast<long>(i);
                }
            }
        }
        return -1;
    };
    for (auto &cn : spec.conns) {
        std::vector<MapSpec> kept;
        for (const auto &mp : cn.maps) {
            long a = find(cn.c1, mp.v1), b = find(cn.c2, mp.v2);
            std::vector<std::pair<int, int>> ca = a >= 0 ? classes[static_cast<size_t>(a)] : std::vector<std::pair<int, int>> {{cn.c1, mp.v1}};
            std::vector<std::pair<int, int>> cb = b >= 0 ? classes[static_cast<size_t>(b)] : std::vector<std::pair<int, int>> {{cn.c2, mp.v2}};
            bool ok = !(a >= 0 && a == b);
            for (const auto &x : ca) {
                for (const auto &y : cb) {
                    ok = ok && x.first != y.first;
                }
            }
            if (!ok) {
                continue;
            }
            kept.push_back(mp);
            ca.insert(ca.end(), cb.begin(), cb.end());
            if (a >= 0 && b >= 0) {
                classes[static_cast<size_t>(a)] = ca;
                classes.erase(classes.begin() + b);
            } else if (a >= 0) {
                classes[static_cast<size_t>(a)] = ca;
            } else if (b >= 0) {
                classes[static_cast<size_t>(b)] = ca;
            } else {
                classes.push_back(ca);
            }
        }
        cn.maps = kept;
    }
    spec.conns.erase(std::remove_if(spec.conns.begin(), spec.conns.end(), [](const ConnSpec &cn) { return cn.maps.empty(); }), spec.conns.end());
}

const std::vector<T> &allTypes()
{
    static const std::vector<T> t = {T::VARIABLE, T::COMPONENT, T::COMPONENT_REF, T::CONNECTION, T::ENCAPSULATION, T::IMPORT, T::MAP_VARIABLES, T::MODEL, T::RESET, T::RESET_VALUE,
                                     T::TEST_VALUE, T::UNIT, T::UNITS, T::MATH, T::UNDEFINED};
    return t;
}

enum StepKind
{
    S_ASSIGN_ALL,
    S_EDIT,
    S_ASSIGN_TYPE,
    S_ASSIGN_ITEM,
    S_LOOKUP,
    S_SET_MODEL,
    S_ASSIGN_ALL_MODEL,
    S_CLEAR,
    S_PRINT,
};

void run(Src &src, Case &c)
{
    xmlKeepBlanksDefault(1); // hidden-state reset (DESIGN 2.7)
    // ---- plan first
    const size_t nSteps = 1 + src.below(10);
    std::vector<StepKind> plan;
    for (size_t i = 0; i < nSteps; ++i) {
        static const std::vector<StepKind> table = {S_ASSIGN_ALL, S_EDIT, S_EDIT, S_ASSIGN_TYPE, S_ASSIGN_ITEM, S_ASSIGN_ITEM, S_LOOKUP, S_SET_MODEL, S_ASSIGN_ALL_MODEL, S_CLEAR, S_PRINT, S_EDIT, S_ASSIGN_TYPE, S_EDIT};
        plan.push_back(src.pick(table));
    }
    // the details of each step are drawn here too (8 values per step, replayed through a small tape), so that a tape
    // that runs out inside the model generator still has varied histories
    std::vector<std::vector<uint32_t>> stepTapes(nSteps);
    for (auto &t : stepTapes) {
        for (int i = 0; i < 8; ++i) {
            t.push_back(static_cast<uint32_t>(src.below(1u << 24)));
        }
    }
    std::vector<uint32_t> idValues;
    for (int i = 0; i < 64; ++i) {
        idValues.push_back(static_cast<uint32_t>(src.below(1u << 24)));
    }
    TapeSrc idSrc(idValues);
    const bool attachFirst = !src.flip(8);
    const bool finalPrint = src.flip(60);
    const bool mathIds = idValues[63] % 100 >= 80;
    const bool shareImports = src.flip(15);
    IdDraw ids;
    ids.mode = static_cast<unsigned>(src.below(8));
    if (ids.mode > 3) {
        ids.mode = 0;
    }
    // ---- model
    GenOpts opt;
    opt.ids = false;
    opt.math = false;
    opt.maxComps = 5;
    opt.maxVars = 3;
    opt.maxUnits = 3;
    ModelSpec spec = genValidModel(src, opt);
    filterMappings(spec);
    if (!shareImports) {
        // exclusion by construction of the known finding C13.index|*|import (one ImportSource used by several entities)
        std::vector<bool> used(spec.imports.size(), false);
        long excluded = 0;
        auto own = [&](int &imp) {
            if (imp < 0) {
                return;
            }
            if (!used[static_cast<size_t>(imp)]) {
                used[static_cast<size_t>(imp)] = true;
                return;
            }
            ImportSpec copy = spec.imports[static_cast<size_t>(imp)];
            spec.imports.push_back(copy);
            used.push_back(true);
            imp = static_cast<int>(spec.imports.size()) - 1;
            ++excluded;
        };
        for (auto &u : spec.units) {
            own(u.import);
        }
        for (auto &cp : spec.comps) {
            own(cp.import);
        }
        if (excluded > 0) {
            c.count("excluded:C13.index|shared-import-source", 1);
        }
    }
    spec.id = ids.draw(idSrc);
    spec.encId = ids.draw(idSrc);
    for (auto &i : spec.imports) {
        i.id = ids.draw(idSrc);
    }
    for (auto &u : spec.units) {
        u.id = ids.draw(idSrc);
        for (auto &k : u.units) {
            k.id = ids.draw(idSrc);
        }
    }
    for (size_t ci = 0; ci < spec.comps.size(); ++ci) {
        auto &cp = spec.comps[ci];
        cp.id = ids.draw(idSrc);
        bool inEnc = cp.parent >= 0 || !spec.childrenOf(static_cast<int>(ci)).empty();
        cp.encId = (inEnc || idSrc.flip(10)) ? ids.draw(idSrc) : "";
        for (auto &v : cp.vars) {
            v.id = ids.draw(idSrc);
        }
        for (auto &r : cp.resets) {
            r.id = ids.draw(idSrc);
            r.testValueId = ids.draw(idSrc);
            r.resetValueId = ids.draw(idSrc);
            if (mathIds && !cp.vars.empty() && idSrc.flip(40)) {
                (idSrc.flip(50) ? r.testValue : r.resetValue) = mathWithIds(cp.vars[0].name, ids.draw(idSrc), ids.draw(idSrc), "");
            }
        }
        if (mathIds && cp.import < 0 && !cp.vars.empty() && idSrc.flip(60)) {
            cp.math.push_back(mathWithIds(cp.vars[0].name, ids.draw(idSrc), ids.draw(idSrc), ids.draw(idSrc)));
        }
    }
    for (auto &cn : spec.conns) {
        cn.id = ids.draw(idSrc);
        for (auto &mp : cn.maps) {
            mp.id = ids.draw(idSrc);
        }
    }
    Built b = buildApi(spec, nullptr);
    World w;
    w.c = &c;
    w.m = b.model;
    w.a = Annotator::create();
    // one stored connection id per connection, written through the setter that covers every pair of the connection
    for (const auto &cn : spec.conns) {
        const auto &mp = cn.maps.front();
        Variable::setEquivalenceConnectionId(b.vars[static_cast<size_t>(cn.c1)][static_cast<size_t>(mp.v1)], b.vars[static_cast<size_t>(cn.c2)][static_cast<size_t>(mp.v2)], cn.id);
    }
    w.log << "ids: " << (ids.mode == 0 ? "mixed" : ids.mode == 1 ? "none" : ids.mode == 2 ? "unique" : "auto-shaped") << (shareImports ? ", import sources may be shared" : ", one import source per importing entity") << "\n"
          << specToText(spec) << "history:\n";

    bool editBeforeAssign = false;
    bool editPending = false; // an edit happened after the annotator last looked at the model
    auto finishText = [&]() {
        c.text = w.log.str();
        c.hash = hashStr(c.text);
        c.weight = c.text.size();
        c.nontrivial = editBeforeAssign || ids.sawAuto || ids.sawDup;
    };
    c.cls(std::string("pre-ids:") + (ids.sawAuto ? "auto-shaped" : ids.sawDup ? "duplicated" : ids.sawUnique ? "unique" : "none"));
    if (ids.sawDup) {
        c.cls("pre-ids:has-duplicates");
    }
    if (shareImports) {
        c.cls("imports-shared-allowed");
    }
    if (mathIds) {
        c.cls("math-ids-allowed");
    }
    if (attachFirst) {
        w.a->setModel(w.m);
        w.attached = true;
        w.rebuild(traverse(w.m));
        w.log << "  setModel\n";
        if (!monitor(w, "setModel").empty()) {
            finishText();
            return;
        }
    } else {
        c.cls("no-initial-setModel");
    }

    for (size_t step = 0; step < plan.size() && c.ok; ++step) {
        StepKind k = plan[step];
        TapeSrc src(stepTapes[step]); // shadows the case tape inside the step
        {
            const auto &st = stepTapes[step];
            w.checkSiblings = st[7] % 100 >= 70;
            w.extraEdit = st[6] % 100 >= 78 ? 15 + static_cast<int>((st[6] / 100) % 3) : -1;
            w.nonItemPair = st[5] % 100 >= 90;
        }
        auto crossLabel = [&](const std::string &family) {
            if (editPending && w.attached) {
                editBeforeAssign = true;
                c.cls("x:" + w.lastEditGroup + ">" + family);
            }
        };
        switch (k) {
        case S_EDIT: {
            std::string label = doEdit(src, w);
            c.cls("e:" + label);
            editPending = true;
            break;
        }
        case S_SET_MODEL:
            w.a->setModel(w.m);
            w.attached = true;
            w.rebuild(traverse(w.m));
            editPending = false;
            w.log << "  setModel\n";
            c.cls("a:setModel");
            monitor(w, "setModel");
            break;
        case S_LOOKUP:
            w.log << "  lookups\n";
            c.cls("a:lookups");
            if (w.attached) {
                if (editPending) {
                    c.cls("x:" + w.lastEditGroup + ">lookups");
                }
                checkIndex(w, "lookups");
                editPending = false;
            } else {
                auto got = w.a->ids();
                monitor(w, "ids() without model");
                if (!got.empty()) {
                    c.fail("C13.no-model|ids", "ids() of an annotator without a model is not empty");
                }
            }
            break;
        case S_CLEAR: {
            bool withModel = src.flip(30);
            w.log << (withModel ? "  clearAllIds(model)\n" : "  clearAllIds()\n");
            c.cls("a:clearAllIds");
            if (withModel) {
                w.a->clearAllIds(w.m);
                w.attached = true;
            } else {
                w.a->clearAllIds();
            }
            if (!monitor(w, "clearAllIds").empty()) {
                break;
            }
            if (w.attached) {
                Index ix = traverse(w.m);
                for (const auto &s : ix.slots) {
                    if (!s.id.empty()) {
                        c.fail("C13.clear|" + std::string(typeName(s.type)), s.key + " still carries '" + s.id + "' after clearAllIds");
                    }
                }
                w.cache.clear();
                w.hashState = "\x01zero";
                editPending = false;
                if (c.ok && src.flip(60)) {
                    checkIndex(w, "clearAllIds");
                }
            }
            break;
        }
        case S_PRINT:
            w.log << "  printModel(model, true)\n";
            printerLeg(w);
            break;
        case S_ASSIGN_ALL:
        case S_ASSIGN_ALL_MODEL:
        case S_ASSIGN_TYPE:
        case S_ASSIGN_ITEM: {
            Index pre = traverse(w.m);
            if (pre.inconsistentConnection || pre.foreignEquivalence) {
                c.count("discard:ambiguous-connection-state");
                finishText();
                return;
            }
            AssignCall call;
            bool verify = src.flip(75);
            if (k == S_ASSIGN_ALL) {
                call.kind = "assignAllIds";
                call.all = true;
                call.expectNothing = !w.attached;
                crossLabel("assignAllIds");
                w.log << "  assignAllIds()";
                bool r = w.a->assignAllIds();
                w.log << " -> " << r << "\n";
            } else if (k == S_ASSIGN_ALL_MODEL) {
                call.kind = "assignAllIds(model)";
                call.all = true;
                crossLabel("assignAllIds(model)");
                w.rebuild(pre); // starts with setModel
                w.log << "  assignAllIds(model)";
                bool r = w.a->assignAllIds(w.m);
                w.attached = true;
                w.log << " -> " << r << "\n";
            } else if (k == S_ASSIGN_TYPE) {
                call.type = src.pick(allTypes());
                call.kind = std::string("assignIds:") + typeName(call.type);
                call.byType = true;
                call.expectNothing = !w.attached;
                crossLabel("assignIds");
                w.log << "  assignIds(" << typeName(call.type) << ")";
                bool r = w.a->assignIds(call.type);
                w.log << " -> " << r << "\n";
            } else {
                // assignId(item): the tape picks a slot and one of the overloads that can address it
                bool foreign = src.flip(5);
                bool nonItemPair = !foreign && w.nonItemPair;
                std::vector<std::pair<VariablePtr, VariablePtr>> indirect, unrelated;
                if (nonItemPair) {
                    std::vector<VariablePtr> vars;
                    for (const auto &sl : pre.slots) {
                        if (sl.type == T::VARIABLE) {
                            vars.push_back(sl.v1);
                        }
                    }
                    for (size_t i = 0; i < vars.size(); ++i) {
                        for (size_t j = 0; j < vars.size(); ++j) {
                            if (i == j || ownerOf(vars[i]) == ownerOf(vars[j]) || vars[i]->hasEquivalentVariable(vars[j])) {
                                continue;
                            }
                            (vars[i]->hasEquivalentVariable(vars[j], true) ? indirect : unrelated).emplace_back(vars[i], vars[j]);
                        }
                    }
                    nonItemPair = !indirect.empty() || !unrelated.empty();
                }
                if (nonItemPair) {
                    bool useIndirect = !indirect.empty() && (unrelated.empty() || src.flip(60));
                    auto pr = src.pick(useIndirect ? indirect : unrelated);
                    T type = src.flip(50) ? T::CONNECTION : T::MAP_VARIABLES;
                    call.kind = std::string("assignId:non-item-pair:") + (useIndirect ? "indirect" : "unrelated");
                    call.expectNothing = true;
                    call.refuse = true;
                    call.nv1 = pr.first;
                    call.nv2 = pr.second;
                    call.hiddenBefore = Variable::equivalenceMappingId(pr.first, pr.second) + "|" + Variable::equivalenceConnectionId(pr.first, pr.second);
                    w.log << "  assignId(v1, v2, " << typeName(type) << ") on " << ownerOf(pr.first)->name() << "/" << pr.first->name() << " and " << ownerOf(pr.second)->name() << "/" << pr.second->name()
                          << " which are " << (useIndirect ? "only indirectly equivalent" : "not equivalent");
                    call.returned = src.flip(50) ? w.a->assignId(pr.first, pr.second, type) : w.a->assignId(VariablePair::create(pr.first, pr.second), type);
                    w.log << " -> '" << call.returned << "'\n";
                } else if (foreign) {
                    auto v = Variable::create("foreign");
                    call.kind = "assignId:foreign-variable";
                    call.expectNothing = true;
                    call.refuse = true;
                    w.log << "  assignId(variable that is not in the model)";
                    call.returned = w.a->assignId(v);
                    w.log << " -> '" << call.returned << "'\n";
                } else {
                    size_t si = src.below(pre.slots.size());
                    {
                        std::vector<size_t> pairSlots;
                        for (size_t i = 0; i < pre.slots.size(); ++i) {
                            if (hashBlind(pre.slots[i].type)) {
                                pairSlots.push_back(i);
                            }
                        }
                        if (!pairSlots.empty() && src.flip(25)) {
                            si = src.pick(pairSlots);
                        }
                    }
                    const Slot &s = pre.slots[si];
                    call.target = static_cast<long>(si);
                    call.kind = std::string("assignId:") + typeName(s.type);
                    call.expectNothing = !w.attached;
                    crossLabel("assignId");
                    if (w.attached) {
                        w.onUpdate(pre); // setAutoId() refreshes by hash before it draws the id
                    }
                    unsigned variant = static_cast<unsigned>(src.below(3));
                    std::string how;
                    AnyCellmlElementPtr any;
                    if (variant == 2 && w.attached && !s.id.empty()) {
                        // the generic overload needs an AnyCellmlElement, only obtainable from a lookup
                        for (const auto &it : w.a->items(s.id)) {
                            if (sameObject(it, s)) {
                                any = it;
                            }
                        }
                    }
                    if (any != nullptr) {
                        how = "AnyCellmlElement from items('" + s.id + "')";
                        call.viaAny = true;
                        call.returned = w.a->assignId(any);
                    } else {
                        switch (s.type) {
                        case T::MODEL:
                            how = variant == 0 ? "model" : "model, MODEL";
                            call.returned = variant == 0 ? w.a->assignId(s.model) : w.a->assignId(s.model, T::MODEL);
                            break;
                        case T::ENCAPSULATION:
                            how = "model, ENCAPSULATION";
                            call.returned = w.a->assignId(s.model, T::ENCAPSULATION);
                            break;
                        case T::IMPORT:
                            how = "import source";
                            call.returned = w.a->assignId(s.imp);
                            break;
                        case T::UNITS:
                            how = "units";
                            call.returned = w.a->assignId(s.units);
                            break;
                        case T::UNIT:
                            how = variant == 0 ? "units, index" : "UnitsItem";
                            call.returned = variant == 0 ? w.a->assignId(s.units, s.index) : w.a->assignId(UnitsItem::create(s.units, s.index));
                            break;
                        case T::COMPONENT:
                            how = variant == 0 ? "component" : "component, COMPONENT";
                            call.returned = variant == 0 ? w.a->assignId(s.comp) : w.a->assignId(s.comp, T::COMPONENT);
                            break;
                        case T::COMPONENT_REF:
                            how = "component, COMPONENT_REF";
                            call.returned = w.a->assignId(s.comp, T::COMPONENT_REF);
                            break;
                        case T::VARIABLE:
                            how = "variable";
                            call.returned = w.a->assignId(s.v1);
                            break;
                        case T::RESET:
                            how = variant == 0 ? "reset" : "reset, RESET";
                            call.returned = variant == 0 ? w.a->assignId(s.reset) : w.a->assignId(s.reset, T::RESET);
                            break;
                        case T::TEST_VALUE:
                        case T::RESET_VALUE:
                            how = std::string("reset, ") + typeName(s.type);
                            call.returned = w.a->assignId(s.reset, s.type);
                            break;
                        case T::MAP_VARIABLES:
                        case T::CONNECTION:
                            if (variant == 0) {
                                how = std::string("v1, v2, ") + typeName(s.type);
                                call.returned = s.type == T::MAP_VARIABLES && src.flip(30) ? w.a->assignId(s.v1, s.v2) : w.a->assignId(s.v1, s.v2, s.type);
                            } else if (variant == 1) {
                                how = std::string("v2, v1, ") + typeName(s.type);
                                call.returned = w.a->assignId(s.v2, s.v1, s.type);
                            } else {
                                how = std::string("VariablePair, ") + typeName(s.type);
                                call.returned = w.a->assignId(VariablePair::create(s.v1, s.v2), s.type);
                            }
                            break;
                        default: break;
                        }
                    }
                    w.log << "  assignId(" << how << ") on " << s.key << " ('" << s.id << "') -> '" << call.returned << "'\n";
                }
            }
            c.cls("a:" + call.kind);
            if (!monitor(w, call.kind.c_str()).empty()) {
                break;
            }
            judgeAssign(w, pre, call, verify);
            if (verify && w.attached) {
                editPending = false;
            }
            break;
        }
        }
    }
    if (c.ok && finalPrint) {
        w.log << "  finally printModel(model, true)\n";
        printerLeg(w);
    }
    if (!attachFirst) {
        c.count("histories_without_initial_setModel");
    }
    c.cls("steps=" + std::to_string(nSteps > 5 ? 6 : nSteps) + (nSteps > 5 ? "+" : ""));
    finishText();
}

} // namespace

namespace vp {
Property property = {
    "C13",
    "exploration",
    "rapidcheck tapes drive (1) a model generator (genValidModel shapes, validity not required) whose id-bearing items (model, encapsulation, components, component_refs, variables, units, unit children, "
    "import sources, resets, test/reset values, mappings, connections) carry pre-existing ids drawn from none / unique / duplicated / auto-shaped (b4da55...), and (2) a history of 1-10 steps: setModel, "
    "edits through the API (set/remove any id, add/remove/replace variables, components, units, unit children, resets, equivalences, import sources; variable pairs added to labelled connections without ids, connection ids "
    "held by one pair only, ids inside MathML), assignAllIds(), assignAllIds(model), assignIds(type) for every "
    "CellmlElementType, assignId(item) through every overload, clearAllIds, lookups, printModel(model, true). Oracle: an independent traversal of the model through public getters taken before and after each "
    "call (completeness, preservation, freshness against the pre-call traversal, pairwise distinct new ids, item(new id) is the very object, ids()/duplicateIds()/itemCount()/items()/isUnique()/typed getters equal "
    "the traversal); printed documents are inspected with libxml2 in the harness. Non-trivial: an edit happens between the annotator's last look at the model and an assign call, or auto-shaped / duplicated ids "
    "pre-exist. Distinct = hash of model text + history.",
    run,
    nullptr,
    {"the id of a connection is the one non-empty value its variable pairs report; connections whose pairs hold two different non-empty ids are discarded as ambiguous; Variable::removeEquivalenceConnectionId and removeAllEquivalences are not generated",
     "ids inside MathML strings are identifiers present in the model (new ids must avoid them, they must not change) but are not expected from ids() / item()",
     "no equivalence class holds two variables of one component",
     "component_ref / encapsulation / test_value / reset_value ids are demanded only where the XML representation has the element; stored ids on absent elements still count as ids present in the model",
     "assignId(item) gives its target a new id even when it had one (documented behaviour); every other id must be unchanged",
     "printed documents: ids are required on CellML-namespace elements only (not on MathML); only automatic ids are required to be distinct when pre-existing ids are duplicated",
     "typed getters must return nullptr for the id of a sibling kind (component / component_ref, model / encapsulation, connection / map_variables, reset / test_value / reset_value)"},
};
}

// VP-BUILD: internal
// C15 (enumerations) — every value of Issue::ReferenceRule and of CellmlElementType, listed from the headers at build time
// (kit/c15_enums.inc, bin/c15_enums.py), one enumerator per case, enumerated exhaustively (--mode ex).
//
//  * ReferenceRule value r: an issue carrying r must hand out referenceHeading() and url() without throwing.
//    The public API offers no way to make an issue with a chosen rule (Issue has no public constructor or setter; issues
//    only come out of the services), and several rules are emitted by no service at all, so this sweep takes a real issue
//    produced by Parser::parseModel("") and re-labels it through the private implementation header (src/issue_p.h,
//    reached with the explicit-instantiation idiom below; nothing in /repo is changed). The lookup itself -
//    Issue::referenceRule(), referenceHeading(), url() - is the public code path. The rules the services of the mixed
//    stream (props/C15.cpp) do provoke are additionally exercised there through purely public calls (x_rule_hits).
//  * CellmlElementType value t: cellmlElementTypeAsString(t) returns a non-empty, distinct text without throwing; an
//    AnyCellmlElement of type t obtained through public calls (Annotator::item on a fixture carrying one identifier per
//    element kind; a Validator issue for MATH; a failed lookup for UNDEFINED) hands out an object through exactly the
//    accessor documented for t and through no other; the typed Annotator lookup for t succeeds; Annotator::assignIds(t)
//    returns without throwing and leaves a coherent logger.
#include <libcellml>

#include <libxml/parser.h>

#include <set>

#include "issue_p.h"

#include "c15_common.h"
#include "prop.h"
#include "spec.h"

using namespace vp;
using namespace libcellml;

// ---- access to Issue::mPimpl without touching the library: names used in an explicit instantiation are exempt from access checks
namespace c15access {
template<auto Member>
struct Grant
{
    friend void setRule(Issue &issue, Issue::ReferenceRule rule) { (issue.*Member)->setReferenceRule(rule); }
    friend void setLevel(Issue &issue, Issue::Level level) { (issue.*Member)->setLevel(level); }
};
void setRule(Issue &issue, Issue::ReferenceRule rule);
void setLevel(Issue &issue, Issue::Level level);
template struct Grant<&Issue::mPimpl>;
} // namespace c15access

namespace {

const char *kMath = "<math xmlns=\"http://www.w3.org/1998/Math/MathML\" xmlns:cellml=\"http://www.cellml.org/cellml/2.0#\"><apply><eq/><ci>x</ci><cn cellml:units=\"second\">1</cn></apply></math>";

struct Fixture
{
    ModelPtr model, other;
    std::map<CellmlElementType, std::string> idOf;
};

// One identifier per element kind that can carry one.
Fixture makeFixture()
{
    Fixture f;
    auto m = Model::create("m");
    m->setId("id_model");
    m->setEncapsulationId("id_encapsulation");
    auto u = Units::create("u");
    u->setId("id_units");
    u->addUnit("second", "milli", 1.0, 1.0, "id_unit");
    m->addUnits(u);
    auto imp = ImportSource::create();
    imp->setUrl("other.cellml");
    imp->setId("id_import");
    auto ic = Component::create("imported");
    ic->setImportSource(imp);
    ic->setImportReference("there");
    m->addComponent(ic);
    auto p = Component::create("parent");
    p->setId("id_component");
    p->setEncapsulationId("id_component_ref");
    auto ch = Component::create("child");
    p->addComponent(ch);
    m->addComponent(p);
    auto x = Variable::create("x");
    x->setId("id_variable");
    x->setUnits(u);
    x->setInterfaceType("public_and_private");
    p->addVariable(x);
    auto y = Variable::create("x");
    y->setUnits(u);
    y->setInterfaceType("public");
    ch->addVariable(y);
    Variable::addEquivalence(x, y);
    Variable::setEquivalenceMappingId(x, y, "id_map_variables");
    Variable::setEquivalenceConnectionId(x, y, "id_connection");
    auto r = Reset::create();
    r->setId("id_reset");
    r->setVariable(x);
    r->setTestVariable(x);
    r->setOrder(1);
    r->setTestValue(kMath);
    r->setTestValueId("id_test_value");
    r->setResetValue(kMath);
    r->setResetValueId("id_reset_value");
    p->addReset(r);
    p->setMath(kMath);
    f.model = m;
    f.idOf = {{CellmlElementType::MODEL, "id_model"}, {CellmlElementType::ENCAPSULATION, "id_encapsulation"}, {CellmlElementType::UNITS, "id_units"}, {CellmlElementType::UNIT, "id_unit"},
              {CellmlElementType::IMPORT, "id_import"}, {CellmlElementType::COMPONENT, "id_component"}, {CellmlElementType::COMPONENT_REF, "id_component_ref"}, {CellmlElementType::VARIABLE, "id_variable"},
              {CellmlElementType::MAP_VARIABLES, "id_map_variables"}, {CellmlElementType::CONNECTION, "id_connection"}, {CellmlElementType::RESET, "id_reset"}, {CellmlElementType::TEST_VALUE, "id_test_value"},
              {CellmlElementType::RESET_VALUE, "id_reset_value"}};
    return f;
}

bool typedLookupSucceeds(const AnnotatorPtr &a, CellmlElementType t, const std::string &id)
{
    switch (t) {
    case CellmlElementType::COMPONENT: return a->component(id) != nullptr;
    case CellmlElementType::COMPONENT_REF: return a->componentEncapsulation(id) != nullptr;
    case CellmlElementType::CONNECTION: return a->connection(id) != nullptr;
    case CellmlElementType::ENCAPSULATION: return a->encapsulation(id) != nullptr;
    case CellmlElementType::IMPORT: return a->importSource(id) != nullptr;
    case CellmlElementType::MAP_VARIABLES: return a->mapVariables(id) != nullptr;
    case CellmlElementType::MODEL: return a->model(id) != nullptr;
    case CellmlElementType::RESET: return a->reset(id) != nullptr;
    case CellmlElementType::RESET_VALUE: return a->resetValue(id) != nullptr;
    case CellmlElementType::TEST_VALUE: return a->testValue(id) != nullptr;
    case CellmlElementType::UNIT: return a->unitsItem(id) != nullptr;
    case CellmlElementType::UNITS: return a->units(id) != nullptr;
    case CellmlElementType::VARIABLE: return a->variable(id) != nullptr;
    default: return true;
    }
}

void runRule(size_t k, Case &c)
{
    const std::string name = c15::ruleNames()[k];
    auto rule = static_cast<Issue::ReferenceRule>(k);
    c.cls("enum:ReferenceRule");
    c.text = "ReferenceRule::" + name + " (value " + std::to_string(k) + "): referenceHeading(), url() of an issue carrying it";
    c.hash = hashStr(c.text);
    c.nontrivial = true;
    auto parser = Parser::create();
    parser->parseModel("");
    VP_CHECK(c, parser->issueCount() == 1 && parser->issue(0) != nullptr, "C15.harness|no-seed-issue", "Parser::parseModel(\"\") did not produce the one issue this sweep re-labels");
    IssuePtr issue = parser->issue(0);
    for (size_t lv = 0; lv < c15::levelNames().size(); ++lv) {
        c15access::setRule(*issue, rule);
        c15access::setLevel(*issue, static_cast<Issue::Level>(lv));
        VP_CHECK(c, issue->referenceRule() == rule && issue->level() == static_cast<Issue::Level>(lv), "C15.harness|relabel-failed", "the re-labelled issue does not report the rule / level it was given");
        std::string heading, url;
        try {
            heading = issue->referenceHeading();
        } catch (const std::exception &e) {
            c.fail("C15.rule-table|" + name + "|referenceHeading", "Issue::referenceHeading() threw " + std::string(e.what()) + " for an issue whose referenceRule() is " + name);
            return;
        }
        try {
            url = issue->url();
        } catch (const std::exception &e) {
            c.fail("C15.rule-table|" + name + "|url", "Issue::url() threw " + std::string(e.what()) + " for an issue whose referenceRule() is " + name);
            return;
        }
        VP_CHECK(c, !url.empty() || rule == Issue::ReferenceRule::UNDEFINED, "C15.url|" + name + "|empty", "url() is empty for rule " + name);
        c.text += "\n  level " + std::string(c15::levelNames()[lv]) + ": heading '" + heading + "' url '" + url + "'";
        // the re-labelled issue sits in a real logger: the whole logger oracle must accept it at every level
        // (the per-level index vectors were filled when it was an ERROR, so only level ERROR is coherent by construction)
        if (lv == 0) {
            std::string lg = c15::kitLogger(parser);
            VP_CHECK(c, lg.empty(), "C15." + lg.substr(0, lg.find('|')) + "|Parser|relabelled:" + name, lg);
            lg = c15::strictLogger(parser);
            VP_CHECK(c, lg.empty(), "C15." + lg.substr(0, lg.find('|')) + "|Parser|relabelled:" + name, lg);
        }
    }
    c.cls(issue->referenceHeading().empty() ? "rule-without-section-number" : "rule-with-section-number");
}

void runType(size_t k, Case &c)
{
    const std::string name = c15::elementTypeNames()[k];
    auto type = static_cast<CellmlElementType>(k);
    c.cls("enum:CellmlElementType");
    c.text = "CellmlElementType::" + name + " (value " + std::to_string(k) + ")";
    c.hash = hashStr(c.text);
    c.nontrivial = true;
    // text form: no throw, non-empty, distinct from every other enumerator's
    std::set<std::string> seen;
    for (size_t j = 0; j < c15::elementTypeNames().size(); ++j) {
        std::string s;
        try {
            s = cellmlElementTypeAsString(static_cast<CellmlElementType>(j));
        } catch (const std::exception &e) {
            c.fail("C15.type-table|" + std::string(c15::elementTypeNames()[j]) + "|cellmlElementTypeAsString", "cellmlElementTypeAsString threw " + std::string(e.what()));
            return;
        }
        if (j == k) {
            VP_CHECK(c, !s.empty(), "C15.type-table|" + name + "|empty", "cellmlElementTypeAsString returned an empty string");
            c.text += " as string '" + s + "'";
        }
        VP_CHECK(c, seen.insert(s).second, "C15.type-table|" + std::string(c15::elementTypeNames()[j]) + "|duplicate-text", "two element types share the text '" + s + "'");
    }
    Fixture f = makeFixture();
    auto annotator = Annotator::create();
    annotator->setModel(f.model);
    AnyCellmlElementPtr item;
    std::string route;
    if (f.idOf.count(type) != 0) {
        route = "Annotator::item(\"" + f.idOf[type] + "\")";
        item = annotator->item(f.idOf[type]);
        VP_CHECK(c, annotator->issueCount() == 0, "C15.type-route|" + name + "|lookup-logged", "looking up the fixture's identifier logged: " + dumpIssues(annotator));
        VP_CHECK(c, typedLookupSucceeds(annotator, type, f.idOf[type]), "C15.type-route|" + name + "|typed-lookup", "the typed Annotator lookup for " + name + " returned null for identifier " + f.idOf[type]);
    } else if (type == CellmlElementType::MATH) {
        route = "Validator issue on a component whose math is not MathML";
        f.model->component("parent")->setMath("<math xmlns=\"http://www.w3.org/1998/Math/MathML\"><notmathml/></math>");
        auto validator = Validator::create();
        validator->validateModel(f.model);
        std::string lg = c15::kitLogger(validator);
        VP_CHECK(c, lg.empty(), "C15." + lg.substr(0, lg.find('|')) + "|Validator|math-fixture", lg);
        for (size_t i = 0; i < validator->issueCount() && item == nullptr; ++i) {
            if (validator->issue(i)->item()->type() == CellmlElementType::MATH) {
                item = validator->issue(i)->item();
            }
        }
        VP_CHECK(c, item != nullptr, "C15.harness|no-math-item", "the validator produced no issue with a MATH item: " + dumpIssues(validator));
    } else {
        route = "Annotator::item(\"no_such_id\")";
        item = annotator->item("no_such_id");
        VP_CHECK(c, annotator->issueCount() > 0, "C15.unexplained-failure|Annotator::item|unknown-id", "an empty item came back and nothing was logged");
    }
    VP_CHECK(c, item != nullptr, "C15.type-route|" + name + "|null-item", route + " returned a null pointer");
    VP_CHECK(c, item->type() == type, "C15.type-route|" + name + "|wrong-type", route + " returned an item of type " + c15::typeName(item->type()));
    std::string acc = c15::checkItemAccessors(item);
    VP_CHECK(c, acc.empty(), "C15.item-accessors|" + name + "|" + route.substr(0, route.find('(')), acc);
    c.text += "\n  item via " + route + ": accessors {" + c15::maskText(c15::accessorMask(item)) + "}";
    // assignIds(t) for every enumerator (MATH and UNDEFINED included): no throw, coherent logger
    bool changed = false;
    try {
        changed = annotator->assignIds(type);
    } catch (const std::exception &e) {
        c.fail("C15.type-table|" + name + "|assignIds", "Annotator::assignIds threw " + std::string(e.what()));
        return;
    }
    std::string lg = c15::kitLogger(annotator);
    VP_CHECK(c, lg.empty(), "C15." + lg.substr(0, lg.find('|')) + "|Annotator|assignIds:" + name, lg);
    lg = c15::strictLogger(annotator);
    VP_CHECK(c, lg.empty(), "C15." + lg.substr(0, lg.find('|')) + "|Annotator|assignIds:" + name, lg);
    c.text += std::string("\n  assignIds -> ") + (changed ? "true" : "false");
}

void run(Src &src, Case &c)
{
    xmlKeepBlanksDefault(1);
    size_t nr = c15::ruleNames().size(), nt = c15::elementTypeNames().size();
    size_t k = src.below(nr + nt);
    if (k < nr) {
        runRule(k, c);
    } else {
        runType(k - nr, c);
    }
}

void extra(std::ostream &o)
{
    o << ",\"x_enumerators\":{\"ReferenceRule\":" << c15::ruleNames().size() << ",\"Level\":" << c15::levelNames().size() << ",\"CellmlElementType\":" << c15::elementTypeNames().size() << "}";
}

} // namespace

namespace vp {
Property property = {
    "C15",
    "exploration",
    "enumeration sweep: one case per enumerator of Issue::ReferenceRule and CellmlElementType (lists generated from issue.h / enums.h before the build); a rule is placed on a real parser issue "
    "(private header, no public route exists) and referenceHeading()/url() must return at each level; an element type must have a text form and an item of that type obtained from Annotator / Validator "
    "must answer through exactly its documented accessor. Every case is non-trivial; distinct = enumerator.",
    run,
    nullptr,
    {"the rule of an existing issue is changed through src/issue_p.h (no public constructor or setter exists); everything observed afterwards is public API"},
    nullptr,
    extra,
};
}

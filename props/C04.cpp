// C04 — the validator accepts valid models and rejects every rule violation (fault enumeration).
//
// One case = one valid-by-construction base model (kit/gen.h; for half of the models with imports the imports are resolved
// against in-memory library models through Importer::addModel + resolveImports) that must validate with zero issues, plus a
// tape-chosen list of (fault family, location) pairs from the catalogue below — or, in sweep mode, one family at every
// applicable location. Every faulted copy is built through the API again, validated, and must carry at least one ERROR
// whose referenceRule() is in the family's acceptable set. Families, acceptable sets, location classes, findings: notes/C04.md.
// The family names are listed in bin/plans.d/C04.families (class floors); regenerate it after a change of the catalogue:
//     C04_LIST_FAMILIES=1 .build/asan/h/C04 > bin/plans.d/C04.families
#include <libcellml>

#include <libxml/parser.h>
#include <unistd.h>

#include <algorithm>
#include <cmath>
#include <functional>
#include <iostream>
#include <sstream>

#include "expr.h"
#include "gen.h"
#include "prop.h"
#include "spec.h"

using namespace vp;
using namespace libcellml;

namespace {

using Rule = Issue::ReferenceRule;
using RuleSet = std::set<Rule>;

#define C04_RULES(X) \
    X(UNDEFINED) X(XML) X(XML_UNEXPECTED_CHARACTER) X(XML_ID_ATTRIBUTE) X(MODEL_NAME) X(MODEL_NAME_VALUE) X(IMPORT_HREF) X(IMPORT_HREF_LOCATOR) X(IMPORT_UNITS_NAME) X(IMPORT_UNITS_NAME_VALUE) \
    X(IMPORT_UNITS_NAME_UNIQUE) X(IMPORT_UNITS_UNITS_REFERENCE) X(IMPORT_UNITS_UNITS_REFERENCE_VALUE) X(IMPORT_UNITS_UNITS_REFERENCE_VALUE_TARGET) X(IMPORT_COMPONENT_NAME) \
    X(IMPORT_COMPONENT_NAME_VALUE) X(IMPORT_COMPONENT_NAME_UNIQUE) X(IMPORT_COMPONENT_COMPONENT_REFERENCE) X(IMPORT_COMPONENT_COMPONENT_REFERENCE_VALUE) \
    X(IMPORT_COMPONENT_COMPONENT_REFERENCE_TARGET) X(IMPORT_EQUIVALENT_INFOSET) X(UNITS_NAME) X(UNITS_NAME_VALUE) X(UNITS_NAME_UNIQUE) X(UNITS_STANDARD) X(UNIT_UNITS) X(UNIT_UNITS_REFERENCE) \
    X(UNIT_UNITS_CIRCULAR_REFERENCE) X(UNIT_ATTRIBUTE_PREFIX_VALUE) X(COMPONENT_NAME) X(COMPONENT_NAME_VALUE) X(COMPONENT_NAME_UNIQUE) X(COMPONENT_CHILD) \
    X(VARIABLE_ATTRIBUTE_REQUIRED) X(VARIABLE_NAME_VALUE) X(VARIABLE_NAME_UNIQUE) X(VARIABLE_UNITS_VALUE) X(VARIABLE_INTERFACE_VALUE) X(VARIABLE_INITIAL_VALUE_VALUE) \
    X(RESET_ATTRIBUTE_REQUIRED) X(RESET_VARIABLE_REFERENCE) X(RESET_TEST_VARIABLE_REFERENCE) X(RESET_ORDER_VALUE) X(RESET_ORDER_UNIQUE) X(RESET_CHILD) \
    X(RESET_RESET_VALUE_CHILD) X(RESET_TEST_VALUE_CHILD) X(TEST_VALUE_ELEMENT) X(TEST_VALUE_CHILD) X(RESET_VALUE_ELEMENT) X(RESET_VALUE_CHILD) X(MATH_ELEMENT) \
    X(MATH_MATHML) X(MATH_CHILD) X(MATH_CI_VARIABLE_REFERENCE) X(MATH_CN_UNITS_ATTRIBUTE) X(MATH_CN_UNITS_ATTRIBUTE_REFERENCE) X(MATH_CN_BASE10) X(MATH_CN_FORMAT) \
    X(CONNECTION_ELEMENT) X(CONNECTION_COMPONENT1_ATTRIBUTE_REFERENCE) X(CONNECTION_COMPONENT2_ATTRIBUTE_REFERENCE) X(MAP_VARIABLES_ELEMENT) \
    X(MAP_VARIABLES_VARIABLE1_ATTRIBUTE) X(MAP_VARIABLES_VARIABLE1_ATTRIBUTE_REFERENCE) X(MAP_VARIABLES_VARIABLE2_ATTRIBUTE) X(MAP_VARIABLES_VARIABLE2_ATTRIBUTE_REFERENCE) \
    X(DATA_REPR_IDENTIFIER_AT_LEAST_ONE_ALPHANUM) X(DATA_REPR_IDENTIFIER_BEGIN_EURO_NUM) X(DATA_REPR_IDENTIFIER_LATIN_ALPHANUM) X(INVALID_ARGUMENT)

std::string ruleName(Rule r)
{
    switch (r) {
#define X(n) \
    case Rule::n: return #n;
        C04_RULES(X)
#undef X
    default: break;
    }
    return "rule#" + std::to_string(static_cast<int>(r));
}
#define R(n) Rule::n

// Decisions taken after the kit generator has run (library models, added features) would mostly read past the end of the
// tape and get the simplest choice every time. They are served from values drawn at the start of the tape and, when those
// are used up, from a hash chain seeded by them: still a pure function of the tape.
struct PoolSrc: Src
{
    std::vector<uint64_t> pool;
    size_t pos = 0;
    uint64_t chain = 0;
    PoolSrc(Src &main, size_t n)
    {
        for (size_t i = 0; i < n; ++i) {
            pool.push_back(main.below(1ULL << 32));
            chain = chain * 0x9E3779B97F4A7C15ULL + pool.back() + 1;
        }
    }

protected:
    uint64_t raw(uint64_t n) override
    {
        if (pos < pool.size()) {
            return pool[pos++] % n;
        }
        chain ^= chain >> 33;
        chain *= 0xff51afd7ed558ccdULL;
        chain ^= chain >> 29;
        chain += 0x9E3779B97F4A7C15ULL;
        return (chain >> 16) % n;
    }
};

// ------------------------------------------------------------------------------------------------ context

struct Ctx
{
    ModelSpec base;
    std::vector<ModelSpec> libs; // library models, one per distinct import url (resolved mode only)
    std::vector<std::string> libUrl;
    bool resolved = false;
    std::map<std::string, long> counts;

    const ModelSpec &m(int mi) const { return mi < 0 ? base : libs[static_cast<size_t>(mi)]; }
    ModelSpec &m(int mi) { return mi < 0 ? base : libs[static_cast<size_t>(mi)]; }
    int libIndex(const std::string &url) const
    {
        for (size_t i = 0; i < libUrl.size(); ++i) {
            if (libUrl[i] == url) {
                return static_cast<int>(i);
            }
        }
        return -1;
    }
    int libOfImport(int ii) const { return resolved && ii >= 0 ? libIndex(base.imports[static_cast<size_t>(ii)].url) : -1; }
};

int findUnits(const ModelSpec &m, const std::string &name)
{
    for (size_t i = 0; i < m.units.size(); ++i) {
        if (m.units[i].name == name) {
            return static_cast<int>(i);
        }
    }
    return -1;
}

int findComp(const ModelSpec &m, const std::string &name)
{
    for (size_t i = 0; i < m.comps.size(); ++i) {
        if (m.comps[i].name == name) {
            return static_cast<int>(i);
        }
    }
    return -1;
}

int findVar(const CompSpec &c, const std::string &name)
{
    for (size_t i = 0; i < c.vars.size(); ++i) {
        if (c.vars[i].name == name) {
            return static_cast<int>(i);
        }
    }
    return -1;
}

std::string ifaceUnion(const std::string &a, const std::string &b)
{
    bool pub = a.find("public") != std::string::npos || b.find("public") != std::string::npos;
    bool priv = a.find("private") != std::string::npos || b.find("private") != std::string::npos;
    return pub && priv ? "public_and_private" : (pub ? "public" : (priv ? "private" : "none"));
}

// Units a library variable gets so that it has the dimensions of the local variable it is mapped to (through the
// placeholder of the importing component). Only needed for the model to be valid in the sense of the specification: the
// validator does not compare units across an import boundary.
std::string libUnitsFor(Ctx &ctx, const std::string &localUnits, ModelSpec &lib)
{
    if (localUnits.empty()) {
        return "dimensionless";
    }
    if (isStandardUnit(localUnits)) {
        return localUnits;
    }
    UnitsRed r = reduceUnits(ctx.base, localUnits);
    bool expressible = r.defined;
    for (const auto &b : r.base) {
        expressible = expressible && isStandardUnit(b.first);
    }
    if (!expressible) {
        ctx.counts["lib:dimension-of-mapped-variable-not-expressible-in-library"] += 1;
        return "dimensionless";
    }
    if (r.base.empty()) {
        return "dimensionless";
    }
    UnitsSpec u;
    u.name = "eqv_" + std::to_string(lib.units.size());
    for (const auto &b : r.base) {
        UnitSpec c;
        c.ref = b.first;
        c.exponent = b.second;
        u.units.push_back(c);
    }
    lib.units.push_back(u);
    return u.name;
}

std::string simpleValue(Src &src, const std::vector<std::string> &names, bool math)
{
    Expr e = math ? genExpr(src, names, {"dimensionless", "second"}, 1) : Expr::cn(1, "dimensionless", "1");
    return mathBlockRaw(exprToMathml(e), 0);
}

// Library models: for every distinct url a model that holds what the importing model asks for, plus content of its own
// (helper units referenced by the imported units, extra variables, math, a reset, an encapsulated child that is connected).
void makeLibs(Ctx &ctx, Src &src, bool withMath, bool withResets)
{
    ModelSpec &b = ctx.base;
    for (const auto &imp : b.imports) {
        if (ctx.libIndex(imp.url) < 0) {
            ModelSpec lib;
            lib.name = "lib_" + std::to_string(ctx.libs.size());
            ctx.libs.push_back(lib);
            ctx.libUrl.push_back(imp.url);
        }
    }
    static const std::vector<std::string> stdPool = {"second", "metre", "kilogram", "volt", "dimensionless", "mole", "litre", "ampere"};
    for (const auto &u : b.units) {
        if (u.import < 0) {
            continue;
        }
        ModelSpec &lib = ctx.libs[static_cast<size_t>(ctx.libIndex(b.imports[static_cast<size_t>(u.import)].url))];
        if (findUnits(lib, u.importRef) >= 0) {
            continue;
        }
        UnitsSpec t;
        t.name = u.importRef;
        if (u.importRef == "shared_units") {
            // the units the harness imports itself (addImportedEntities): a millisecond, so that mappings to seconds are legal
            UnitSpec ms;
            ms.ref = "second";
            ms.prefix = "milli";
            t.units.push_back(ms);
            lib.units.push_back(t);
            continue;
        }
        size_t n = src.below(3);
        for (size_t k = 0; k < n; ++k) {
            UnitSpec c;
            if (src.flip(45)) {
                // a helper definition of the library's own, referenced by the imported one
                UnitsSpec h;
                h.name = "h" + std::to_string(lib.units.size()) + "_" + u.importRef;
                // In one case out of six the helper carries the name the *importing* model gives to the imported units:
                // legal (names are per model), and a trap for anything that identifies units by name across models.
                // Decided by a hash of the names, not by the tape, so that tapes saved before this was added keep their meaning.
                if (hashStr(u.name + "|" + u.importRef + "|" + b.name + "|" + std::to_string(b.comps.size())) % 6 == 0 && u.name != u.importRef && findUnits(lib, u.name) < 0 && !isStandardUnit(u.name)) {
                    h.name = u.name;
                    ctx.counts["lib:helper-units-named-like-the-importing-units"] += 1;
                }
                if (src.flip(60)) {
                    UnitSpec hc;
                    hc.ref = src.pick(stdPool);
                    hc.prefix = src.flip(40) ? "milli" : "";
                    hc.exponent = src.flip(30) ? 2.0 : 1.0;
                    h.units.push_back(hc);
                }
                lib.units.push_back(h);
                c.ref = h.name;
            } else {
                c.ref = src.pick(stdPool);
            }
            c.exponent = src.flip(30) ? -1.0 : 1.0;
            c.prefix = src.flip(25) ? "kilo" : "";
            t.units.push_back(c);
        }
        lib.units.push_back(t);
    }
    int order = 1;
    for (size_t ci = 0; ci < b.comps.size(); ++ci) {
        const CompSpec imp = b.comps[ci]; // copy: libUnitsFor may not touch base, but keep it simple
        if (imp.import < 0) {
            continue;
        }
        int li = ctx.libIndex(b.imports[static_cast<size_t>(imp.import)].url);
        ModelSpec &lib = ctx.libs[static_cast<size_t>(li)];
        int t = findComp(lib, imp.importRef);
        bool fresh = t < 0;
        if (fresh) {
            CompSpec c;
            c.name = imp.importRef;
            lib.comps.push_back(c);
            t = static_cast<int>(lib.comps.size()) - 1;
        }
        for (size_t k = 0; k < imp.vars.size(); ++k) {
            // the local variable this placeholder is mapped to gives the dimensions
            std::string localUnits;
            for (const auto &cn : b.conns) {
                for (const auto &mp : cn.maps) {
                    if (cn.c1 == static_cast<int>(ci) && mp.v1 == static_cast<int>(k)) {
                        localUnits = b.comps[static_cast<size_t>(cn.c2)].vars[static_cast<size_t>(mp.v2)].units;
                    } else if (cn.c2 == static_cast<int>(ci) && mp.v2 == static_cast<int>(k)) {
                        localUnits = b.comps[static_cast<size_t>(cn.c1)].vars[static_cast<size_t>(mp.v1)].units;
                    }
                }
            }
            std::string need = requiredInterface(b, static_cast<int>(ci), static_cast<int>(k));
            int v = findVar(lib.comps[static_cast<size_t>(t)], imp.vars[k].name);
            if (v < 0) {
                VarSpec lv;
                lv.name = imp.vars[k].name;
                lv.units = libUnitsFor(ctx, localUnits, lib);
                lv.iface = need;
                lib.comps[static_cast<size_t>(t)].vars.push_back(lv);
            } else {
                auto &lv = lib.comps[static_cast<size_t>(t)].vars[static_cast<size_t>(v)];
                lv.iface = ifaceUnion(lv.iface, need);
            }
        }
        if (!fresh) {
            continue;
        }
        // own content
        size_t extra = src.below(3);
        for (size_t k = 0; k < extra; ++k) {
            VarSpec lv;
            lv.name = "lv" + std::to_string(k);
            std::vector<std::string> pool = stdPool;
            for (const auto &u : lib.units) {
                pool.push_back(u.name);
            }
            lv.units = src.pick(pool);
            if (src.flip(30)) {
                lv.initial = "1.5";
            }
            lib.comps[static_cast<size_t>(t)].vars.push_back(lv);
        }
        if (src.flip(60)) {
            // units of the library's own that only a variable of the imported component uses (optionally through another definition)
            std::string inner;
            if (src.flip(40)) {
                UnitsSpec uu;
                uu.name = "cuu" + std::to_string(lib.units.size()) + "_" + imp.importRef;
                UnitSpec c;
                c.ref = src.pick(stdPool);
                c.exponent = 2.0;
                uu.units.push_back(c);
                lib.units.push_back(uu);
                inner = uu.name;
            }
            UnitsSpec cu;
            cu.name = "cu" + std::to_string(lib.units.size()) + "_" + imp.importRef;
            UnitSpec c;
            c.ref = inner.empty() ? src.pick(stdPool) : inner;
            c.prefix = "milli";
            cu.units.push_back(c);
            if (src.flip(40)) {
                UnitSpec c2;
                c2.ref = "second";
                c2.exponent = -1.0;
                cu.units.push_back(c2);
            }
            lib.units.push_back(cu);
            VarSpec lv;
            lv.name = "lcv";
            lv.units = cu.name;
            lib.comps[static_cast<size_t>(t)].vars.push_back(lv);
        }
        bool kid = src.flip(50);
        int kidIndex = -1;
        if (kid) {
            VarSpec pv;
            pv.name = "to_kid";
            pv.units = "second";
            pv.iface = src.flip(50) ? "private" : "public_and_private";
            lib.comps[static_cast<size_t>(t)].vars.push_back(pv);
            CompSpec kc;
            kc.name = imp.importRef + "_kid";
            kc.parent = t;
            VarSpec kv;
            kv.name = "from_parent";
            kv.units = "second";
            kv.iface = "public";
            kc.vars.push_back(kv);
            if (src.flip(50)) {
                VarSpec kv2;
                kv2.name = "kv";
                kv2.units = "metre";
                kc.vars.push_back(kv2);
            }
            lib.comps.push_back(kc);
            kidIndex = static_cast<int>(lib.comps.size()) - 1;
            ConnSpec cs;
            cs.c1 = t;
            cs.c2 = kidIndex;
            MapSpec ms;
            ms.v1 = static_cast<int>(lib.comps[static_cast<size_t>(t)].vars.size()) - 1;
            ms.v2 = 0;
            cs.maps.push_back(ms);
            lib.conns.push_back(cs);
        }
        for (int which : {t, kidIndex}) {
            if (which < 0) {
                continue;
            }
            CompSpec &c = lib.comps[static_cast<size_t>(which)];
            std::vector<std::string> names;
            for (const auto &v : c.vars) {
                names.push_back(v.name);
            }
            if (names.empty()) {
                continue;
            }
            if (withMath && src.flip(which == t ? 60 : 40)) {
                std::vector<std::pair<Expr, Expr>> eqs;
                eqs.emplace_back(Expr::ci(names[0]), genExpr(src, names, {"dimensionless", "second"}, 1));
                c.math.push_back(mathBlock(eqs, 0));
            }
            if (withResets && src.flip(which == t ? 40 : 25)) {
                ResetSpec r;
                r.var = static_cast<int>(src.below(c.vars.size()));
                r.testVar = static_cast<int>(src.below(c.vars.size()));
                r.hasOrder = true;
                r.order = order++;
                r.testValue = simpleValue(src, names, withMath);
                r.resetValue = simpleValue(src, names, withMath);
                c.resets.push_back(r);
            }
        }
    }
}

struct BuiltAll
{
    Built base;
    std::vector<Built> libs;
    ImporterPtr importer;
    bool importerClean = true;
    std::string importerText;
    std::vector<VariablePtr> keep; // objects made by API-level faults that nothing else owns
    std::vector<ComponentPtr> keepComponents;
};

BuiltAll buildAll(const Ctx &ctx, bool checkResolved)
{
    BuiltAll b;
    b.base = buildApi(ctx.base);
    if (ctx.resolved) {
        b.importer = Importer::create();
        for (size_t i = 0; i < ctx.libs.size(); ++i) {
            b.libs.push_back(buildApi(ctx.libs[i]));
            b.importer->addModel(b.libs.back().model, ctx.libUrl[i]);
        }
        b.importer->resolveImports(b.base.model, "/nonexistent-c04/base/");
        // hasUnresolvedImports() is asked for the base model only (faults on import references leave imports unresolved on purpose)
        b.importerClean = b.importer->issueCount() == 0 && (!checkResolved || !b.base.model->hasUnresolvedImports());
        if (!b.importerClean) {
            b.importerText = dumpIssues(b.importer);
        }
    }
    return b;
}

struct Verdict
{
    std::vector<std::pair<Rule, std::string>> errors; // ERROR level issues
    size_t issues = 0;
    std::string monitor; // C15 monitor text, "" = coherent
    std::string text; // all issues, for messages
};

Verdict validate(const ModelPtr &model)
{
    Verdict v;
    auto validator = Validator::create();
    validator->validateModel(model);
    v.monitor = checkLogger(validator);
    v.issues = validator->issueCount();
    std::ostringstream o;
    for (size_t i = 0; i < validator->issueCount(); ++i) {
        auto is = validator->issue(i);
        if (is == nullptr) {
            continue;
        }
        if (is->level() == Issue::Level::ERROR) {
            v.errors.emplace_back(is->referenceRule(), is->description());
        }
        o << "  [" << (is->level() == Issue::Level::ERROR ? "E" : (is->level() == Issue::Level::WARNING ? "W" : "M")) << " " << ruleName(is->referenceRule()) << " " << is->referenceHeading() << "] "
          << is->description() << "\n";
    }
    v.text = o.str();
    return v;
}

// Stable localisation of an unexpected issue: the rule plus the description with quoted text and numbers removed.
std::string issueClass(Rule r, const std::string &description)
{
    std::string s;
    bool quoted = false;
    for (char ch : description) {
        if (ch == '\'') {
            quoted = !quoted;
            if (!quoted) {
                s += "''";
            }
            continue;
        }
        if (quoted || (ch >= '0' && ch <= '9') || ch == '\n') {
            continue;
        }
        s += ch == ' ' ? '-' : ch;
        if (s.size() >= 70) {
            break;
        }
    }
    return ruleName(r) + ":" + s;
}

// "The mismatch is: second^0, metre^-0." : every reported exponent difference prints as zero (std::to_string keeps six decimals)
bool unitsMismatchIsRoundingResidue(const std::string &description)
{
    size_t p = description.find("The mismatch is: ");
    if (p == std::string::npos) {
        return false;
    }
    bool any = false;
    for (size_t i = description.find('^', p); i != std::string::npos; i = description.find('^', i + 1)) {
        if (description.compare(i - 2, 2, "10") == 0 && description.compare(i - 5, 5, "of 10") == 0) {
            continue; // the multiplication factor is not a dimension
        }
        any = true;
        if (std::fabs(strtod(description.c_str() + i + 1, nullptr)) > 1e-6) {
            return false;
        }
    }
    return any;
}

std::string ctxText(const Ctx &ctx)
{
    std::string t = specToText(ctx.base);
    for (size_t i = 0; i < ctx.libs.size(); ++i) {
        t += "\n--- library model for '" + ctx.libUrl[i] + "' ---\n" + specToText(ctx.libs[i]);
    }
    return t;
}

// kit/gen.cpp (genValidModel, "connections") makes a pair of variables compatible by giving the second variable the units
// of the first without looking at the mappings the second variable already has: an earlier mapping can end up joining
// different dimensions. Such mappings are removed here (removing a mapping keeps a model valid); see notes/C04.md.
long dropUnsoundMappings(ModelSpec &m)
{
    long dropped = 0;
    for (auto &cn : m.conns) {
        const auto &A = m.comps[static_cast<size_t>(cn.c1)];
        const auto &B = m.comps[static_cast<size_t>(cn.c2)];
        if (A.import >= 0 || B.import >= 0) {
            continue;
        }
        for (size_t i = 0; i < cn.maps.size();) {
            const std::string &u1 = A.vars[static_cast<size_t>(cn.maps[i].v1)].units;
            const std::string &u2 = B.vars[static_cast<size_t>(cn.maps[i].v2)].units;
            if (u1 != u2 && !sameBase(reduceUnits(m, u1), reduceUnits(m, u2))) {
                cn.maps.erase(cn.maps.begin() + static_cast<long>(i));
                ++dropped;
            } else {
                ++i;
            }
        }
    }
    for (size_t i = 0; i < m.conns.size();) {
        if (m.conns[i].maps.empty()) {
            m.conns.erase(m.conns.begin() + static_cast<long>(i));
        } else {
            ++i;
        }
    }
    return dropped;
}

// An import element with an imported units definition (used by a new variable) and an imported component that is the
// encapsulated child of a local component and connected to it through a placeholder variable.
void addImportedEntities(ModelSpec &m, Src &src, bool mapImportedUnitsToLocalUnits)
{
    ImportSpec is;
    is.url = src.flip(50) ? "lib0.cellml" : "sub/lib1.cellml";
    m.imports.push_back(is);
    UnitsSpec u;
    u.name = "imp_units";
    u.import = 0;
    u.importRef = "shared_units";
    bool front = src.flip(50);
    m.units.insert(front ? m.units.begin() : m.units.end(), u);
    std::vector<size_t> hosts;
    for (size_t ci = 0; ci < m.comps.size(); ++ci) {
        if (m.comps[ci].import < 0) {
            hosts.push_back(ci);
        }
    }
    if (hosts.empty()) {
        return;
    }
    size_t host = hosts[src.below(hosts.size())];
    VarSpec hv;
    hv.name = "to_import";
    hv.units = src.flip(50) ? "imp_units" : "second";
    hv.iface = "private";
    m.comps[host].vars.push_back(hv);
    CompSpec ic;
    ic.name = "imp_component";
    ic.import = 0;
    ic.importRef = "shared_component";
    ic.parent = static_cast<int>(host);
    if (m.depthOf(ic.parent) >= 3 || src.flip(30)) {
        ic.parent = m.comps[host].parent; // a sibling of the host instead of its child
        m.comps[host].vars.back().iface = "public";
    }
    VarSpec pv;
    pv.name = "placeholder";
    ic.vars.push_back(pv);
    m.comps.push_back(ic);
    ConnSpec cs;
    cs.c1 = static_cast<int>(host);
    cs.c2 = static_cast<int>(m.comps.size()) - 1;
    MapSpec ms;
    ms.v1 = static_cast<int>(m.comps[host].vars.size()) - 1;
    ms.v2 = 0;
    cs.maps.push_back(ms);
    m.conns.push_back(cs);
    if (mapImportedUnitsToLocalUnits) {
        // a variable in the imported units (the library defines them as millisecond, see makeLibs) mapped to a variable in seconds
        VarSpec x;
        x.name = "in_imported_units";
        x.units = "imp_units";
        x.iface = "public";
        m.comps[host].vars.push_back(x);
        CompSpec sib;
        sib.name = "c04_in_local_units";
        sib.parent = m.comps[host].parent;
        VarSpec y;
        y.name = "in_seconds";
        y.units = "second";
        y.iface = "public";
        sib.vars.push_back(y);
        m.comps.push_back(sib);
        ConnSpec c2;
        c2.c1 = static_cast<int>(host);
        c2.c2 = static_cast<int>(m.comps.size()) - 1;
        MapSpec m2;
        m2.v1 = static_cast<int>(m.comps[host].vars.size()) - 1;
        m2.v2 = 0;
        c2.maps.push_back(m2);
        m.conns.push_back(c2);
    }
}

// Further resets (unique orders, variables of the component, small values); mapped variables are preferred so that the
// connected variable sets the order rule talks about exist.
bool addMoreResets(ModelSpec &m, Src &src)
{
    int order = 100;
    bool added = false;
    for (size_t ci = 0; ci < m.comps.size(); ++ci) {
        auto &c = m.comps[ci];
        if (c.import >= 0 || c.vars.empty() || !src.flip(45)) {
            continue;
        }
        std::vector<std::string> names;
        for (const auto &v : c.vars) {
            names.push_back(v.name);
        }
        std::vector<int> mapped;
        for (const auto &cn : m.conns) {
            for (const auto &mp : cn.maps) {
                if (cn.c1 == static_cast<int>(ci)) {
                    mapped.push_back(mp.v1);
                }
                if (cn.c2 == static_cast<int>(ci)) {
                    mapped.push_back(mp.v2);
                }
            }
        }
        size_t n = 1 + src.below(2);
        for (size_t k = 0; k < n && c.resets.size() < 3; ++k) {
            ResetSpec r;
            r.var = !mapped.empty() && src.flip(70) ? mapped[src.below(mapped.size())] : static_cast<int>(src.below(c.vars.size()));
            r.testVar = static_cast<int>(src.below(c.vars.size()));
            r.hasOrder = true;
            r.order = order++;
            r.testValue = simpleValue(src, names, src.flip(50));
            r.resetValue = simpleValue(src, names, src.flip(50));
            c.resets.push_back(r);
            added = true;
        }
    }
    return added;
}

// A defect of the validator that makes valid base models fail: the identifier of an import source that is shared by
// several imported entities (one <import> element with several children) is counted once per entity.
bool sharedImportSourceWithId(const ModelSpec &m)
{
    for (size_t ii = 0; ii < m.imports.size(); ++ii) {
        if (m.imports[ii].id.empty()) {
            continue;
        }
        int users = 0;
        for (const auto &u : m.units) {
            users += u.import == static_cast<int>(ii) ? 1 : 0;
        }
        for (const auto &c : m.comps) {
            users += c.import == static_cast<int>(ii) ? 1 : 0;
        }
        if (users >= 2) {
            return true;
        }
    }
    return false;
}

// ------------------------------------------------------------------------------------------------ fault catalogue

struct Site
{
    int mi = -1; // -1 = the model under validation, >= 0 = library model
    int ci = -1, k = -1; // component; variable / reset index
    int ui = -1, uk = -1; // units; unit child
    int cn = -1, mp = -1; // connection; mapping
    int ii = -1; // import
    int where = -1; // math slot: 0 component math, 1 test_value, 2 reset_value
    int a = -1, b = -1, c = -1; // second entity of a pair, family specific
    std::string loc; // location class
    bool trivial = false; // "first child of a top-level component": where the suite's examples sit
};

struct Applied
{
    RuleSet accept;
    std::string desc;
    std::string loc; // refined location class ("" = the site's)
    std::vector<std::string> tags; // further class labels
    std::function<void(BuiltAll &)> post; // API-level part of the fault, run after build (and import resolution)
    bool importerMayFail = false; // the fault sits on an import reference: resolution of that import may fail
    bool nontrivial = false; // set by apply when the site alone does not tell
    bool isolate = false; // validate in a forked child first: the fault is known to be able to kill the process
};

struct Family
{
    std::string name;
    std::function<void(const Ctx &, std::vector<Site> &)> sites;
    std::function<bool(Ctx &, const Site &, uint64_t, Applied &)> apply;
    bool math = false; // needs MathML validation to be observed (profile selection only)
};

std::vector<Family> &catalogue()
{
    static std::vector<Family> c;
    return c;
}

#define FAMILY(NAME, ...) catalogue().push_back(Family {NAME, __VA_ARGS__})

std::string posClass(size_t i, size_t n)
{
    if (n <= 1 || i == 0) {
        return "first";
    }
    return i + 1 == n ? "last" : "mid";
}

std::string depthClass(const Ctx &ctx, int mi, int ci)
{
    const ModelSpec &m = ctx.m(mi);
    if (mi >= 0) {
        return m.comps[static_cast<size_t>(ci)].parent < 0 ? "lib" : "libkid";
    }
    int d = m.depthOf(ci);
    return d == 0 ? "top" : (d == 1 ? "enc1" : "enc2+");
}

size_t siblingIndex(const ModelSpec &m, int ci, size_t *count)
{
    auto sib = m.childrenOf(m.comps[static_cast<size_t>(ci)].parent);
    *count = sib.size();
    for (size_t i = 0; i < sib.size(); ++i) {
        if (sib[i] == ci) {
            return i;
        }
    }
    return 0;
}

std::string compLoc(const Ctx &ctx, int mi, int ci, bool *trivial = nullptr)
{
    size_t n = 0;
    size_t i = siblingIndex(ctx.m(mi), ci, &n);
    if (trivial != nullptr) {
        *trivial = mi < 0 && ctx.base.depthOf(ci) == 0 && i == 0;
    }
    return depthClass(ctx, mi, ci) + "/" + posClass(i, n);
}

std::string itemLoc(const Ctx &ctx, int mi, int ci, size_t i, size_t n, bool *trivial = nullptr)
{
    if (trivial != nullptr) {
        *trivial = mi < 0 && ctx.base.depthOf(ci) == 0 && i == 0;
    }
    return depthClass(ctx, mi, ci) + "/" + posClass(i, n);
}

// components that carry content the validator looks at: local ones of the base model, every one of a library model
template<class F>
void eachContentComp(const Ctx &ctx, F f)
{
    for (size_t ci = 0; ci < ctx.base.comps.size(); ++ci) {
        if (ctx.base.comps[ci].import < 0) {
            f(-1, static_cast<int>(ci));
        }
    }
    for (size_t li = 0; li < ctx.libs.size(); ++li) {
        for (size_t ci = 0; ci < ctx.libs[li].comps.size(); ++ci) {
            f(static_cast<int>(li), static_cast<int>(ci));
        }
    }
}

// Is this library component / units reached from the base model (an import names it, or it is below one that is)?
bool libCompIsTarget(const Ctx &ctx, int li, int ci)
{
    for (const auto &c : ctx.base.comps) {
        if (c.import >= 0 && ctx.libOfImport(c.import) == li && c.importRef == ctx.libs[static_cast<size_t>(li)].comps[static_cast<size_t>(ci)].name) {
            return true;
        }
    }
    return false;
}

bool libUnitsIsTarget(const Ctx &ctx, int li, int ui)
{
    for (const auto &u : ctx.base.units) {
        if (u.import >= 0 && ctx.libOfImport(u.import) == li && u.importRef == ctx.libs[static_cast<size_t>(li)].units[static_cast<size_t>(ui)].name) {
            return true;
        }
    }
    return false;
}

// Is this variable of a library component one the importing model maps to by name (through a placeholder)?
bool libVarIsMapped(const Ctx &ctx, int li, int ci, const std::string &name)
{
    if (li < 0) {
        return false;
    }
    for (const auto &c : ctx.base.comps) {
        if (c.import >= 0 && ctx.libOfImport(c.import) == li && c.importRef == ctx.libs[static_cast<size_t>(li)].comps[static_cast<size_t>(ci)].name && findVar(c, name) >= 0) {
            return true;
        }
    }
    return false;
}

// Is this library component imported (a target) or below one that is?
bool libCompIsImported(const Ctx &ctx, int li, int ci)
{
    const ModelSpec &lib = ctx.libs[static_cast<size_t>(li)];
    for (int c = ci; c >= 0; c = lib.comps[static_cast<size_t>(c)].parent) {
        if (libCompIsTarget(ctx, li, c)) {
            return true;
        }
    }
    return false;
}

// Is the library units definition used by a variable of an imported component (or of a descendant), directly or through
// the unit children of a definition that is? Such definitions become part of the importing model like the component does.
bool libUnitsUsedByImportedVariable(const Ctx &ctx, int li, int ui, int depth = 0)
{
    const ModelSpec &lib = ctx.libs[static_cast<size_t>(li)];
    const std::string &name = lib.units[static_cast<size_t>(ui)].name;
    for (size_t ci = 0; ci < lib.comps.size(); ++ci) {
        if (!libCompIsImported(ctx, li, static_cast<int>(ci))) {
            continue;
        }
        for (const auto &v : lib.comps[ci].vars) {
            if (v.units == name) {
                return true;
            }
        }
    }
    if (depth > 8) {
        return false;
    }
    for (size_t o = 0; o < lib.units.size(); ++o) {
        if (static_cast<int>(o) == ui) {
            continue;
        }
        for (const auto &c : lib.units[o].units) {
            if (c.ref == name && libUnitsUsedByImportedVariable(ctx, li, static_cast<int>(o), depth + 1)) {
                return true;
            }
        }
    }
    return false;
}

// Is the library units definition validated when the base model is (a target, or referenced from a target's children)?
bool libUnitsIsReached(const Ctx &ctx, int li, int ui, int depth = 0)
{
    if (libUnitsIsTarget(ctx, li, ui)) {
        return true;
    }
    if (depth == 0 && libUnitsUsedByImportedVariable(ctx, li, ui)) {
        return true;
    }
    if (depth > 8) {
        return false;
    }
    const ModelSpec &lib = ctx.libs[static_cast<size_t>(li)];
    for (size_t o = 0; o < lib.units.size(); ++o) {
        if (static_cast<int>(o) == ui) {
            continue;
        }
        for (const auto &c : lib.units[o].units) {
            if (c.ref == lib.units[static_cast<size_t>(ui)].name && libUnitsIsReached(ctx, li, static_cast<int>(o), depth + 1)) {
                return true;
            }
        }
    }
    return false;
}

std::string libUnitsClass(const Ctx &ctx, int li, int ui)
{
    if (libUnitsIsTarget(ctx, li, ui)) {
        return "lib-imported-units";
    }
    // reached through the unit children of an imported units definition?
    const ModelSpec &lib = ctx.libs[static_cast<size_t>(li)];
    std::vector<int> todo;
    std::set<int> seen;
    for (size_t o = 0; o < lib.units.size(); ++o) {
        if (libUnitsIsTarget(ctx, li, static_cast<int>(o))) {
            todo.push_back(static_cast<int>(o));
        }
    }
    while (!todo.empty()) {
        int o = todo.back();
        todo.pop_back();
        if (!seen.insert(o).second) {
            continue;
        }
        if (o == ui) {
            return "lib-referenced-units";
        }
        for (const auto &c : lib.units[static_cast<size_t>(o)].units) {
            int r = findUnits(lib, c.ref);
            if (r >= 0) {
                todo.push_back(r);
            }
        }
    }
    return "lib-units-of-imported-variable";
}

std::string cnText(const std::string &text, const std::string &units);

std::string attrEsc(const std::string &s)
{
    return xmlEscape(s);
}

void replaceAll(std::string &s, const std::string &from, const std::string &to)
{
    if (from.empty()) {
        return;
    }
    size_t p = 0;
    while ((p = s.find(from, p)) != std::string::npos) {
        s.replace(p, from.size(), to);
        p += to.size();
    }
}

template<class F>
void eachMathString(ModelSpec &m, int onlyComp, F f)
{
    for (size_t ci = 0; ci < m.comps.size(); ++ci) {
        if (onlyComp >= 0 && static_cast<int>(ci) != onlyComp) {
            continue;
        }
        for (auto &s : m.comps[ci].math) {
            f(s);
        }
        for (auto &r : m.comps[ci].resets) {
            f(r.testValue);
            f(r.resetValue);
        }
    }
}

// Renames a units definition together with every reference to it, so that the only rule broken is the one about the name.
void renameUnits(ModelSpec &m, int ui, const std::string &to)
{
    std::string from = m.units[static_cast<size_t>(ui)].name;
    m.units[static_cast<size_t>(ui)].name = to;
    for (auto &u : m.units) {
        for (auto &c : u.units) {
            if (c.ref == from) {
                c.ref = to;
            }
        }
    }
    for (auto &c : m.comps) {
        for (auto &v : c.vars) {
            if (v.units == from) {
                v.units = to;
            }
        }
    }
    eachMathString(m, -1, [&](std::string &s) { replaceAll(s, ":units=\"" + attrEsc(from) + "\"", ":units=\"" + attrEsc(to) + "\""); });
}

void renameVariable(ModelSpec &m, int ci, int k, const std::string &to)
{
    CompSpec &c = m.comps[static_cast<size_t>(ci)];
    std::string from = c.vars[static_cast<size_t>(k)].name;
    c.vars[static_cast<size_t>(k)].name = to;
    for (auto &v : c.vars) {
        if (v.initial == from) {
            v.initial = to;
        }
    }
    eachMathString(m, ci, [&](std::string &s) { replaceAll(s, "<ci>" + attrEsc(from) + "</ci>", "<ci>" + attrEsc(to) + "</ci>"); });
}

const std::vector<std::string> &badIdentChars()
{
    static const std::vector<std::string> v = {"a-b", "a b", "a.b", "\xC3\xA9t\xC3\xA9", "a:b", "x+", "k?", "n\xC2\xB5", "a/b"};
    return v;
}

enum IdentKind
{
    ID_EMPTY = 0,
    ID_DIGIT,
    ID_CHAR,
    ID_UNDERSCORES
};

const char *identKindName(int k)
{
    static const char *n[] = {"empty", "digit", "char", "underscores"};
    return n[k];
}

std::string badIdent(int kind, uint64_t aux)
{
    switch (kind) {
    case ID_EMPTY: return "";
    case ID_DIGIT: return aux % 2 == 0 ? "9lives" : "0";
    case ID_CHAR: return badIdentChars()[aux % badIdentChars().size()];
    default: return aux % 2 == 0 ? "_" : "__";
    }
}

RuleSet identRules(int kind, RuleSet valueRules, RuleSet missingRules)
{
    // The specific clause (x.y.z.1 "the value MUST be a valid identifier") or the data representation clause 1.3.1.1 it refers to.
    RuleSet s = std::move(valueRules);
    s.insert(kind == ID_EMPTY || kind == ID_UNDERSCORES ? R(DATA_REPR_IDENTIFIER_AT_LEAST_ONE_ALPHANUM) : (kind == ID_DIGIT ? R(DATA_REPR_IDENTIFIER_BEGIN_EURO_NUM) : R(DATA_REPR_IDENTIFIER_LATIN_ALPHANUM)));
    if (kind == ID_EMPTY) {
        // through the API an empty name is an absent attribute: the clause demanding the attribute is broken as well
        s.insert(missingRules.begin(), missingRules.end());
    }
    return s;
}

std::string q(const std::string &s)
{
    return "'" + s + "'";
}

void registerIdentFamilies()
{
    for (int kind = 0; kind < 4; ++kind) {
        const std::string kn = identKindName(kind);
        FAMILY("ident." + kn + ":model.name",
               [](const Ctx &, std::vector<Site> &out) {
                   Site s;
                   s.loc = "model";
                   s.trivial = true;
                   out.push_back(s);
               },
               [kind](Ctx &ctx, const Site &, uint64_t aux, Applied &ap) {
                   ctx.base.name = badIdent(kind, aux);
                   ap.accept = identRules(kind, {R(MODEL_NAME_VALUE)}, {R(MODEL_NAME)});
                   ap.desc = "model name := " + q(ctx.base.name);
                   return true;
               });
        FAMILY("ident." + kn + ":component.name",
               [](const Ctx &ctx, std::vector<Site> &out) {
                   eachContentComp(ctx, [&](int mi, int ci) {
                       if (mi >= 0 && libCompIsTarget(ctx, mi, ci)) {
                           return; // the name is what the import refers to: renaming it is a different fault
                       }
                       Site s;
                       s.mi = mi;
                       s.ci = ci;
                       s.loc = compLoc(ctx, mi, ci, &s.trivial);
                       out.push_back(s);
                   });
               },
               [kind](Ctx &ctx, const Site &s, uint64_t aux, Applied &ap) {
                   auto &c = ctx.m(s.mi).comps[static_cast<size_t>(s.ci)];
                   ap.desc = "component " + q(c.name) + " name := " + q(badIdent(kind, aux));
                   c.name = badIdent(kind, aux);
                   ap.accept = identRules(kind, {R(COMPONENT_NAME_VALUE)}, {R(COMPONENT_NAME)});
                   return true;
               });
        FAMILY("ident." + kn + ":import-component.name",
               [](const Ctx &ctx, std::vector<Site> &out) {
                   for (size_t ci = 0; ci < ctx.base.comps.size(); ++ci) {
                       if (ctx.base.comps[ci].import >= 0) {
                           Site s;
                           s.ci = static_cast<int>(ci);
                           s.loc = compLoc(ctx, -1, s.ci, &s.trivial) + (ctx.resolved ? "/resolved" : "/unresolved");
                           out.push_back(s);
                       }
                   }
               },
               [kind](Ctx &ctx, const Site &s, uint64_t aux, Applied &ap) {
                   auto &c = ctx.base.comps[static_cast<size_t>(s.ci)];
                   ap.desc = "imported component " + q(c.name) + " name := " + q(badIdent(kind, aux));
                   c.name = badIdent(kind, aux);
                   ap.accept = identRules(kind, {R(IMPORT_COMPONENT_NAME_VALUE)}, {R(IMPORT_COMPONENT_NAME)});
                   return true;
               });
        FAMILY("ident." + kn + ":units.name",
               [](const Ctx &ctx, std::vector<Site> &out) {
                   for (size_t ui = 0; ui < ctx.base.units.size(); ++ui) {
                       if (ctx.base.units[ui].import < 0) {
                           Site s;
                           s.ui = static_cast<int>(ui);
                           s.loc = "model/" + posClass(ui, ctx.base.units.size());
                           s.trivial = ui == 0;
                           out.push_back(s);
                       }
                   }
                   for (size_t li = 0; li < ctx.libs.size(); ++li) {
                       for (size_t ui = 0; ui < ctx.libs[li].units.size(); ++ui) {
                           if (!libUnitsIsTarget(ctx, static_cast<int>(li), static_cast<int>(ui)) && libUnitsIsReached(ctx, static_cast<int>(li), static_cast<int>(ui))) {
                               Site s;
                               s.mi = static_cast<int>(li);
                               s.ui = static_cast<int>(ui);
                               s.loc = "lib/" + libUnitsClass(ctx, s.mi, s.ui);
                               out.push_back(s);
                           }
                       }
                   }
               },
               [kind](Ctx &ctx, const Site &s, uint64_t aux, Applied &ap) {
                   ModelSpec &m = ctx.m(s.mi);
                   ap.desc = "units " + q(m.units[static_cast<size_t>(s.ui)].name) + " renamed (with all references) to " + q(badIdent(kind, aux));
                   renameUnits(m, s.ui, badIdent(kind, aux));
                   ap.accept = identRules(kind, {R(UNITS_NAME_VALUE)}, {R(UNITS_NAME)});
                   if (s.mi >= 0) {
                       // a library definition is only reached through a reference, and a name that is no identifier makes
                       // every reference to it one that is no identifier either (2.6.1.1): the same fault seen from its user
                       ap.accept.insert(R(UNIT_UNITS_REFERENCE));
                       ap.accept.insert(R(VARIABLE_UNITS_VALUE)); // ... or through the units attribute of an imported variable
                   }
                   return true;
               });
        FAMILY("ident." + kn + ":import-units.name",
               [](const Ctx &ctx, std::vector<Site> &out) {
                   for (size_t ui = 0; ui < ctx.base.units.size(); ++ui) {
                       if (ctx.base.units[ui].import >= 0) {
                           Site s;
                           s.ui = static_cast<int>(ui);
                           s.loc = "model/" + posClass(ui, ctx.base.units.size()) + (ctx.resolved ? "/resolved" : "/unresolved");
                           s.trivial = ui == 0;
                           out.push_back(s);
                       }
                   }
               },
               [kind](Ctx &ctx, const Site &s, uint64_t aux, Applied &ap) {
                   ap.desc = "imported units " + q(ctx.base.units[static_cast<size_t>(s.ui)].name) + " renamed (with all references) to " + q(badIdent(kind, aux));
                   renameUnits(ctx.base, s.ui, badIdent(kind, aux));
                   ap.accept = identRules(kind, {R(IMPORT_UNITS_NAME_VALUE)}, {R(IMPORT_UNITS_NAME)});
                   return true;
               });
        FAMILY("ident." + kn + ":variable.name",
               [](const Ctx &ctx, std::vector<Site> &out) {
                   eachContentComp(ctx, [&](int mi, int ci) {
                       const auto &c = ctx.m(mi).comps[static_cast<size_t>(ci)];
                       for (size_t k = 0; k < c.vars.size(); ++k) {
                           if (libVarIsMapped(ctx, mi, ci, c.vars[k].name)) {
                               continue; // a variable the importing model maps to by name
                           }
                           Site s;
                           s.mi = mi;
                           s.ci = ci;
                           s.k = static_cast<int>(k);
                           s.loc = itemLoc(ctx, mi, ci, k, c.vars.size(), &s.trivial);
                           out.push_back(s);
                       }
                   });
               },
               [kind](Ctx &ctx, const Site &s, uint64_t aux, Applied &ap) {
                   ModelSpec &m = ctx.m(s.mi);
                   ap.desc = "variable " + q(m.comps[static_cast<size_t>(s.ci)].vars[static_cast<size_t>(s.k)].name) + " of component " + q(m.comps[static_cast<size_t>(s.ci)].name) + " renamed (with its references) to " + q(badIdent(kind, aux));
                   renameVariable(m, s.ci, s.k, badIdent(kind, aux));
                   ap.accept = identRules(kind, {R(VARIABLE_NAME_VALUE)}, {R(VARIABLE_ATTRIBUTE_REQUIRED)});
                   return true;
               });
        if (kind == ID_UNDERSCORES) {
            continue; // the reference positions below are judged by "is there such a definition", covered by the dangling families
        }
        FAMILY("ident." + kn + ":unit.units",
               [](const Ctx &ctx, std::vector<Site> &out) {
                   for (int mi = -1; mi < static_cast<int>(ctx.libs.size()); ++mi) {
                       const ModelSpec &m = ctx.m(mi);
                       for (size_t ui = 0; ui < m.units.size(); ++ui) {
                           if (mi >= 0 && !libUnitsIsReached(ctx, mi, static_cast<int>(ui))) {
                               continue;
                           }
                           for (size_t uk = 0; uk < m.units[ui].units.size(); ++uk) {
                               Site s;
                               s.mi = mi;
                               s.ui = static_cast<int>(ui);
                               s.uk = static_cast<int>(uk);
                               s.loc = (mi < 0 ? "units-" + posClass(ui, m.units.size()) : libUnitsClass(ctx, mi, s.ui)) + "/" + posClass(uk, m.units[ui].units.size());
                               s.trivial = mi < 0 && ui == 0 && uk == 0;
                               out.push_back(s);
                           }
                       }
                   }
               },
               [kind](Ctx &ctx, const Site &s, uint64_t aux, Applied &ap) {
                   auto &c = ctx.m(s.mi).units[static_cast<size_t>(s.ui)].units[static_cast<size_t>(s.uk)];
                   ap.desc = "unit child " + std::to_string(s.uk) + " of units " + q(ctx.m(s.mi).units[static_cast<size_t>(s.ui)].name) + " units := " + q(badIdent(kind, aux)) + " (was " + q(c.ref) + ")";
                   c.ref = badIdent(kind, aux);
                   ap.accept = identRules(kind, {R(UNIT_UNITS_REFERENCE)}, {R(UNIT_UNITS)});
                   return true;
               });
        FAMILY("ident." + kn + ":variable.units",
               [](const Ctx &ctx, std::vector<Site> &out) {
                   eachContentComp(ctx, [&](int mi, int ci) {
                       const auto &c = ctx.m(mi).comps[static_cast<size_t>(ci)];
                       for (size_t k = 0; k < c.vars.size(); ++k) {
                           Site s;
                           s.mi = mi;
                           s.ci = ci;
                           s.k = static_cast<int>(k);
                           s.loc = itemLoc(ctx, mi, ci, k, c.vars.size(), &s.trivial);
                           out.push_back(s);
                       }
                   });
               },
               [kind](Ctx &ctx, const Site &s, uint64_t aux, Applied &ap) {
                   auto &v = ctx.m(s.mi).comps[static_cast<size_t>(s.ci)].vars[static_cast<size_t>(s.k)];
                   ap.desc = "variable " + q(v.name) + " of component " + q(ctx.m(s.mi).comps[static_cast<size_t>(s.ci)].name) + " units := " + q(badIdent(kind, aux)) + " (was " + q(v.units) + ")";
                   v.units = badIdent(kind, aux);
                   ap.accept = identRules(kind, {R(VARIABLE_UNITS_VALUE)}, {R(VARIABLE_ATTRIBUTE_REQUIRED)});
                   return true;
               });
        FAMILY("ident." + kn + ":import-component.component_ref",
               [](const Ctx &ctx, std::vector<Site> &out) {
                   for (size_t ci = 0; ci < ctx.base.comps.size(); ++ci) {
                       if (ctx.base.comps[ci].import >= 0) {
                           Site s;
                           s.ci = static_cast<int>(ci);
                           s.loc = compLoc(ctx, -1, s.ci, &s.trivial) + (ctx.resolved ? "/resolved" : "/unresolved");
                           out.push_back(s);
                       }
                   }
               },
               [kind](Ctx &ctx, const Site &s, uint64_t aux, Applied &ap) {
                   auto &c = ctx.base.comps[static_cast<size_t>(s.ci)];
                   ap.desc = "imported component " + q(c.name) + " component_ref := " + q(badIdent(kind, aux));
                   c.importRef = badIdent(kind, aux);
                   ap.accept = identRules(kind, {R(IMPORT_COMPONENT_COMPONENT_REFERENCE_VALUE)}, {R(IMPORT_COMPONENT_COMPONENT_REFERENCE)});
                   ap.importerMayFail = true;
                   return true;
               });
        FAMILY("ident." + kn + ":import-units.units_ref",
               [](const Ctx &ctx, std::vector<Site> &out) {
                   for (size_t ui = 0; ui < ctx.base.units.size(); ++ui) {
                       if (ctx.base.units[ui].import >= 0) {
                           Site s;
                           s.ui = static_cast<int>(ui);
                           s.loc = "model/" + posClass(ui, ctx.base.units.size()) + (ctx.resolved ? "/resolved" : "/unresolved");
                           s.trivial = ui == 0;
                           out.push_back(s);
                       }
                   }
               },
               [kind](Ctx &ctx, const Site &s, uint64_t aux, Applied &ap) {
                   auto &u = ctx.base.units[static_cast<size_t>(s.ui)];
                   ap.desc = "imported units " + q(u.name) + " units_ref := " + q(badIdent(kind, aux));
                   u.importRef = badIdent(kind, aux);
                   ap.accept = identRules(kind, {R(IMPORT_UNITS_UNITS_REFERENCE_VALUE)}, {R(IMPORT_UNITS_UNITS_REFERENCE)});
                   ap.importerMayFail = true;
                   return true;
               });
    }
}

// ---- uniqueness of names

void registerNameUniquenessFamilies()
{
    FAMILY("dup:component.name",
           [](const Ctx &ctx, std::vector<Site> &out) {
               const auto &cs = ctx.base.comps;
               for (size_t a = 0; a < cs.size(); ++a) {
                   for (size_t b = 0; b < cs.size(); ++b) {
                       if (a == b) {
                           continue;
                       }
                       Site s;
                       s.ci = static_cast<int>(b); // the one that is renamed
                       s.a = static_cast<int>(a);
                       bool t = false;
                       std::string rel = cs[a].parent == cs[b].parent ? "siblings" : (cs[a].parent == static_cast<int>(b) || cs[b].parent == static_cast<int>(a) ? "parent-child" : "distant");
                       std::string kind = cs[a].import >= 0 && cs[b].import >= 0 ? "import-import" : (cs[a].import >= 0 || cs[b].import >= 0 ? "import-local" : "local-local");
                       s.loc = depthClass(ctx, -1, s.ci) + "/" + rel + "/" + kind;
                       compLoc(ctx, -1, s.ci, &t);
                       s.trivial = ctx.base.depthOf(s.ci) == 0 && ctx.base.depthOf(s.a) == 0;
                       out.push_back(s);
                   }
               }
           },
           [](Ctx &ctx, const Site &s, uint64_t, Applied &ap) {
               auto &a = ctx.base.comps[static_cast<size_t>(s.a)];
               auto &b = ctx.base.comps[static_cast<size_t>(s.ci)];
               ap.desc = "component " + q(b.name) + " renamed to the name of component " + q(a.name);
               b.name = a.name;
               // 2.7.1.2 / 2.4.1.2: unique among component and import component elements
               if (a.import < 0 || b.import < 0) {
                   ap.accept.insert(R(COMPONENT_NAME_UNIQUE));
               }
               if (a.import >= 0 || b.import >= 0) {
                   ap.accept.insert(R(IMPORT_COMPONENT_NAME_UNIQUE));
               }
               return true;
           });
    FAMILY("dup:units.name",
           [](const Ctx &ctx, std::vector<Site> &out) {
               const auto &us = ctx.base.units;
               for (size_t a = 0; a < us.size(); ++a) {
                   for (size_t b = 0; b < us.size(); ++b) {
                       if (a == b) {
                           continue;
                       }
                       Site s;
                       s.ui = static_cast<int>(b);
                       s.a = static_cast<int>(a);
                       std::string kind = us[a].import >= 0 && us[b].import >= 0 ? "import-import" : (us[a].import >= 0 || us[b].import >= 0 ? "import-local" : "local-local");
                       s.loc = std::string(a < b ? "later" : "earlier") + "-renamed/" + posClass(b, us.size()) + "/" + kind;
                       s.trivial = a + b == 1;
                       out.push_back(s);
                   }
               }
           },
           [](Ctx &ctx, const Site &s, uint64_t, Applied &ap) {
               auto &a = ctx.base.units[static_cast<size_t>(s.a)];
               auto &b = ctx.base.units[static_cast<size_t>(s.ui)];
               // no unit child may refer to the renamed definition by its new name: that would turn into a second fault (cycle)
               ap.desc = "units " + q(b.name) + " renamed (with all references) to the name of units " + q(a.name);
               if (a.import < 0 || b.import < 0) {
                   ap.accept.insert(R(UNITS_NAME_UNIQUE));
               }
               if (a.import >= 0 || b.import >= 0) {
                   ap.accept.insert(R(IMPORT_UNITS_NAME_UNIQUE));
               }
               std::string to = a.name;
               renameUnits(ctx.base, s.ui, to);
               return true;
           });
    FAMILY("dup:variable.name",
           [](const Ctx &ctx, std::vector<Site> &out) {
               eachContentComp(ctx, [&](int mi, int ci) {
                   const auto &c = ctx.m(mi).comps[static_cast<size_t>(ci)];
                   for (size_t a = 0; a < c.vars.size(); ++a) {
                       for (size_t b = 0; b < c.vars.size(); ++b) {
                           if (a != b && !libVarIsMapped(ctx, mi, ci, c.vars[b].name)) {
                               Site s;
                               s.mi = mi;
                               s.ci = ci;
                               s.k = static_cast<int>(b);
                               s.a = static_cast<int>(a);
                               s.loc = depthClass(ctx, mi, ci) + "/" + posClass(b, c.vars.size()) + (a < b ? "-after" : "-before");
                               s.trivial = mi < 0 && ctx.base.depthOf(ci) == 0 && a + b == 1;
                               out.push_back(s);
                           }
                       }
                   }
               });
           },
           [](Ctx &ctx, const Site &s, uint64_t, Applied &ap) {
               ModelSpec &m = ctx.m(s.mi);
               auto &c = m.comps[static_cast<size_t>(s.ci)];
               ap.desc = "variable " + q(c.vars[static_cast<size_t>(s.k)].name) + " of component " + q(c.name) + " renamed to its sibling's name " + q(c.vars[static_cast<size_t>(s.a)].name);
               std::string to = c.vars[static_cast<size_t>(s.a)].name;
               renameVariable(m, s.ci, s.k, to);
               ap.accept = {R(VARIABLE_NAME_UNIQUE)};
               return true;
           });
    FAMILY("units.name:standard-unit",
           [](const Ctx &ctx, std::vector<Site> &out) {
               for (size_t ui = 0; ui < ctx.base.units.size(); ++ui) {
                   if (ctx.base.units[ui].import >= 0) {
                       continue; // 2.5.2 is a rule about units elements; 2.3.1 (import units) does not repeat it
                   }
                   Site s;
                   s.ui = static_cast<int>(ui);
                   s.loc = "model/" + posClass(ui, ctx.base.units.size());
                   s.trivial = ui == 0;
                   out.push_back(s);
               }
           },
           [](Ctx &ctx, const Site &s, uint64_t aux, Applied &ap) {
               // a standard name nobody uses in this model, so that no reference changes its meaning
               std::string all = ctxText(ctx);
               std::string to;
               for (size_t i = 0; i < standardUnitNames().size(); ++i) {
                   const std::string &n = standardUnitNames()[(aux + i) % standardUnitNames().size()];
                   if (all.find("\"" + n + "\"") == std::string::npos) {
                       to = n;
                       break;
                   }
               }
               if (to.empty()) {
                   return false;
               }
               ap.desc = "units " + q(ctx.base.units[static_cast<size_t>(s.ui)].name) + " renamed (with all references) to the standard unit name " + q(to);
               renameUnits(ctx.base, s.ui, to);
               ap.accept = {R(UNITS_STANDARD)};
               return true;
           });
}

// ---- identifiers (the id attribute): every id-bearing item of the model under validation

struct IdSlot
{
    std::string kind;
    int ci = -1, k = -1, ui = -1, uk = -1, cn = -1, mp = -1, ii = -1;
    int where = -1; // mathml: 0 component math block k, 1 test_value of reset k, 2 reset_value of reset k
    bool trivial = false;
};

bool inHierarchy(const ModelSpec &m, int ci)
{
    return m.comps[static_cast<size_t>(ci)].parent >= 0 || !m.childrenOf(ci).empty();
}

int importUsers(const ModelSpec &m, int ii)
{
    int users = 0;
    for (const auto &u : m.units) {
        users += u.import == ii ? 1 : 0;
    }
    for (const auto &c : m.comps) {
        users += c.import == ii ? 1 : 0;
    }
    return users;
}

std::vector<IdSlot> idSlots(const ModelSpec &m)
{
    std::vector<IdSlot> v;
    auto add = [&](IdSlot s) { v.push_back(std::move(s)); };
    {
        IdSlot s;
        s.kind = "model";
        s.trivial = true;
        add(s);
    }
    bool anyEnc = false;
    for (const auto &c : m.comps) {
        anyEnc = anyEnc || c.parent >= 0;
    }
    if (anyEnc) {
        IdSlot s;
        s.kind = "encapsulation";
        add(s);
    }
    for (size_t ii = 0; ii < m.imports.size(); ++ii) {
        if (importUsers(m, static_cast<int>(ii)) == 1) { // two users: see the known finding on shared import sources
            IdSlot s;
            s.kind = "import";
            s.ii = static_cast<int>(ii);
            add(s);
        }
    }
    for (size_t ui = 0; ui < m.units.size(); ++ui) {
        IdSlot s;
        s.kind = m.units[ui].import >= 0 ? "import-units" : "units";
        s.ui = static_cast<int>(ui);
        s.trivial = ui == 0;
        add(s);
        for (size_t uk = 0; uk < m.units[ui].units.size(); ++uk) {
            IdSlot t;
            t.kind = "unit";
            t.ui = static_cast<int>(ui);
            t.uk = static_cast<int>(uk);
            t.trivial = ui == 0 && uk == 0;
            add(t);
        }
    }
    for (size_t ci = 0; ci < m.comps.size(); ++ci) {
        const auto &c = m.comps[ci];
        bool top = c.parent < 0;
        IdSlot s;
        s.kind = c.import >= 0 ? "import-component" : "component";
        s.ci = static_cast<int>(ci);
        s.trivial = top && ci == 0;
        add(s);
        if (inHierarchy(m, static_cast<int>(ci))) {
            IdSlot t;
            t.kind = "component_ref";
            t.ci = static_cast<int>(ci);
            add(t);
        }
        // the variables of an imported component are placeholders of the API (targets of mappings), not part of a document
        for (size_t k = 0; k < c.vars.size() && c.import < 0; ++k) {
            IdSlot t;
            t.kind = "variable";
            t.ci = static_cast<int>(ci);
            t.k = static_cast<int>(k);
            t.trivial = top && k == 0;
            add(t);
        }
        for (size_t k = 0; k < c.resets.size(); ++k) {
            for (const char *kind : {"reset", "test_value", "reset_value"}) {
                IdSlot t;
                t.kind = kind;
                t.ci = static_cast<int>(ci);
                t.k = static_cast<int>(k);
                t.trivial = top && k == 0 && t.kind == "reset";
                add(t);
            }
            for (int where : {1, 2}) {
                IdSlot t;
                t.kind = "mathml";
                t.ci = static_cast<int>(ci);
                t.k = static_cast<int>(k);
                t.where = where;
                add(t);
            }
        }
        for (size_t k = 0; k < c.math.size(); ++k) {
            IdSlot t;
            t.kind = "mathml";
            t.ci = static_cast<int>(ci);
            t.k = static_cast<int>(k);
            t.where = 0;
            add(t);
        }
    }
    for (size_t cn = 0; cn < m.conns.size(); ++cn) {
        IdSlot s;
        s.kind = "connection";
        s.cn = static_cast<int>(cn);
        add(s);
        for (size_t mp = 0; mp < m.conns[cn].maps.size(); ++mp) {
            IdSlot t;
            t.kind = "map_variables";
            t.cn = static_cast<int>(cn);
            t.mp = static_cast<int>(mp);
            add(t);
        }
    }
    return v;
}

// Puts an id attribute on an element of a MathML string (the n-th start tag among apply / ci / cn / piecewise).
bool setMathmlId(std::string &math, const std::string &id, uint64_t pick, std::string *element)
{
    std::vector<std::pair<size_t, std::string>> tags;
    for (const char *name : {"apply", "ci", "cn", "piecewise", "piece", "bvar", "degree"}) {
        std::string open = std::string("<") + name;
        size_t p = 0;
        while ((p = math.find(open, p)) != std::string::npos) {
            char next = p + open.size() < math.size() ? math[p + open.size()] : ' ';
            if (next == '>' || next == ' ' || next == '/') {
                tags.emplace_back(p + open.size(), name);
            }
            p += open.size();
        }
    }
    if (tags.empty()) {
        return false;
    }
    std::sort(tags.begin(), tags.end());
    auto t = tags[pick % tags.size()];
    math.insert(t.first, " id=\"" + attrEsc(id) + "\"");
    *element = t.second;
    return true;
}

bool setSlotId(ModelSpec &m, const IdSlot &s, const std::string &id, uint64_t pick, std::string *what)
{
    *what = s.kind;
    if (s.kind == "model") {
        m.id = id;
    } else if (s.kind == "encapsulation") {
        m.encId = id;
    } else if (s.kind == "import") {
        m.imports[static_cast<size_t>(s.ii)].id = id;
        *what += " " + q(m.imports[static_cast<size_t>(s.ii)].url);
    } else if (s.kind == "units" || s.kind == "import-units") {
        m.units[static_cast<size_t>(s.ui)].id = id;
        *what += " " + q(m.units[static_cast<size_t>(s.ui)].name);
    } else if (s.kind == "unit") {
        m.units[static_cast<size_t>(s.ui)].units[static_cast<size_t>(s.uk)].id = id;
        *what += " " + std::to_string(s.uk) + " of units " + q(m.units[static_cast<size_t>(s.ui)].name);
    } else if (s.kind == "component" || s.kind == "import-component") {
        m.comps[static_cast<size_t>(s.ci)].id = id;
        *what += " " + q(m.comps[static_cast<size_t>(s.ci)].name);
    } else if (s.kind == "component_ref") {
        m.comps[static_cast<size_t>(s.ci)].encId = id;
        *what += " to " + q(m.comps[static_cast<size_t>(s.ci)].name);
    } else if (s.kind == "variable") {
        m.comps[static_cast<size_t>(s.ci)].vars[static_cast<size_t>(s.k)].id = id;
        *what += " " + q(m.comps[static_cast<size_t>(s.ci)].vars[static_cast<size_t>(s.k)].name) + " of " + q(m.comps[static_cast<size_t>(s.ci)].name);
    } else if (s.kind == "reset" || s.kind == "test_value" || s.kind == "reset_value") {
        auto &r = m.comps[static_cast<size_t>(s.ci)].resets[static_cast<size_t>(s.k)];
        (s.kind == "reset" ? r.id : (s.kind == "test_value" ? r.testValueId : r.resetValueId)) = id;
        *what += " (reset " + std::to_string(s.k) + " of " + q(m.comps[static_cast<size_t>(s.ci)].name) + ")";
    } else if (s.kind == "connection") {
        m.conns[static_cast<size_t>(s.cn)].id = id;
        *what += " " + std::to_string(s.cn);
    } else if (s.kind == "map_variables") {
        m.conns[static_cast<size_t>(s.cn)].maps[static_cast<size_t>(s.mp)].id = id;
        *what += " " + std::to_string(s.mp) + " of connection " + std::to_string(s.cn);
    } else if (s.kind == "mathml") {
        auto &c = m.comps[static_cast<size_t>(s.ci)];
        std::string &str = s.where == 0 ? c.math[static_cast<size_t>(s.k)] : (s.where == 1 ? c.resets[static_cast<size_t>(s.k)].testValue : c.resets[static_cast<size_t>(s.k)].resetValue);
        std::string el;
        if (!setMathmlId(str, id, pick, &el)) {
            return false;
        }
        *what = "MathML " + el + " element in " + (s.where == 0 ? "math block " + std::to_string(s.k) : std::string(s.where == 1 ? "test_value" : "reset_value") + " of reset " + std::to_string(s.k)) + " of " + q(c.name);
    }
    return true;
}

const std::vector<std::string> &idKinds()
{
    static const std::vector<std::string> k = {"model", "encapsulation", "import", "units", "import-units", "unit", "component", "import-component", "component_ref", "variable", "reset", "test_value", "reset_value", "connection", "map_variables", "mathml"};
    return k;
}

void registerIdFamilies()
{
    for (const auto &kind : idKinds()) {
        Family dup {"dupid:" + kind,
                    [kind](const Ctx &ctx, std::vector<Site> &out) {
                        auto slots = idSlots(ctx.base);
                        for (size_t a = 0; a < slots.size(); ++a) {
                            if (slots[a].kind != kind) {
                                continue;
                            }
                            for (size_t b = 0; b < slots.size(); ++b) {
                                if (a == b) {
                                    continue;
                                }
                                // two ids in one MathML element are also a matter of the MathML DTD, which is another family
                                Site s;
                                s.a = static_cast<int>(a);
                                s.b = static_cast<int>(b);
                                s.loc = "with-" + slots[b].kind + (slots[a].ci >= 0 ? "/" + depthClass(ctx, -1, slots[a].ci) : std::string());
                                s.trivial = slots[a].trivial && slots[b].trivial;
                                out.push_back(s);
                            }
                        }
                    },
                    [](Ctx &ctx, const Site &s, uint64_t aux, Applied &ap) {
                        auto slots = idSlots(ctx.base);
                        std::string wa, wb;
                        const std::string id = "c04_dup";
                        if (!setSlotId(ctx.base, slots[static_cast<size_t>(s.a)], id, aux, &wa) || !setSlotId(ctx.base, slots[static_cast<size_t>(s.b)], id, aux >> 8, &wb)) {
                            return false;
                        }
                        ap.desc = "id " + q(id) + " given to " + wa + " and to " + wb;
                        // 1.2.5.1: id attributes are of XML type ID: unique in the document, and an XML Name
                        ap.accept = {R(XML_ID_ATTRIBUTE)};
                        if (slots[static_cast<size_t>(s.a)].kind == "mathml" && slots[static_cast<size_t>(s.b)].kind == "mathml") {
                            ap.accept.insert(R(MATH_MATHML)); // for MathML elements the ID type comes from the MathML DTD
                        }
                        return true;
                    }};
        dup.math = kind == "mathml" || kind == "reset" || kind == "test_value" || kind == "reset_value";
        catalogue().push_back(dup);
        Family bad {"badid:" + kind,
                    [kind](const Ctx &ctx, std::vector<Site> &out) {
                        auto slots = idSlots(ctx.base);
                        for (size_t a = 0; a < slots.size(); ++a) {
                            if (slots[a].kind == kind) {
                                Site s;
                                s.a = static_cast<int>(a);
                                s.loc = slots[a].ci >= 0 ? compLoc(ctx, -1, slots[a].ci) : (slots[a].ui >= 0 ? "model/" + posClass(static_cast<size_t>(slots[a].ui), ctx.base.units.size()) : std::string("model"));
                                if (slots[a].k >= 0 && kind == "variable") {
                                    s.loc += "/" + posClass(static_cast<size_t>(slots[a].k), ctx.base.comps[static_cast<size_t>(slots[a].ci)].vars.size());
                                } else if (slots[a].k >= 0 && kind != "mathml") {
                                    s.loc += "/" + posClass(static_cast<size_t>(slots[a].k), ctx.base.comps[static_cast<size_t>(slots[a].ci)].resets.size());
                                } else if (kind == "mathml") {
                                    s.loc += slots[a].where == 0 ? "/cmath" : (slots[a].where == 1 ? "/test" : "/reset");
                                } else if (slots[a].uk >= 0) {
                                    s.loc += "/" + posClass(static_cast<size_t>(slots[a].uk), ctx.base.units[static_cast<size_t>(slots[a].ui)].units.size());
                                }
                                s.trivial = slots[a].trivial;
                                out.push_back(s);
                            }
                        }
                    },
                    [kind](Ctx &ctx, const Site &s, uint64_t aux, Applied &ap) {
                        static const std::vector<std::string> bad = {"9id", "i d", ".x", "a#b", "-a", "a/b", "x y z"};
                        auto slots = idSlots(ctx.base);
                        std::string wa;
                        const std::string id = bad[aux % bad.size()];
                        if ((kind == "map_variables" || kind == "connection") && (aux >> 20) % 4 == 0) {
                            // valid renamings after which "variable name + component name" reads the same on both sides of
                            // the mapping (k_c04 + zq = k_ + c04zq): string keys built by concatenation cannot tell them apart
                            const auto &sl = slots[static_cast<size_t>(s.a)];
                            const auto cn = ctx.base.conns[static_cast<size_t>(sl.cn)];
                            const auto mp = cn.maps[static_cast<size_t>(std::max(sl.mp, 0))];
                            if (findComp(ctx.base, "zq") < 0 && findComp(ctx.base, "c04zq") < 0 && findVar(ctx.base.comps[static_cast<size_t>(cn.c1)], "k_c04") < 0 && findVar(ctx.base.comps[static_cast<size_t>(cn.c2)], "k_") < 0) {
                                ctx.base.comps[static_cast<size_t>(cn.c1)].name = "zq";
                                ctx.base.comps[static_cast<size_t>(cn.c2)].name = "c04zq";
                                renameVariable(ctx.base, cn.c1, mp.v1, "k_c04");
                                renameVariable(ctx.base, cn.c2, mp.v2, "k_");
                                ap.tags.push_back("id-key:variable+component-names-concatenate-alike");
                                ap.loc = "names-concatenate-alike";
                                ap.nontrivial = true;
                            }
                        }
                        if (!setSlotId(ctx.base, slots[static_cast<size_t>(s.a)], id, aux >> 8, &wa)) {
                            return false;
                        }
                        ap.desc = "id " + q(id) + " (not an XML name) given to " + wa;
                        ap.accept = {R(XML_ID_ATTRIBUTE)};
                        if (kind == "mathml") {
                            ap.accept.insert(R(MATH_MATHML));
                        }
                        return true;
                    }};
        bad.math = dup.math;
        catalogue().push_back(bad);
    }
}

// ---- resets

template<class F>
void eachReset(const Ctx &ctx, F f)
{
    eachContentComp(ctx, [&](int mi, int ci) {
        const auto &c = ctx.m(mi).comps[static_cast<size_t>(ci)];
        for (size_t k = 0; k < c.resets.size(); ++k) {
            Site s;
            s.mi = mi;
            s.ci = ci;
            s.k = static_cast<int>(k);
            s.loc = itemLoc(ctx, mi, ci, k, c.resets.size(), &s.trivial);
            f(s, c);
        }
    });
}

void resetSites(const Ctx &ctx, std::vector<Site> &out)
{
    eachReset(ctx, [&](const Site &s, const CompSpec &) { out.push_back(s); });
}

std::string resetDesc(const Ctx &ctx, const Site &s)
{
    return "reset " + std::to_string(s.k) + " of component " + q(ctx.m(s.mi).comps[static_cast<size_t>(s.ci)].name) + (s.mi >= 0 ? " (library)" : "");
}

// variable sets connected through mappings (transitively), as (component, variable) pairs of one model
std::map<std::pair<int, int>, int> connectedSets(const ModelSpec &m, std::map<std::pair<int, int>, std::set<std::pair<int, int>>> *direct = nullptr)
{
    std::map<std::pair<int, int>, int> set;
    int next = 0;
    for (size_t ci = 0; ci < m.comps.size(); ++ci) {
        for (size_t k = 0; k < m.comps[ci].vars.size(); ++k) {
            set[{static_cast<int>(ci), static_cast<int>(k)}] = next++;
        }
    }
    for (const auto &cn : m.conns) {
        for (const auto &mp : cn.maps) {
            std::pair<int, int> x {cn.c1, mp.v1}, y {cn.c2, mp.v2};
            if (direct != nullptr) {
                (*direct)[x].insert(y);
                (*direct)[y].insert(x);
            }
            int from = set[x], to = set[y];
            if (from != to) {
                for (auto &e : set) {
                    if (e.second == from) {
                        e.second = to;
                    }
                }
            }
        }
    }
    return set;
}

void registerResetFamilies()
{
    FAMILY("reset:no-order", resetSites,
           [](Ctx &ctx, const Site &s, uint64_t, Applied &ap) {
               ctx.m(s.mi).comps[static_cast<size_t>(s.ci)].resets[static_cast<size_t>(s.k)].hasOrder = false;
               ap.desc = resetDesc(ctx, s) + ": order removed";
               ap.accept = {R(RESET_ORDER_VALUE), R(RESET_ATTRIBUTE_REQUIRED)};
               return true;
           },
           true);
    FAMILY("reset:no-variable", resetSites,
           [](Ctx &ctx, const Site &s, uint64_t, Applied &ap) {
               ctx.m(s.mi).comps[static_cast<size_t>(s.ci)].resets[static_cast<size_t>(s.k)].var = -1;
               ap.desc = resetDesc(ctx, s) + ": variable removed";
               ap.accept = {R(RESET_VARIABLE_REFERENCE), R(RESET_ATTRIBUTE_REQUIRED)};
               return true;
           },
           true);
    FAMILY("reset:no-test_variable", resetSites,
           [](Ctx &ctx, const Site &s, uint64_t, Applied &ap) {
               ctx.m(s.mi).comps[static_cast<size_t>(s.ci)].resets[static_cast<size_t>(s.k)].testVar = -1;
               ap.desc = resetDesc(ctx, s) + ": test_variable removed";
               ap.accept = {R(RESET_TEST_VARIABLE_REFERENCE), R(RESET_ATTRIBUTE_REQUIRED)};
               return true;
           },
           true);
    for (int which = 0; which < 2; ++which) {
        FAMILY(which == 0 ? "reset:no-test_value" : "reset:no-reset_value", resetSites,
               [which](Ctx &ctx, const Site &s, uint64_t aux, Applied &ap) {
                   auto &r = ctx.m(s.mi).comps[static_cast<size_t>(s.ci)].resets[static_cast<size_t>(s.k)];
                   // absent, or present without a math child (through the API both are an empty or blank string)
                   std::string v = aux % 3 == 0 ? "" : (aux % 3 == 1 ? " " : "\n  \t\n");
                   (which == 0 ? r.testValue : r.resetValue) = v;
                   ap.desc = resetDesc(ctx, s) + (which == 0 ? ": test_value" : ": reset_value") + (v.empty() ? " removed" : " blank");
                   ap.accept = which == 0 ? RuleSet {R(RESET_CHILD), R(RESET_TEST_VALUE_CHILD), R(TEST_VALUE_ELEMENT), R(TEST_VALUE_CHILD)} : RuleSet {R(RESET_CHILD), R(RESET_RESET_VALUE_CHILD), R(RESET_VALUE_ELEMENT), R(RESET_VALUE_CHILD)};
                   return true;
               },
               true);
    }
    for (int which = 0; which < 2; ++which) {
        FAMILY(which == 0 ? "reset:variable-in-other-component" : "reset:test_variable-in-other-component",
               [](const Ctx &ctx, std::vector<Site> &out) {
                   eachReset(ctx, [&](const Site &s0, const CompSpec &) {
                       const ModelSpec &m = ctx.m(s0.mi);
                       {
                           // a variable of another Component object that carries the same name as the reset's component
                           Site s = s0;
                           s.a = -2;
                           s.loc += "/in-same-named-component-object";
                           s.trivial = false;
                           out.push_back(s);
                       }
                       for (size_t o = 0; o < m.comps.size(); ++o) {
                           if (static_cast<int>(o) == s0.ci || m.comps[o].vars.empty() || (s0.mi < 0 && m.comps[o].import >= 0)) {
                               continue;
                           }
                           Site s = s0;
                           s.a = static_cast<int>(o);
                           const auto &me = m.comps[static_cast<size_t>(s.ci)];
                           std::string rel = m.comps[o].parent == s.ci ? "in-child" : (me.parent == static_cast<int>(o) ? "in-parent" : (me.parent == m.comps[o].parent ? "in-sibling" : "in-distant"));
                           s.loc += "/" + rel;
                           s.trivial = false;
                           out.push_back(s);
                       }
                   });
               },
               [which](Ctx &ctx, const Site &s, uint64_t aux, Applied &ap) {
                   if (s.a == -2) {
                       const auto &me = ctx.m(s.mi).comps[static_cast<size_t>(s.ci)];
                       // the twin's variable is named like a local one, or not (the printed model then does not even parse)
                       std::string vname = aux % 2 == 0 || me.vars.empty() ? "c04_w" : me.vars[0].name;
                       ap.desc = resetDesc(ctx, s) + (which == 0 ? ": variable" : ": test_variable") + " := variable " + q(vname) + " of another component object that is also named " + q(me.name) + " (not part of the model)";
                       ap.accept = {which == 0 ? R(RESET_VARIABLE_REFERENCE) : R(RESET_TEST_VARIABLE_REFERENCE)};
                       Site site = s;
                       std::string cname = me.name;
                       ap.post = [site, which, cname, vname](BuiltAll &b) {
                           Built &bm = site.mi < 0 ? b.base : b.libs[static_cast<size_t>(site.mi)];
                           auto twin = Component::create(cname);
                           auto var = Variable::create(vname);
                           var->setUnits("second");
                           twin->addVariable(var);
                           b.keepComponents.push_back(twin);
                           auto reset = bm.resets[static_cast<size_t>(site.ci)][static_cast<size_t>(site.k)];
                           if (which == 0) {
                               reset->setVariable(var);
                           } else {
                               reset->setTestVariable(var);
                           }
                       };
                       return true;
                   }
                   const auto &other = ctx.m(s.mi).comps[static_cast<size_t>(s.a)];
                   int k = static_cast<int>(aux % other.vars.size());
                   // prefer a variable whose name also exists here: only identity tells them apart
                   const auto &me = ctx.m(s.mi).comps[static_cast<size_t>(s.ci)];
                   for (size_t i = 0; i < other.vars.size(); ++i) {
                       if (findVar(me, other.vars[i].name) >= 0 && (aux >> 4) % 2 == 0) {
                           k = static_cast<int>(i);
                           ap.tags.push_back("reset-foreign-variable:same-name-exists-locally");
                       }
                   }
                   ap.desc = resetDesc(ctx, s) + (which == 0 ? ": variable" : ": test_variable") + " := variable " + q(other.vars[static_cast<size_t>(k)].name) + " of component " + q(other.name);
                   ap.accept = {which == 0 ? R(RESET_VARIABLE_REFERENCE) : R(RESET_TEST_VARIABLE_REFERENCE)};
                   Site site = s;
                   ap.post = [site, k, which](BuiltAll &b) {
                       Built &bm = site.mi < 0 ? b.base : b.libs[static_cast<size_t>(site.mi)];
                       auto reset = bm.resets[static_cast<size_t>(site.ci)][static_cast<size_t>(site.k)];
                       auto var = bm.vars[static_cast<size_t>(site.a)][static_cast<size_t>(k)];
                       if (which == 0) {
                           reset->setVariable(var);
                       } else {
                           reset->setTestVariable(var);
                       }
                   };
                   return true;
               },
               true);
    }
    for (int which = 0; which < 2; ++which) {
        FAMILY(which == 0 ? "reset:variable-in-no-component" : "reset:test_variable-in-no-component", resetSites,
               [which](Ctx &ctx, const Site &s, uint64_t, Applied &ap) {
                   ap.desc = resetDesc(ctx, s) + (which == 0 ? ": variable" : ": test_variable") + " := a variable that belongs to no component";
                   ap.accept = {which == 0 ? R(RESET_VARIABLE_REFERENCE) : R(RESET_TEST_VARIABLE_REFERENCE)};
                   ap.isolate = true;
                   Site site = s;
                   ap.post = [site, which](BuiltAll &b) {
                       Built &bm = site.mi < 0 ? b.base : b.libs[static_cast<size_t>(site.mi)];
                       auto reset = bm.resets[static_cast<size_t>(site.ci)][static_cast<size_t>(site.k)];
                       auto orphan = Variable::create("c04_orphan");
                       orphan->setUnits("second");
                       b.keep.push_back(orphan);
                       if (which == 0) {
                           reset->setVariable(orphan);
                       } else {
                           reset->setTestVariable(orphan);
                       }
                   };
                   return true;
               },
               true);
    }
    FAMILY("dup:reset.order",
           [](const Ctx &ctx, std::vector<Site> &out) {
               // pairs of variables (of local components of the model under validation) in one connected variable set; the
               // fault first makes sure, by valid edits, that each is the variable of a reset (re-targeting or adding one)
               const ModelSpec &m = ctx.base;
               std::map<std::pair<int, int>, std::set<std::pair<int, int>>> direct;
               auto sets = connectedSets(m, &direct);
               for (const auto &x : sets) {
                   for (const auto &y : sets) {
                       if (x.second != y.second || y.first < x.first || m.comps[static_cast<size_t>(x.first.first)].import >= 0 || m.comps[static_cast<size_t>(y.first.first)].import >= 0) {
                           continue;
                       }
                       if (x.first == y.first && x.first.second != 0) {
                           continue; // one same-variable site per component is enough: the mapped pairs are what is rare
                       }
                       Site s;
                       s.a = x.first.first;
                       s.b = x.first.second;
                       s.ci = y.first.first;
                       s.k = y.first.second;
                       std::string rel = x.first == y.first ? "same-variable" : (direct[x.first].count(y.first) != 0 ? "directly-mapped" : "transitively-connected");
                       s.loc = depthClass(ctx, -1, s.ci) + "/" + rel;
                       s.trivial = false;
                       out.push_back(s);
                   }
               }
               // sets that are connected only through a third variable are the rare ones: when there are any, they are the sites
               std::vector<Site> far;
               for (const auto &s : out) {
                   if (s.loc.find("transitively") != std::string::npos) {
                       far.push_back(s);
                   }
               }
               if (!far.empty()) {
                   out.insert(out.end(), far.begin(), far.end());
                   out.insert(out.end(), far.begin(), far.end());
               }
           },
           [](Ctx &ctx, const Site &s0, uint64_t aux, Applied &ap) {
               ModelSpec &m = ctx.base;
               Site s = s0;
               if (s.loc.find("directly-mapped") != std::string::npos && (aux >> 12) % 2 == 0) {
                   // valid edit first: a new child component of the second variable's component with a variable mapped to it;
                   // the first variable and the new one are then connected only through the second
                   auto &host = m.comps[static_cast<size_t>(s.ci)];
                   CompSpec link;
                   link.name = "c04_link";
                   link.parent = s.ci;
                   VarSpec w;
                   w.name = "c04_w";
                   w.units = host.vars[static_cast<size_t>(s.k)].units;
                   w.iface = "public";
                   link.vars.push_back(w);
                   host.vars[static_cast<size_t>(s.k)].iface = ifaceUnion(host.vars[static_cast<size_t>(s.k)].iface, "private");
                   m.comps.push_back(link);
                   ConnSpec cs;
                   cs.c1 = s.ci;
                   cs.c2 = static_cast<int>(m.comps.size()) - 1;
                   MapSpec ms;
                   ms.v1 = s.k;
                   ms.v2 = 0;
                   cs.maps.push_back(ms);
                   m.conns.push_back(cs);
                   s.ci = cs.c2;
                   s.k = 0;
                   s.loc = depthClass(ctx, -1, s.ci) + "/transitively-connected";
                   ap.tags.push_back("reset-order:chain-made-by-valid-edit");
               }
               int nextOrder = 1000;
               auto resetOn = [&](int ci, int var, int avoid) -> int {
                   auto &c = m.comps[static_cast<size_t>(ci)];
                   // an existing reset is re-targeted (any variable of the component may be reset), otherwise one is added
                   for (size_t r = 0; r < c.resets.size(); ++r) {
                       if (static_cast<int>(r) != avoid && (c.resets[r].var == var || (aux >> 8) % 2 == 0)) {
                           c.resets[r].var = var;
                           return static_cast<int>(r);
                       }
                   }
                   ResetSpec r;
                   r.var = var;
                   r.testVar = var;
                   r.hasOrder = true;
                   r.order = nextOrder++;
                   r.testValue = mathBlockRaw(cnText("1", "dimensionless"), 0);
                   r.resetValue = mathBlockRaw(cnText("2", "dimensionless"), 0);
                   c.resets.push_back(r);
                   return static_cast<int>(c.resets.size()) - 1;
               };
               int ra = resetOn(s.a, s.b, -1);
               int rb = resetOn(s.ci, s.k, s.a == s.ci ? ra : -1);
               auto &A = m.comps[static_cast<size_t>(s.a)];
               auto &B = m.comps[static_cast<size_t>(s.ci)];
               B.resets[static_cast<size_t>(rb)].order = A.resets[static_cast<size_t>(ra)].order;
               ap.desc = "reset " + std::to_string(rb) + " of " + q(B.name) + " (variable " + q(B.vars[static_cast<size_t>(s.k)].name) + ") gets the order " + std::to_string(A.resets[static_cast<size_t>(ra)].order) + " of reset "
                         + std::to_string(ra) + " of " + q(A.name) + " (variable " + q(A.vars[static_cast<size_t>(s.b)].name) + "), which is in the same connected variable set";
               ap.loc = s.loc + "/" + posClass(static_cast<size_t>(rb), B.resets.size()) + "-reset";
               ap.accept = {R(RESET_ORDER_UNIQUE)};
               return true;
           },
           true);
}

// ---- references to things that do not exist, illegal attribute values

template<class F>
void eachVariable(const Ctx &ctx, F f)
{
    eachContentComp(ctx, [&](int mi, int ci) {
        const auto &c = ctx.m(mi).comps[static_cast<size_t>(ci)];
        for (size_t k = 0; k < c.vars.size(); ++k) {
            Site s;
            s.mi = mi;
            s.ci = ci;
            s.k = static_cast<int>(k);
            s.loc = itemLoc(ctx, mi, ci, k, c.vars.size(), &s.trivial);
            f(s, c);
        }
    });
}

void variableSites(const Ctx &ctx, std::vector<Site> &out)
{
    eachVariable(ctx, [&](const Site &s, const CompSpec &) { out.push_back(s); });
}

std::string varDesc(const Ctx &ctx, const Site &s)
{
    const auto &c = ctx.m(s.mi).comps[static_cast<size_t>(s.ci)];
    return "variable " + q(c.vars[static_cast<size_t>(s.k)].name) + " of component " + q(c.name) + (s.mi >= 0 ? " (library)" : "");
}

void unitChildSites(const Ctx &ctx, std::vector<Site> &out)
{
    for (int mi = -1; mi < static_cast<int>(ctx.libs.size()); ++mi) {
        const ModelSpec &m = ctx.m(mi);
        for (size_t ui = 0; ui < m.units.size(); ++ui) {
            if (mi >= 0 && !libUnitsIsReached(ctx, mi, static_cast<int>(ui))) {
                continue;
            }
            for (size_t uk = 0; uk < m.units[ui].units.size(); ++uk) {
                Site s;
                s.mi = mi;
                s.ui = static_cast<int>(ui);
                s.uk = static_cast<int>(uk);
                s.loc = (mi < 0 ? "units-" + posClass(ui, m.units.size()) : libUnitsClass(ctx, mi, s.ui)) + "/" + posClass(uk, m.units[ui].units.size());
                s.trivial = mi < 0 && ui == 0 && uk == 0;
                out.push_back(s);
            }
        }
    }
}

void registerReferenceFamilies()
{
    FAMILY("dangling:variable.units", variableSites, [](Ctx &ctx, const Site &s, uint64_t, Applied &ap) {
        auto &v = ctx.m(s.mi).comps[static_cast<size_t>(s.ci)].vars[static_cast<size_t>(s.k)];
        std::string to = "c04_no_such_units";
        if (s.mi >= 0) {
            // defined in the importing model only: not visible from the library model
            for (const auto &u : ctx.base.units) {
                if (u.import < 0 && findUnits(ctx.m(s.mi), u.name) < 0) {
                    to = u.name;
                    ap.tags.push_back("dangling:defined-in-importing-model-only");
                    break;
                }
            }
        }
        ap.desc = varDesc(ctx, s) + " units := " + q(to) + " (no such definition; was " + q(v.units) + ")";
        v.units = to;
        ap.accept = {R(VARIABLE_UNITS_VALUE)};
        return true;
    });
    FAMILY("dangling:unit.units", unitChildSites, [](Ctx &ctx, const Site &s, uint64_t, Applied &ap) {
        auto &c = ctx.m(s.mi).units[static_cast<size_t>(s.ui)].units[static_cast<size_t>(s.uk)];
        std::string to = "c04_no_such_units";
        if (s.mi >= 0) {
            for (const auto &u : ctx.base.units) {
                if (u.import < 0 && findUnits(ctx.m(s.mi), u.name) < 0) {
                    to = u.name;
                    ap.tags.push_back("dangling:defined-in-importing-model-only");
                    break;
                }
            }
        }
        ap.desc = "unit child " + std::to_string(s.uk) + " of units " + q(ctx.m(s.mi).units[static_cast<size_t>(s.ui)].name) + (s.mi >= 0 ? " (library)" : "") + " units := " + q(to) + " (no such definition; was " + q(c.ref) + ")";
        c.ref = to;
        ap.accept = {R(UNIT_UNITS_REFERENCE)};
        return true;
    });
    FAMILY("unit.prefix:illegal", unitChildSites, [](Ctx &ctx, const Site &s, uint64_t aux, Applied &ap) {
        static const std::vector<std::string> bad = {"kila", "1.5", "1e3", "Kilo", "+", "three", "0x3", "milli "};
        auto &c = ctx.m(s.mi).units[static_cast<size_t>(s.ui)].units[static_cast<size_t>(s.uk)];
        ap.desc = "unit child " + std::to_string(s.uk) + " of units " + q(ctx.m(s.mi).units[static_cast<size_t>(s.ui)].name) + (s.mi >= 0 ? " (library)" : "") + " prefix := " + q(bad[aux % bad.size()]);
        c.prefix = bad[aux % bad.size()];
        ap.accept = {R(UNIT_ATTRIBUTE_PREFIX_VALUE)};
        return true;
    });
    FAMILY("variable.interface:illegal", variableSites, [](Ctx &ctx, const Site &s, uint64_t aux, Applied &ap) {
        static const std::vector<std::string> bad = {"public_private", "PUBLIC", "in", "out", "both", "publicc", "private_and_public", "yes"};
        auto &v = ctx.m(s.mi).comps[static_cast<size_t>(s.ci)].vars[static_cast<size_t>(s.k)];
        ap.desc = varDesc(ctx, s) + " interface := " + q(bad[aux % bad.size()]) + " (was " + q(v.iface) + ")";
        v.iface = bad[aux % bad.size()];
        // an illegal value also fails to provide a needed interface: either clause may be cited
        ap.accept = {R(VARIABLE_INTERFACE_VALUE)};
        return true;
    });
    FAMILY("variable.initial_value:illegal", variableSites, [](Ctx &ctx, const Site &s, uint64_t aux, Applied &ap) {
        static const std::vector<std::string> bad = {"one", "1 2", "1e", "0x10", "1,5", "--1", "1.2.3", "e5", "+-1", "NaN", "inf", "1e5.5", "- 1", "1 ", "."};
        auto &c = ctx.m(s.mi).comps[static_cast<size_t>(s.ci)];
        auto &v = c.vars[static_cast<size_t>(s.k)];
        std::string to = bad[aux % bad.size()];
        if ((aux >> 8) % 4 == 0) {
            // the name of a variable of another component: not "a variable in the same component"
            const ModelSpec &m = ctx.m(s.mi);
            for (size_t o = 0; o < m.comps.size(); ++o) {
                for (const auto &ov : m.comps[o].vars) {
                    if (static_cast<int>(o) != s.ci && findVar(c, ov.name) < 0) {
                        to = ov.name;
                        ap.tags.push_back("initial_value:variable-of-another-component");
                    }
                }
            }
        }
        if (findVar(c, to) >= 0) {
            return false;
        }
        ap.desc = varDesc(ctx, s) + " initial_value := " + q(to) + " (was " + q(v.initial) + ")";
        v.initial = to;
        ap.accept = {R(VARIABLE_INITIAL_VALUE_VALUE)};
        return true;
    });
    FAMILY("dangling:import-component.component_ref",
           [](const Ctx &ctx, std::vector<Site> &out) {
               if (!ctx.resolved) {
                   return; // only an attached library model can lack the entity
               }
               for (size_t ci = 0; ci < ctx.base.comps.size(); ++ci) {
                   if (ctx.base.comps[ci].import >= 0) {
                       Site s;
                       s.ci = static_cast<int>(ci);
                       s.loc = compLoc(ctx, -1, s.ci, &s.trivial);
                       out.push_back(s);
                   }
               }
           },
           [](Ctx &ctx, const Site &s, uint64_t aux, Applied &ap) {
               auto &c = ctx.base.comps[static_cast<size_t>(s.ci)];
               // a name the library does not have; variant: the name of a units definition of the library (wrong kind of entity)
               std::string to = "c04_no_such_component";
               const ModelSpec &lib = ctx.libs[static_cast<size_t>(ctx.libOfImport(c.import))];
               if (aux % 2 == 1 && !lib.units.empty() && findComp(lib, lib.units[0].name) < 0) {
                   to = lib.units[0].name;
                   ap.tags.push_back("import-target:names-an-entity-of-the-other-kind");
               }
               ap.desc = "imported component " + q(c.name) + " component_ref := " + q(to) + " (the resolved model has no such component; was " + q(c.importRef) + ")";
               c.importRef = to;
               ap.accept = {R(IMPORT_COMPONENT_COMPONENT_REFERENCE_TARGET)};
               ap.importerMayFail = true;
               return true;
           });
    FAMILY("dangling:import-units.units_ref",
           [](const Ctx &ctx, std::vector<Site> &out) {
               if (!ctx.resolved) {
                   return;
               }
               for (size_t ui = 0; ui < ctx.base.units.size(); ++ui) {
                   if (ctx.base.units[ui].import >= 0) {
                       Site s;
                       s.ui = static_cast<int>(ui);
                       s.loc = "model/" + posClass(ui, ctx.base.units.size());
                       s.trivial = ui == 0;
                       out.push_back(s);
                   }
               }
           },
           [](Ctx &ctx, const Site &s, uint64_t aux, Applied &ap) {
               auto &u = ctx.base.units[static_cast<size_t>(s.ui)];
               std::string to = "c04_no_such_units";
               const ModelSpec &lib = ctx.libs[static_cast<size_t>(ctx.libOfImport(u.import))];
               if (aux % 2 == 1 && !lib.comps.empty() && findUnits(lib, lib.comps[0].name) < 0) {
                   to = lib.comps[0].name;
                   ap.tags.push_back("import-target:names-an-entity-of-the-other-kind");
               }
               ap.desc = "imported units " + q(u.name) + " units_ref := " + q(to) + " (the resolved model has no such units; was " + q(u.importRef) + ")";
               u.importRef = to;
               ap.accept = {R(IMPORT_UNITS_UNITS_REFERENCE_VALUE_TARGET)};
               ap.importerMayFail = true;
               return true;
           });
    FAMILY("import:no-href",
           [](const Ctx &ctx, std::vector<Site> &out) {
               for (size_t ii = 0; ii < ctx.base.imports.size(); ++ii) {
                   bool units = false, comps = false;
                   for (const auto &u : ctx.base.units) {
                       units = units || u.import == static_cast<int>(ii);
                   }
                   for (const auto &c : ctx.base.comps) {
                       comps = comps || c.import == static_cast<int>(ii);
                   }
                   if (units || comps) {
                       Site s;
                       s.ii = static_cast<int>(ii);
                       s.loc = std::string(units && comps ? "units+component" : (units ? "units" : "component")) + "/" + posClass(ii, ctx.base.imports.size()) + (ctx.resolved ? "/resolved-siblings" : "/unresolved");
                       s.trivial = ii == 0;
                       out.push_back(s);
                   }
               }
           },
           [](Ctx &ctx, const Site &s, uint64_t, Applied &ap) {
               ap.desc = "import " + std::to_string(s.ii) + " href removed (was " + q(ctx.base.imports[static_cast<size_t>(s.ii)].url) + ")";
               ctx.base.imports[static_cast<size_t>(s.ii)].url = "";
               ap.accept = {R(IMPORT_HREF), R(IMPORT_HREF_LOCATOR)};
               ap.importerMayFail = true;
               return true;
           });
    FAMILY("import:invalid-href",
           [](const Ctx &ctx, std::vector<Site> &out) {
               for (size_t ii = 0; ii < ctx.base.imports.size(); ++ii) {
                   if (importUsers(ctx.base, static_cast<int>(ii)) > 0) {
                       Site s;
                       s.ii = static_cast<int>(ii);
                       s.loc = "import/" + posClass(ii, ctx.base.imports.size()) + (ctx.resolved ? "/resolved-siblings" : "/unresolved");
                       s.trivial = ii == 0;
                       out.push_back(s);
                   }
               }
           },
           [](Ctx &ctx, const Site &s, uint64_t aux, Applied &ap) {
               // not URI references even after the escaping XLink 5.4 prescribes (which leaves '%', '#', '[' and ']' alone)
               static const std::vector<std::string> bad = {"%zz.cellml", "http://[::1", "%", "lib%2.cellml", "http://[/m.cellml"};
               ap.desc = "import " + std::to_string(s.ii) + " href := " + q(bad[aux % bad.size()]) + " (was " + q(ctx.base.imports[static_cast<size_t>(s.ii)].url) + ")";
               ctx.base.imports[static_cast<size_t>(s.ii)].url = bad[aux % bad.size()];
               ap.accept = {R(IMPORT_HREF_LOCATOR)};
               ap.importerMayFail = true;
               return true;
           });
    FAMILY("dup:import-units.units_ref",
           [](const Ctx &ctx, std::vector<Site> &out) {
               for (size_t ui = 0; ui < ctx.base.units.size(); ++ui) {
                   if (ctx.base.units[ui].import >= 0) {
                       Site s;
                       s.ui = static_cast<int>(ui);
                       s.loc = "model/" + posClass(ui, ctx.base.units.size()) + (ctx.resolved ? "/resolved" : "/unresolved");
                       s.trivial = ui == 0;
                       out.push_back(s);
                   }
               }
           },
           [](Ctx &ctx, const Site &s, uint64_t aux, Applied &ap) {
               UnitsSpec again = ctx.base.units[static_cast<size_t>(s.ui)];
               again.name = "c04_again";
               again.id = "";
               if (aux % 2 == 1) {
                   // through a second import element with the same href
                   ImportSpec is = ctx.base.imports[static_cast<size_t>(again.import)];
                   is.id = "";
                   ctx.base.imports.push_back(is);
                   again.import = static_cast<int>(ctx.base.imports.size()) - 1;
                   ap.loc = "second-import-element";
               }
               ap.desc = "units " + q(again.importRef) + " of " + q(ctx.base.imports[static_cast<size_t>(again.import)].url) + " imported a second time as " + q(again.name);
               if (aux % 4 >= 2) {
                   ctx.base.units.insert(ctx.base.units.begin(), again);
               } else {
                   ctx.base.units.push_back(again);
               }
               ap.accept = {R(IMPORT_UNITS_UNITS_REFERENCE)};
               return true;
           });
}

// ---- connections

std::string ifaceRole(const ModelSpec &m, int comp, int other)
{
    if (m.comps[static_cast<size_t>(other)].parent == comp) {
        return "as-parent";
    }
    if (m.comps[static_cast<size_t>(comp)].parent == other) {
        return "as-child";
    }
    return "as-sibling";
}

// Which kinds of (legal) equivalences a variable has: through a sibling / parent component (public type), through a child (private type).
std::string equivalenceKinds(const ModelSpec &m, int ci, int k)
{
    bool pub = false, priv = false;
    for (const auto &cn : m.conns) {
        for (const auto &mp : cn.maps) {
            int other = -1;
            if (cn.c1 == ci && mp.v1 == k) {
                other = cn.c2;
            } else if (cn.c2 == ci && mp.v2 == k) {
                other = cn.c1;
            }
            if (other < 0) {
                continue;
            }
            if (m.comps[static_cast<size_t>(other)].parent == ci) {
                priv = true;
            } else {
                pub = true;
            }
        }
    }
    return pub && priv ? "public+private" : (pub ? "public" : (priv ? "private" : "no"));
}

// The context a faulted equivalence sits in: a new variable of component ci that, by valid edits only, already has a legal
// equivalence of the public type (variable of the parent or, for lack of a local parent, of a sibling) and one of the
// private type (variable of a child); missing partner components are created. The caller decides where in the list of
// connections (= in which order the equivalences are made through the API) the faulted mapping goes.
struct ContextVariable
{
    int ci = -1, k = -1;
    std::vector<ConnSpec> pub, priv;
};

ContextVariable makeContextVariable(ModelSpec &m, int ci, const std::string &tag, const std::string &units, bool withContext)
{
    ContextVariable r;
    r.ci = ci;
    bool local = m.comps[static_cast<size_t>(ci)].import < 0;
    {
        VarSpec v;
        v.name = "c04_end_" + tag;
        if (local) {
            v.units = units;
            v.iface = "public_and_private";
        }
        m.comps[static_cast<size_t>(ci)].vars.push_back(v);
        r.k = static_cast<int>(m.comps[static_cast<size_t>(ci)].vars.size()) - 1;
    }
    if (!withContext || !local) {
        return r;
    }
    auto partnerVariable = [&](int comp, const std::string &name, const std::string &iface) {
        VarSpec v;
        v.name = name;
        v.units = units;
        v.iface = iface;
        m.comps[static_cast<size_t>(comp)].vars.push_back(v);
        return static_cast<int>(m.comps[static_cast<size_t>(comp)].vars.size()) - 1;
    };
    auto connect = [&](int comp, int var) {
        ConnSpec cs;
        cs.c1 = std::min(comp, ci);
        cs.c2 = std::max(comp, ci);
        MapSpec ms;
        ms.v1 = cs.c1 == ci ? r.k : var;
        ms.v2 = cs.c1 == ci ? var : r.k;
        cs.maps.push_back(ms);
        return cs;
    };
    // public type
    int parent = m.comps[static_cast<size_t>(ci)].parent;
    if (parent >= 0 && m.comps[static_cast<size_t>(parent)].import < 0) {
        r.pub.push_back(connect(parent, partnerVariable(parent, "c04_pub_" + tag, "private")));
    } else {
        int sibling = -1;
        for (size_t o = 0; o < m.comps.size() && sibling < 0; ++o) {
            if (static_cast<int>(o) != ci && m.comps[o].parent == parent && m.comps[o].import < 0) {
                sibling = static_cast<int>(o);
            }
        }
        if (sibling < 0) {
            CompSpec c;
            c.name = "c04_sibling_of_" + m.comps[static_cast<size_t>(ci)].name;
            c.parent = parent;
            m.comps.push_back(c);
            sibling = static_cast<int>(m.comps.size()) - 1;
        }
        r.pub.push_back(connect(sibling, partnerVariable(sibling, "c04_pub_" + tag, "public")));
    }
    // private type
    int child = -1;
    for (size_t o = 0; o < m.comps.size() && child < 0; ++o) {
        if (m.comps[o].parent == ci && m.comps[o].import < 0) {
            child = static_cast<int>(o);
        }
    }
    if (child < 0) {
        CompSpec c;
        c.name = "c04_child_of_" + m.comps[static_cast<size_t>(ci)].name;
        c.parent = ci;
        m.comps.push_back(c);
        child = static_cast<int>(m.comps.size()) - 1;
    }
    r.priv.push_back(connect(child, partnerVariable(child, "c04_priv_" + tag, "public")));
    return r;
}

// Joins two new end variables by one faulted mapping; mode: 0 bare variables, 1-3 both ends have legal public- and
// private-type equivalences and the faulted one is made last / first / between them, 4 only the first end has them (last).
void joinWithContext(ModelSpec &m, int a, int b, const std::string &unitsA, const std::string &unitsB, unsigned mode, Applied &ap)
{
    ContextVariable A = makeContextVariable(m, a, "a", unitsA, mode != 0);
    ContextVariable B = makeContextVariable(m, b, "b", unitsB, mode >= 1 && mode <= 3);
    ConnSpec bad;
    bad.c1 = a;
    bad.c2 = b;
    MapSpec ms;
    ms.v1 = A.k;
    ms.v2 = B.k;
    bad.maps.push_back(ms);
    auto append = [&](const std::vector<ConnSpec> &v) { m.conns.insert(m.conns.end(), v.begin(), v.end()); };
    bool fullA = !A.pub.empty() && !A.priv.empty();
    bool fullB = !B.pub.empty() && !B.priv.empty();
    switch (mode) {
    case 2:
        m.conns.insert(m.conns.begin(), bad);
        append(A.pub);
        append(B.pub);
        append(A.priv);
        append(B.priv);
        ap.tags.push_back(fullA && fullB ? "fault-context:before-public+private-on-both-endpoints" : "fault-context:first-equivalence-of-its-variables");
        break;
    case 3:
        append(A.pub);
        append(B.pub);
        m.conns.push_back(bad);
        append(A.priv);
        append(B.priv);
        ap.tags.push_back(fullA && fullB ? "fault-context:between-public-and-private-on-both-endpoints" : "fault-context:middle-equivalence-of-its-variables");
        break;
    default:
        append(A.pub);
        append(B.pub);
        append(A.priv);
        append(B.priv);
        m.conns.push_back(bad);
        ap.tags.push_back(!fullA && !fullB ? "fault-context:bare-endpoints" : (fullA && fullB ? "fault-context:after-public+private-on-both-endpoints" : "fault-context:after-public+private-on-one-endpoint"));
        break;
    }
    ap.nontrivial = true;
}

void registerConnectionFamilies()
{
    FAMILY("connection:unreachable-components",
           [](const Ctx &ctx, std::vector<Site> &out) {
               const ModelSpec &m = ctx.base;
               for (size_t a = 0; a < m.comps.size(); ++a) {
                   for (size_t b = a + 1; b < m.comps.size(); ++b) {
                       const auto &A = m.comps[a];
                       const auto &B = m.comps[b];
                       bool reachable = A.parent == B.parent || B.parent == static_cast<int>(a) || A.parent == static_cast<int>(b);
                       if (reachable || (A.import >= 0 && B.import >= 0)) {
                           continue;
                       }
                       // ancestor at distance >= 2, or unrelated
                       int dist = 0;
                       int p = static_cast<int>(b);
                       bool anc = false;
                       while (p >= 0) {
                           if (p == static_cast<int>(a)) {
                               anc = true;
                               break;
                           }
                           p = m.comps[static_cast<size_t>(p)].parent;
                           ++dist;
                       }
                       Site s;
                       s.a = static_cast<int>(a);
                       s.b = static_cast<int>(b);
                       s.loc = (anc ? "ancestor-distance-" + std::to_string(std::min(dist, 3)) : std::string(A.parent < 0 || B.parent < 0 ? "uncle" : "cousins")) + (A.import >= 0 || B.import >= 0 ? "/one-imported" : "/both-local");
                       out.push_back(s);
                   }
               }
               // and, whatever the model looks like: a new child of a local component and a new sibling of that component
               for (size_t x = 0; x < m.comps.size(); ++x) {
                   if (m.comps[x].import < 0) {
                       Site s;
                       s.a = static_cast<int>(x);
                       s.b = -1;
                       s.loc = "new-nephew-and-uncle/" + depthClass(ctx, -1, s.a);
                       out.push_back(s);
                   }
               }
           },
           [](Ctx &ctx, const Site &s, uint64_t aux, Applied &ap) {
               ModelSpec &m = ctx.base;
               int a = s.a, b = s.b;
               if (b < 0) {
                   CompSpec nephew, uncle;
                   nephew.name = "c04_nephew";
                   nephew.parent = s.a;
                   uncle.name = "c04_uncle";
                   uncle.parent = m.comps[static_cast<size_t>(s.a)].parent;
                   m.comps.push_back(nephew);
                   a = static_cast<int>(m.comps.size()) - 1;
                   m.comps.push_back(uncle);
                   b = static_cast<int>(m.comps.size()) - 1;
               }
               unsigned mode = static_cast<unsigned>((aux >> 8) % 5);
               joinWithContext(m, a, b, "second", "second", mode, ap);
               if (mode == 0) {
                   // bare end variables: any declared interface
                   static const std::vector<std::string> ifs = {"public_and_private", "public", "private", ""};
                   for (int ci : {a, b}) {
                       if (m.comps[static_cast<size_t>(ci)].import < 0) {
                           m.comps[static_cast<size_t>(ci)].vars.back().iface = ifs[(aux >> (ci == a ? 0 : 4)) % ifs.size()];
                       }
                   }
               }
               ap.desc = "new variables in components " + q(m.comps[static_cast<size_t>(a)].name) + " and " + q(m.comps[static_cast<size_t>(b)].name) + " (neither siblings nor parent and child) mapped to each other; " + ap.tags.back();
               // 3.10 / 2.16: no clause of its own in the catalogue; the map_variables (or its connection) is what is wrong
               ap.accept = {R(MAP_VARIABLES_ELEMENT), R(CONNECTION_ELEMENT)};
               return true;
           });
    FAMILY("interface:insufficient",
           [](const Ctx &ctx, std::vector<Site> &out) {
               for (int mi = -1; mi < static_cast<int>(ctx.libs.size()); ++mi) {
                   const ModelSpec &m = ctx.m(mi);
                   for (size_t cn = 0; cn < m.conns.size(); ++cn) {
                       // connections of a library model count when both components come in through an import
                       if (mi >= 0 && (!libCompIsImported(ctx, mi, m.conns[cn].c1) || !libCompIsImported(ctx, mi, m.conns[cn].c2))) {
                           continue;
                       }
                       for (size_t mp = 0; mp < m.conns[cn].maps.size(); ++mp) {
                           for (int side = 0; side < 2; ++side) {
                               int ci = side == 0 ? m.conns[cn].c1 : m.conns[cn].c2;
                               int other = side == 0 ? m.conns[cn].c2 : m.conns[cn].c1;
                               if (m.comps[static_cast<size_t>(ci)].import >= 0) {
                                   continue;
                               }
                               Site s;
                               s.mi = mi;
                               s.cn = static_cast<int>(cn);
                               s.mp = static_cast<int>(mp);
                               s.a = side;
                               s.ci = ci;
                               s.k = side == 0 ? m.conns[cn].maps[mp].v1 : m.conns[cn].maps[mp].v2;
                               s.loc = depthClass(ctx, mi, ci) + "/" + ifaceRole(m, ci, other) + (m.comps[static_cast<size_t>(other)].import >= 0 ? "/other-imported" : "");
                               out.push_back(s);
                           }
                       }
                   }
               }
           },
           [](Ctx &ctx, const Site &s, uint64_t aux, Applied &ap) {
               ModelSpec &m = ctx.m(s.mi);
               std::string need = requiredInterface(m, s.ci, s.k);
               std::vector<std::string> lacking;
               if (need == "public") {
                   lacking = {"", "none", "private"};
               } else if (need == "private") {
                   lacking = {"", "none", "public"};
               } else if (need == "public_and_private") {
                   lacking = {"", "none", "public", "private"};
               } else {
                   return false;
               }
               auto &v = m.comps[static_cast<size_t>(s.ci)].vars[static_cast<size_t>(s.k)];
               std::string to = lacking[aux % lacking.size()];
               ap.desc = varDesc(ctx, s) + " interface := " + q(to) + " (was " + q(v.iface) + "; its mappings need " + q(need) + ")";
               ap.loc = s.loc + "/needs-" + need + "/has-" + (to.empty() ? "nothing" : to);
               ap.tags.push_back("fault-context:variable-has-" + equivalenceKinds(m, s.ci, s.k) + "-type-equivalences");
               v.iface = to;
               ap.accept = {R(MAP_VARIABLES_ELEMENT)};
               return true;
           });
    FAMILY("connection:units-mismatch",
           [](const Ctx &ctx, std::vector<Site> &out) {
               for (size_t li = 0; li < ctx.libs.size(); ++li) {
                   const ModelSpec &lm = ctx.libs[li];
                   for (size_t cn = 0; cn < lm.conns.size(); ++cn) {
                       if (!libCompIsImported(ctx, static_cast<int>(li), lm.conns[cn].c1) || !libCompIsImported(ctx, static_cast<int>(li), lm.conns[cn].c2)) {
                           continue;
                       }
                       for (size_t mp = 0; mp < lm.conns[cn].maps.size(); ++mp) {
                           for (int side = 0; side < 2; ++side) {
                               Site s;
                               s.mi = static_cast<int>(li);
                               s.cn = static_cast<int>(cn);
                               s.mp = static_cast<int>(mp);
                               s.a = side;
                               s.ci = side == 0 ? lm.conns[cn].c1 : lm.conns[cn].c2;
                               s.k = side == 0 ? lm.conns[cn].maps[mp].v1 : lm.conns[cn].maps[mp].v2;
                               int other = side == 0 ? lm.conns[cn].c2 : lm.conns[cn].c1;
                               s.loc = depthClass(ctx, s.mi, s.ci) + "/" + ifaceRole(lm, s.ci, other) + "/" + posClass(mp, lm.conns[cn].maps.size()) + "-mapping";
                               out.push_back(s);
                           }
                       }
                   }
               }
               const ModelSpec &m = ctx.base;
               for (size_t cn = 0; cn < m.conns.size(); ++cn) {
                   const auto &A = m.comps[static_cast<size_t>(m.conns[cn].c1)];
                   const auto &B = m.comps[static_cast<size_t>(m.conns[cn].c2)];
                   if (A.import >= 0 || B.import >= 0) {
                       continue;
                   }
                   for (size_t mp = 0; mp < m.conns[cn].maps.size(); ++mp) {
                       for (int side = 0; side < 2; ++side) {
                           Site s;
                           s.cn = static_cast<int>(cn);
                           s.mp = static_cast<int>(mp);
                           s.a = side;
                           s.ci = side == 0 ? m.conns[cn].c1 : m.conns[cn].c2;
                           s.k = side == 0 ? m.conns[cn].maps[mp].v1 : m.conns[cn].maps[mp].v2;
                           int other = side == 0 ? m.conns[cn].c2 : m.conns[cn].c1;
                           s.loc = depthClass(ctx, -1, s.ci) + "/" + ifaceRole(m, s.ci, other) + "/" + posClass(mp, m.conns[cn].maps.size()) + "-mapping";
                           out.push_back(s);
                       }
                   }
               }
               // a new mapping between new variables of different dimensions in reachable local components
               for (size_t a = 0; a < m.comps.size(); ++a) {
                   for (size_t b = a + 1; b < m.comps.size(); ++b) {
                       const auto &A = m.comps[a];
                       const auto &B = m.comps[b];
                       bool reachable = A.parent == B.parent || B.parent == static_cast<int>(a) || A.parent == static_cast<int>(b);
                       if (reachable && A.import < 0 && B.import < 0) {
                           Site s;
                           s.where = 9;
                           s.a = static_cast<int>(a);
                           s.b = static_cast<int>(b);
                           s.ci = s.b;
                           s.loc = depthClass(ctx, -1, s.b) + "/" + ifaceRole(m, s.b, s.a) + "/new-mapping";
                           out.push_back(s);
                       }
                   }
               }
           },
           [](Ctx &ctx, const Site &s, uint64_t aux, Applied &ap) {
               ModelSpec &m = ctx.m(s.where == 9 ? -1 : s.mi);
               if (s.where == 9) {
                   static const std::vector<std::pair<std::string, std::string>> dims = {{"second", "metre"}, {"volt", "ampere"}, {"dimensionless", "kilogram"}, {"newton", "joule"}};
                   const auto &d = dims[aux % dims.size()];
                   joinWithContext(m, s.a, s.b, d.first, d.second, static_cast<unsigned>((aux >> 8) % 5), ap);
                   ap.desc = "new variables in " + q(m.comps[static_cast<size_t>(s.a)].name) + " (units " + d.first + ") and " + q(m.comps[static_cast<size_t>(s.b)].name) + " (units " + d.second + ") mapped to each other; " + ap.tags.back();
                   ap.accept = {R(MAP_VARIABLES_ELEMENT)};
                   return true;
               }
               ap.tags.push_back("fault-context:variable-has-" + equivalenceKinds(m, s.ci, s.k) + "-type-equivalences");
               const auto &cn = m.conns[static_cast<size_t>(s.cn)];
               const auto &mp = cn.maps[static_cast<size_t>(s.mp)];
               const std::string otherUnits = s.a == 0 ? m.comps[static_cast<size_t>(cn.c2)].vars[static_cast<size_t>(mp.v2)].units : m.comps[static_cast<size_t>(cn.c1)].vars[static_cast<size_t>(mp.v1)].units;
               UnitsRed ro = reduceUnits(m, otherUnits);
               if (!ro.defined) {
                   return false; // imported units: dimensions unknown to the harness
               }
               auto &v = m.comps[static_cast<size_t>(s.ci)].vars[static_cast<size_t>(s.k)];
               std::string to;
               if (aux % 3 == 0 && !ro.base.empty()) {
                   // the square of the other side's units, through a new definition that refers to it
                   UnitsSpec u;
                   u.name = "c04_squared";
                   UnitSpec c;
                   c.ref = otherUnits;
                   c.exponent = 2.0;
                   u.units.push_back(c);
                   m.units.push_back(u);
                   to = u.name;
                   ap.loc = s.loc + "/exponent-only";
               } else {
                   static const std::vector<std::string> cands = {"second", "metre", "kilogram", "ampere", "kelvin", "mole", "candela", "dimensionless", "volt", "newton"};
                   for (size_t i = 0; i < cands.size() && to.empty(); ++i) {
                       const std::string &cand = cands[(aux / 3 + i) % cands.size()];
                       if (!sameBase(reduceUnits(m, cand), ro)) {
                           to = cand;
                       }
                   }
                   ap.loc = s.loc + "/other-dimension";
               }
               ap.desc = varDesc(ctx, s) + " units := " + q(to) + " (was " + q(v.units) + "); mapped to a variable with units " + q(otherUnits);
               v.units = to;
               // the variable may have further mappings: they break too, which is the same fault
               ap.accept = {R(MAP_VARIABLES_ELEMENT)};
               return true;
           });
    FAMILY("equivalence:parentless-variable",
           [](const Ctx &ctx, std::vector<Site> &out) {
               eachVariable(ctx, [&](const Site &s, const CompSpec &) {
                   if (s.mi < 0) {
                       out.push_back(s);
                   }
               });
           },
           [](Ctx &ctx, const Site &s0, uint64_t aux, Applied &ap) {
               ModelSpec &m = ctx.base;
               Site s = s0;
               unsigned mode = static_cast<unsigned>((aux >> 8) % 3); // 0: existing variable, orphan last; 1: existing variable, orphan first; 2: new variable with public- and private-type equivalences, orphan last
               if (mode == 2) {
                   ContextVariable v = makeContextVariable(m, s.ci, "a", "second", true);
                   m.conns.insert(m.conns.end(), v.pub.begin(), v.pub.end());
                   m.conns.insert(m.conns.end(), v.priv.begin(), v.priv.end());
                   s.k = v.k;
               }
               std::string kinds = equivalenceKinds(m, s.ci, s.k);
               ap.tags.push_back(std::string("fault-context:") + (kinds == "no" ? "only-equivalence-of-its-variable" : (mode == 1 ? "before-" : "after-") + kinds + "-type-equivalences"));
               ap.desc = varDesc(ctx, s) + " made equivalent to a variable that is in no component; " + ap.tags.back();
               ap.accept = {R(MAP_VARIABLES_VARIABLE1_ATTRIBUTE), R(MAP_VARIABLES_VARIABLE1_ATTRIBUTE_REFERENCE), R(MAP_VARIABLES_VARIABLE2_ATTRIBUTE), R(MAP_VARIABLES_VARIABLE2_ATTRIBUTE_REFERENCE), R(MAP_VARIABLES_ELEMENT)};
               Site site = s;
               std::string units = m.comps[static_cast<size_t>(s.ci)].vars[static_cast<size_t>(s.k)].units;
               ap.post = [site, units, mode](BuiltAll &b) {
                   auto orphan = Variable::create("c04_orphan");
                   if (!units.empty()) {
                       orphan->setUnits(units);
                   }
                   orphan->setInterfaceType("public_and_private");
                   auto v = b.base.vars[static_cast<size_t>(site.ci)][static_cast<size_t>(site.k)];
                   b.keep.push_back(orphan); // equivalences are weak references
                   if (mode != 1) {
                       Variable::addEquivalence(v, orphan);
                       return;
                   }
                   // the orphan becomes the first entry of the variable's list: the others are removed and made again after it
                   struct Old
                   {
                       VariablePtr other;
                       std::string mappingId, connectionId;
                   };
                   std::vector<Old> olds;
                   for (size_t i = 0; i < v->equivalentVariableCount(); ++i) {
                       auto o = v->equivalentVariable(i);
                       olds.push_back({o, Variable::equivalenceMappingId(v, o), Variable::equivalenceConnectionId(v, o)});
                   }
                   for (const auto &o : olds) {
                       Variable::removeEquivalence(v, o.other);
                   }
                   Variable::addEquivalence(v, orphan);
                   for (const auto &o : olds) {
                       Variable::addEquivalence(v, o.other, o.mappingId, o.connectionId);
                   }
               };
               return true;
           });
}

// ---- cyclic units

void registerCycleFamilies()
{
    for (int len = 1; len <= 3; ++len) {
        FAMILY("units:cycle-" + std::to_string(len),
               [](const Ctx &ctx, std::vector<Site> &out) {
                   {
                       Site s;
                       s.where = 0;
                       s.loc = "unused";
                       out.push_back(s);
                   }
                   const ModelSpec &m = ctx.base;
                   auto sets = connectedSets(m);
                   for (size_t ci = 0; ci < m.comps.size(); ++ci) {
                       if (m.comps[ci].import >= 0) {
                           continue;
                       }
                       for (size_t k = 0; k < m.comps[ci].vars.size(); ++k) {
                           bool connected = false;
                           for (const auto &e : sets) {
                               connected = connected || (e.first != std::make_pair(static_cast<int>(ci), static_cast<int>(k)) && e.second == sets[{static_cast<int>(ci), static_cast<int>(k)}]);
                           }
                           Site s;
                           s.where = 1;
                           s.ci = static_cast<int>(ci);
                           s.k = static_cast<int>(k);
                           s.loc = std::string(connected ? "units-of-connected-variable" : "units-of-variable") + "/" + depthClass(ctx, -1, s.ci);
                           out.push_back(s);
                       }
                   }
                   for (size_t ui = 0; ui < m.units.size(); ++ui) {
                       if (m.units[ui].import < 0 && !m.units[ui].units.empty()) {
                           Site s;
                           s.where = 2;
                           s.ui = static_cast<int>(ui);
                           s.loc = "entered-from-existing-units/" + posClass(ui, m.units.size());
                           out.push_back(s);
                       }
                   }
                   for (size_t li = 0; li < ctx.libs.size(); ++li) {
                       for (size_t ui = 0; ui < ctx.libs[li].units.size(); ++ui) {
                           if (libUnitsIsReached(ctx, static_cast<int>(li), static_cast<int>(ui))) {
                               Site s;
                               s.where = 3;
                               s.mi = static_cast<int>(li);
                               s.ui = static_cast<int>(ui);
                               std::string cls = libUnitsClass(ctx, s.mi, s.ui);
                               s.loc = cls == "lib-imported-units" ? "lib/entered-from-imported-units" : (cls == "lib-referenced-units" ? "lib/entered-from-referenced-units" : "lib/entered-from-units-of-imported-variable");
                               out.push_back(s);
                           }
                       }
                   }
               },
               [len](Ctx &ctx, const Site &s, uint64_t aux, Applied &ap) {
                   ModelSpec &m = ctx.m(s.where == 3 ? s.mi : -1);
                   std::vector<std::string> names;
                   for (int i = 0; i < len; ++i) {
                       names.push_back(std::string("c04_cyc_") + static_cast<char>('a' + i));
                   }
                   std::vector<UnitsSpec> defs;
                   for (int i = 0; i < len; ++i) {
                       UnitsSpec u;
                       u.name = names[static_cast<size_t>(i)];
                       if ((aux >> 3) % 2 == 1) {
                           UnitSpec pre;
                           pre.ref = "second";
                           u.units.push_back(pre); // the cyclic reference is not the first child
                       }
                       UnitSpec c;
                       c.ref = names[static_cast<size_t>((i + 1) % len)];
                       c.exponent = i == 0 ? 1.0 : 2.0;
                       u.units.push_back(c);
                       defs.push_back(u);
                   }
                   // definitions go in front of or behind the existing ones
                   if (aux % 2 == 0) {
                       m.units.insert(m.units.end(), defs.begin(), defs.end());
                   } else {
                       m.units.insert(m.units.begin(), defs.rbegin(), defs.rend());
                   }
                   int shift = aux % 2 == 0 ? 0 : len;
                   ap.desc = "units " + names[0] + " ... form a reference cycle of length " + std::to_string(len);
                   switch (s.where) {
                   case 0: break;
                   case 1: {
                       // every variable of the connected set gets the cyclic units, so that no mapping joins different units
                       auto sets = connectedSets(m);
                       int set = sets[{s.ci, s.k}];
                       for (const auto &e : sets) {
                           if (e.second == set && m.comps[static_cast<size_t>(e.first.first)].import < 0) {
                               m.comps[static_cast<size_t>(e.first.first)].vars[static_cast<size_t>(e.first.second)].units = names[0];
                           }
                       }
                       ap.desc += "; used by " + varDesc(ctx, s) + " and the variables connected to it";
                       break;
                   }
                   default: {
                       UnitSpec c;
                       c.ref = names[0];
                       auto &host = m.units[static_cast<size_t>(s.ui + shift)];
                       host.units.insert((aux >> 4) % 2 == 0 ? host.units.end() : host.units.begin(), c);
                       ap.desc += "; entered from units " + q(host.name) + (s.where == 3 ? " of the library model" : "");
                       break;
                   }
                   }
                   ap.accept = {R(UNIT_UNITS_CIRCULAR_REFERENCE)};
                   return true;
               });
    }
}

// ---- MathML: fragments placed at a tape-chosen position of component math, test_value or reset_value

const char *MATHML_NS = "http://www.w3.org/1998/Math/MathML";
const char *CELLML_NS = "http://www.cellml.org/cellml/2.0#";

struct FragEnv
{
    std::string v; // name of a variable of the component ("" if it has none)
    std::string A, B; // valid operands
    std::string foreign; // name of a variable of another component that is not a name here ("" if none)
    std::string foreignUnits; // library component: units defined in the importing model only ("" if none)
    int where = 0;
};

std::string cnText(const std::string &text, const std::string &units = "dimensionless")
{
    return "<cn cellml:units=\"" + attrEsc(units) + "\">" + text + "</cn>";
}

std::string operands(const FragEnv &e, int n)
{
    std::string s;
    for (int i = 0; i < n; ++i) {
        s += i % 2 == 0 ? e.A : e.B;
    }
    return s;
}

struct Frag
{
    std::string name;
    RuleSet accept;
    std::function<std::string(const FragEnv &, uint64_t, Applied &)> make; // "" = not applicable here
    bool whole = false; // make() returns a whole math string instead of an operand
};

std::vector<Frag> &frags()
{
    static std::vector<Frag> f;
    return f;
}

void registerFrags()
{
    auto add = [](const std::string &name, RuleSet accept, std::function<std::string(const FragEnv &, uint64_t, Applied &)> make, bool whole = false) { frags().push_back(Frag {name, std::move(accept), std::move(make), whole}); };
    const RuleSet M = {R(MATH_MATHML)};

    // -- the math element itself
    add("root:not-a-math-element", {R(MATH_ELEMENT), R(MATH_MATHML), R(COMPONENT_CHILD), R(TEST_VALUE_CHILD), R(RESET_VALUE_CHILD)},
        [](const FragEnv &e, uint64_t aux, Applied &ap) {
            std::string inner = e.where == 0 ? "<apply><eq/>" + e.A + e.B + "</apply>" : e.B;
            std::string ns = std::string(" xmlns=\"") + MATHML_NS + "\" xmlns:cellml=\"" + CELLML_NS + "\"";
            switch (aux % 4) {
            case 0: ap.tags.push_back("root:apply"); return e.where == 0 ? "<apply" + ns + "><eq/>" + e.A + e.B + "</apply>" : "<apply" + ns + "><plus/>" + e.A + e.B + "</apply>";
            case 1: ap.tags.push_back("root:maths"); return "<maths" + ns + ">" + inner + "</maths>";
            case 2: ap.tags.push_back("root:math-in-no-namespace"); return "<math xmlns:cellml=\"" + std::string(CELLML_NS) + "\">" + inner + "</math>";
            default: ap.tags.push_back("root:math-in-cellml-namespace"); return "<math xmlns=\"" + std::string(CELLML_NS) + "\" xmlns:cellml=\"" + CELLML_NS + "\">" + inner + "</math>";
            }
        },
        true);
    add("xml:malformed", {R(XML), R(XML_UNEXPECTED_CHARACTER), R(MATH_MATHML), R(MATH_ELEMENT)},
        [](const FragEnv &e, uint64_t aux, Applied &ap) {
            std::string inner = e.where == 0 ? "<apply><eq/>" + e.A + e.B + "</apply>" : e.B;
            std::string open = std::string("<math xmlns=\"") + MATHML_NS + "\" xmlns:cellml=\"" + CELLML_NS + "\">";
            switch (aux % 5) {
            case 0: ap.tags.push_back("malformed:missing-end-tag"); return open + inner;
            case 1: ap.tags.push_back("malformed:mismatched-tag"); return open + "<apply><plus/>" + e.A + e.B + "</math>";
            case 2: ap.tags.push_back("malformed:bare-ampersand"); return open + "<apply><eq/>" + e.A + "<ci> a & b </ci></apply></math>";
            case 3: ap.tags.push_back("malformed:unquoted-attribute"); return "<math xmlns=" + std::string(MATHML_NS) + ">" + inner + "</math>";
            default: ap.tags.push_back("malformed:undeclared-prefix"); return std::string("<math xmlns=\"") + MATHML_NS + "\">" + (e.where == 0 ? "<apply><eq/>" + e.A + cnText("1") + "</apply>" : cnText("1")) + "</math>";
            }
        },
        true);

    add("xml:stray-text", {R(XML), R(XML_UNEXPECTED_CHARACTER), R(MATH_MATHML), R(MATH_ELEMENT), R(COMPONENT_CHILD), R(TEST_VALUE_CHILD), R(RESET_VALUE_CHILD)},
        [](const FragEnv &e, uint64_t aux, Applied &ap) {
            // character data next to (or instead of) the math element: not MathML, and not allowed in a component / test_value / reset_value (1.2.3.2)
            std::string inner = e.where == 0 ? "<apply><eq/>" + e.A + e.B + "</apply>" : e.B;
            std::string math = std::string("<math xmlns=\"") + MATHML_NS + "\" xmlns:cellml=\"" + CELLML_NS + "\">" + inner + "</math>";
            switch (aux % 4) {
            case 0: ap.tags.push_back("stray-text:no-markup-at-all"); return std::string(e.where == 0 ? "x = 1" : "1");
            case 1: ap.tags.push_back("stray-text:after-the-math-element"); return math + " and then some";
            case 2: ap.tags.push_back("stray-text:before-the-math-element"); return "see: " + math;
            default: ap.tags.push_back("stray-text:between-two-math-elements"); return math + " ; " + math;
            }
        },
        true);

    // -- element types outside the supported table
    add("unsupported-element", {R(MATH_CHILD)}, [](const FragEnv &e, uint64_t aux, Applied &ap) {
        static const std::vector<std::pair<const char *, int>> els = {// name, shape: 0 unary operator, 1 container of operands, 2 presentation token, 3 empty constant, 4 binary operator
                                                                       {"factorial", 0}, {"sum", 0}, {"int", 0}, {"partialdiff", 0}, {"conjugate", 0}, {"arg", 0}, {"inverse", 0}, {"determinant", 0}, {"transpose", 0}, {"mean", 1},
                                                                       {"vector", 1}, {"matrixrow", 1}, {"set", 1}, {"list", 1}, {"interval", 1}, {"lambda", 1}, {"semantics", 1}, {"mrow", 1}, {"mfrac", 1}, {"mi", 2}, {"mn", 2},
                                                                       {"mo", 2}, {"csymbol", 2}, {"imaginaryi", 3}, {"eulergamma", 3}, {"emptyset", 3}, {"integers", 3}, {"reals", 3}, {"quotient", 4}, {"gcd", 4},
                                                                       {"lcm", 4}, {"approx", 4}, {"implies", 4}, {"equivalent", 4}, {"factorof", 4}, {"union", 4}, {"in", 4}, {"tendsto", 4}};
        auto el = els[aux % els.size()];
        std::string n = el.first;
        ap.tags.push_back("unsupported:" + std::string(el.second == 0 || el.second == 4 ? "operator" : (el.second == 1 ? "container" : (el.second == 2 ? "token" : "constant"))));
        ap.desc = " <" + n + ">";
        switch (el.second) {
        case 0: return "<apply><" + n + "/>" + e.A + "</apply>";
        case 1: return "<" + n + ">" + e.A + e.B + "</" + n + ">";
        case 2: return "<" + n + ">x</" + n + ">";
        case 3: return "<" + n + "/>";
        default: return "<apply><" + n + "/>" + e.A + e.B + "</apply>";
        }
    });

    add("element-in-foreign-namespace", {R(MATH_CHILD), R(MATH_MATHML)}, [](const FragEnv &e, uint64_t aux, Applied &ap) {
        // a supported local name, but not a MathML element
        switch (aux % 3) {
        case 0: ap.tags.push_back("foreign:cellml-ci"); return e.v.empty() ? std::string() : "<cellml:ci>" + attrEsc(e.v) + "</cellml:ci>";
        case 1: ap.tags.push_back("foreign:apply-in-other-namespace"); return "<apply xmlns=\"http://example.org/not-mathml\"><plus/>" + e.A + e.B + "</apply>";
        default: ap.tags.push_back("foreign:operator-in-cellml-namespace"); return "<apply><cellml:plus/>" + e.A + e.B + "</apply>";
        }
    });

    // -- number of operands
    struct Arity
    {
        const char *cls;
        std::vector<const char *> ops;
        std::vector<int> few, many;
    };
    static const std::vector<Arity> arities = {
        {"relational", {"eq", "neq", "lt", "leq", "gt", "geq"}, {0, 1}, {3, 4}},
        {"and-or-xor", {"and", "or", "xor"}, {0, 1}, {}},
        {"not", {"not"}, {0}, {2, 3}},
        {"plus", {"plus"}, {0}, {}},
        {"minus", {"minus"}, {0}, {3, 4}},
        {"times", {"times"}, {0, 1}, {}},
        {"divide", {"divide"}, {0, 1}, {3}},
        {"power", {"power"}, {0, 1}, {3}},
        {"root", {"root"}, {0}, {3}},
        {"abs-exp-ln", {"abs", "exp", "ln"}, {0}, {2, 3}},
        {"log", {"log"}, {0}, {3}},
        {"ceiling-floor", {"ceiling", "floor"}, {0}, {2}},
        {"min-max", {"min", "max"}, {0, 1}, {}},
        {"rem", {"rem"}, {0, 1}, {3}},
        {"trigonometric", {"sin", "cos", "tan", "sec", "csc", "cot", "sinh", "cosh", "tanh", "sech", "csch", "coth", "arcsin", "arccos", "arctan", "arcsec", "arccsc", "arccot", "arcsinh", "arccosh", "arctanh", "arcsech", "arccsch", "arccoth"}, {0}, {2, 3}},
    };
    for (const auto &a : arities) {
        for (int many = 0; many < 2; ++many) {
            const auto &counts = many == 0 ? a.few : a.many;
            if (counts.empty()) {
                continue;
            }
            Arity ar = a;
            add(std::string("arity:") + a.cls + (many == 0 ? ":too-few" : ":too-many"), M, [ar, many](const FragEnv &e, uint64_t aux, Applied &ap) {
                const auto &cs = many == 0 ? ar.few : ar.many;
                std::string op = ar.ops[aux % ar.ops.size()];
                int n = cs[(aux >> 8) % cs.size()];
                ap.desc = " <" + op + "/> with " + std::to_string(n) + " operand(s)";
                ap.tags.push_back("operands=" + std::to_string(n));
                return "<apply><" + op + "/>" + operands(e, n) + "</apply>";
            });
        }
    }
    add("arity:root:two-operands-without-degree", M, [](const FragEnv &e, uint64_t, Applied &) { return "<apply><root/>" + e.A + e.B + "</apply>"; });
    add("arity:log:two-operands-without-logbase", M, [](const FragEnv &e, uint64_t, Applied &) { return "<apply><log/>" + e.A + e.B + "</apply>"; });
    add("apply:empty", M, [](const FragEnv &, uint64_t aux, Applied &) { return std::string(aux % 2 == 0 ? "<apply/>" : "<apply></apply>"); });
    add("apply:operator-not-first", M, [](const FragEnv &e, uint64_t aux, Applied &) {
        static const std::vector<std::string> ops = {"plus", "times", "minus", "divide", "eq", "and", "sin", "not"};
        std::string op = ops[aux % ops.size()];
        return op == "sin" || op == "not" ? "<apply>" + e.A + "<" + op + "/></apply>" : "<apply>" + e.A + "<" + op + "/>" + e.B + "</apply>";
    });
    // -- diff / bvar / degree / logbase
    add("diff:without-bvar", M, [](const FragEnv &e, uint64_t aux, Applied &) { return aux % 2 == 0 ? "<apply><diff/>" + e.A + "</apply>" : "<apply><diff/>" + e.A + e.A + "</apply>"; });
    add("diff:extra-operand", M, [](const FragEnv &e, uint64_t, Applied &) { return "<apply><diff/><bvar>" + e.A + "</bvar>" + e.A + e.B + "</apply>"; });
    add("bvar:empty", M, [](const FragEnv &e, uint64_t, Applied &) { return "<apply><diff/><bvar/>" + e.A + "</apply>"; });
    add("bvar:three-children", M, [](const FragEnv &e, uint64_t, Applied &) { return "<apply><diff/><bvar>" + e.A + "<degree>" + cnText("2") + "</degree>" + e.B + "</bvar>" + e.A + "</apply>"; });
    add("bvar:outside-diff", M, [](const FragEnv &e, uint64_t aux, Applied &) { return aux % 2 == 0 ? "<apply><plus/><bvar>" + e.A + "</bvar>" + e.B + "</apply>" : "<apply><sin/><bvar>" + e.A + "</bvar></apply>"; });
    add("bvar:not-second", M, [](const FragEnv &e, uint64_t, Applied &) { return "<apply><diff/>" + e.A + "<bvar>" + e.A + "</bvar></apply>"; });
    add("degree:outside-root", M, [](const FragEnv &e, uint64_t aux, Applied &) { return aux % 2 == 0 ? "<apply><plus/><degree>" + e.B + "</degree>" + e.A + "</apply>" : "<apply><power/><degree>" + e.B + "</degree>" + e.A + "</apply>"; });
    add("degree:only-sibling-outside-bvar", M, [](const FragEnv &e, uint64_t aux, Applied &ap) {
        // a degree is a qualifier of root (next to the operand) or a child of bvar; here it stands where the only operand should be
        static const std::vector<std::string> ops = {"sin", "minus", "plus", "abs", "not", "ln", "floor"};
        std::string op = ops[aux % ops.size()];
        ap.desc = " <" + op + "/> applied to nothing but a degree";
        return "<apply><" + op + "/><degree>" + ((aux >> 8) % 2 == 0 ? e.B : e.A) + "</degree></apply>";
    });
    add("degree:root-without-operand", M, [](const FragEnv &e, uint64_t aux, Applied &) {
        // kept apart from the family above: baseline test CoverageValidator.degreeElementWithOneSibling asserts that this validates
        return "<apply><root/><degree>" + (aux % 2 == 0 ? e.B : e.A) + "</degree></apply>";
    });
    add("degree:not-second", M, [](const FragEnv &e, uint64_t, Applied &) { return "<apply><root/>" + e.A + "<degree>" + e.B + "</degree></apply>"; });
    add("degree:empty", M, [](const FragEnv &e, uint64_t, Applied &) { return "<apply><root/><degree/>" + e.A + "</apply>"; });
    add("degree:two-children", M, [](const FragEnv &e, uint64_t, Applied &) { return "<apply><root/><degree>" + e.B + e.B + "</degree>" + e.A + "</apply>"; });
    add("logbase:outside-log", M, [](const FragEnv &e, uint64_t aux, Applied &) { return aux % 2 == 0 ? "<apply><root/><logbase>" + e.B + "</logbase>" + e.A + "</apply>" : "<apply><ln/><logbase>" + e.B + "</logbase>" + e.A + "</apply>"; });
    add("logbase:not-second", M, [](const FragEnv &e, uint64_t, Applied &) { return "<apply><log/>" + e.A + "<logbase>" + e.B + "</logbase></apply>"; });
    add("logbase:empty", M, [](const FragEnv &e, uint64_t, Applied &) { return "<apply><log/><logbase/>" + e.A + "</apply>"; });
    add("logbase:two-children", M, [](const FragEnv &e, uint64_t, Applied &) { return "<apply><log/><logbase>" + e.B + e.B + "</logbase>" + e.A + "</apply>"; });
    // -- piecewise
    add("piece:one-child", M, [](const FragEnv &e, uint64_t aux, Applied &) { return "<piecewise><piece>" + e.A + "</piece>" + (aux % 2 == 0 ? "<otherwise>" + e.B + "</otherwise>" : std::string()) + "</piecewise>"; });
    add("piece:three-children", M, [](const FragEnv &e, uint64_t, Applied &) { return "<piecewise><piece>" + e.A + "<apply><gt/>" + e.A + e.B + "</apply>" + e.B + "</piece></piecewise>"; });
    add("piece:second-piece-one-child", M, [](const FragEnv &e, uint64_t, Applied &) { return "<piecewise><piece>" + e.A + "<apply><gt/>" + e.A + e.B + "</apply></piece><piece>" + e.B + "</piece></piecewise>"; });
    add("otherwise:empty", M, [](const FragEnv &e, uint64_t, Applied &) { return "<piecewise><piece>" + e.A + "<apply><gt/>" + e.A + e.B + "</apply></piece><otherwise/></piecewise>"; });
    add("otherwise:two-children", M, [](const FragEnv &e, uint64_t, Applied &) { return "<piecewise><piece>" + e.A + "<apply><gt/>" + e.A + e.B + "</apply></piece><otherwise>" + e.A + e.B + "</otherwise></piecewise>"; });
    // -- cn
    add("cn:no-units", {R(MATH_CN_UNITS_ATTRIBUTE)}, [](const FragEnv &, uint64_t aux, Applied &ap) {
        switch (aux % 4) {
        case 0: return std::string("<cn>1</cn>");
        case 1: return std::string("<cn type=\"e-notation\">1<sep/>2</cn>");
        case 2: ap.tags.push_back("cn-units:attribute-in-no-namespace"); return std::string("<cn units=\"second\">1</cn>");
        default: ap.tags.push_back("cn-units:attribute-in-cellml-1.1-namespace"); return std::string("<cn xmlns:c11=\"http://www.cellml.org/cellml/1.1#\" c11:units=\"second\">1</cn>");
        }
    });
    add("cn:empty-units", {R(MATH_CN_UNITS_ATTRIBUTE), R(MATH_CN_UNITS_ATTRIBUTE_REFERENCE), R(DATA_REPR_IDENTIFIER_AT_LEAST_ONE_ALPHANUM)}, [](const FragEnv &, uint64_t, Applied &) { return cnText("1", ""); });
    add("cn:units-not-an-identifier", {R(MATH_CN_UNITS_ATTRIBUTE), R(MATH_CN_UNITS_ATTRIBUTE_REFERENCE), R(DATA_REPR_IDENTIFIER_BEGIN_EURO_NUM), R(DATA_REPR_IDENTIFIER_LATIN_ALPHANUM)},
        [](const FragEnv &, uint64_t aux, Applied &ap) {
            std::string u = badIdent(aux % 2 == 0 ? ID_DIGIT : ID_CHAR, aux >> 4);
            ap.desc = " units " + q(u);
            return cnText("1", u);
        });
    add("cn:units-dangling", {R(MATH_CN_UNITS_ATTRIBUTE_REFERENCE)}, [](const FragEnv &e, uint64_t aux, Applied &ap) {
        if (!e.foreignUnits.empty() && aux % 2 == 0) {
            ap.tags.push_back("dangling:defined-in-importing-model-only");
            return cnText("1", e.foreignUnits);
        }
        return cnText("1", "c04_no_such_units");
    });
    add("cn:not-a-real", {R(MATH_CN_FORMAT), R(MATH_MATHML)}, [](const FragEnv &, uint64_t aux, Applied &ap) {
        static const std::vector<std::string> bad = {"1e5", "abc", "", "1,5", "0x1F", "+1", "1 2", "--1", "1.2.3", ".", "1E-3", "- 1", "1e"};
        ap.desc = " text " + q(bad[aux % bad.size()]);
        return cnText(bad[aux % bad.size()]);
    });
    add("cn:bad-e-notation", {R(MATH_CN_FORMAT), R(MATH_MATHML)}, [](const FragEnv &, uint64_t aux, Applied &ap) {
        static const std::vector<std::string> bad = {"1<sep/>2.5", "1<sep/>", "<sep/>2", "1 2", "1<sep/>2<sep/>3", "abc<sep/>2", "1<sep/>two", "1<sep/>+-2", "1e1<sep/>2"};
        ap.desc = " content " + q(bad[aux % bad.size()]);
        return "<cn cellml:units=\"dimensionless\" type=\"e-notation\">" + bad[aux % bad.size()] + "</cn>";
    });
    add("cn:base-not-10", {R(MATH_CN_BASE10), R(MATH_CN_FORMAT)}, [](const FragEnv &, uint64_t aux, Applied &ap) {
        static const std::vector<std::string> bad = {"2", "16", "8", "1", "010", "10.0"};
        ap.desc = " base " + q(bad[aux % bad.size()]);
        return "<cn cellml:units=\"dimensionless\" base=\"" + bad[aux % bad.size()] + "\">" + ((aux >> 8) % 2 == 0 ? "1" : "101") + "</cn>";
    });
    add("cn:type-not-real-or-e-notation", {R(MATH_CN_FORMAT), R(MATH_CN_BASE10), R(MATH_MATHML)}, [](const FragEnv &, uint64_t aux, Applied &ap) {
        static const std::vector<std::pair<std::string, std::string>> bad = {{"integer", "1"}, {"rational", "1<sep/>2"}, {"complex-cartesian", "1<sep/>2"}, {"complex-polar", "1<sep/>2"}, {"constant", "1"}, {"bogus", "1"}, {"Real", "1"}, {"E-notation", "1<sep/>2"}};
        const auto &b = bad[aux % bad.size()];
        ap.desc = " type " + q(b.first);
        return "<cn cellml:units=\"dimensionless\" type=\"" + b.first + "\">" + b.second + "</cn>";
    });
    // -- ci
    add("ci:dangling", {R(MATH_CI_VARIABLE_REFERENCE)}, [](const FragEnv &, uint64_t, Applied &) { return std::string("<ci>c04_no_such_variable</ci>"); });
    add("ci:variable-of-another-component", {R(MATH_CI_VARIABLE_REFERENCE)}, [](const FragEnv &e, uint64_t, Applied &ap) {
        if (e.foreign.empty()) {
            return std::string();
        }
        ap.desc = " " + q(e.foreign);
        return "<ci>" + attrEsc(e.foreign) + "</ci>";
    });
    add("ci:empty", {R(MATH_CI_VARIABLE_REFERENCE), R(MATH_MATHML)}, [](const FragEnv &, uint64_t aux, Applied &) { return std::string(aux % 3 == 0 ? "<ci></ci>" : (aux % 3 == 1 ? "<ci/>" : "<ci>   </ci>")); });
    // -- what only the MathML DTD knows
    add("dtd:undeclared-attribute", M, [](const FragEnv &e, uint64_t aux, Applied &) {
        return aux % 2 == 0 ? "<apply c04attr=\"1\"><plus/>" + e.A + e.B + "</apply>" : "<apply><plus c04attr=\"1\"/>" + e.A + e.B + "</apply>";
    });
    add("dtd:text-in-apply", M, [](const FragEnv &e, uint64_t, Applied &) { return "<apply>stray<plus/>" + e.A + e.B + "</apply>"; });
    add("dtd:content-in-empty-element", M, [](const FragEnv &e, uint64_t aux, Applied &) { return aux % 2 == 0 ? std::string("<pi>3</pi>") : "<apply><plus>" + e.B + "</plus>" + e.A + e.B + "</apply>"; });
    add("dtd:cellml-units-on-ci", {R(MATH_MATHML), R(MATH_CN_UNITS_ATTRIBUTE)}, [](const FragEnv &e, uint64_t, Applied &) {
        if (e.v.empty()) {
            return std::string();
        }
        return "<ci cellml:units=\"second\">" + attrEsc(e.v) + "</ci>";
    });
}

// A valid expression with the fragment in a tape-chosen position: returns the MathML text, the class of the position.
std::string placeHole(const std::string &frag, const FragEnv &env, uint64_t sel, std::string *holeClass, int *depth)
{
    static const int depths[] = {0, 0, 1, 1, 1, 2, 2, 3};
    *depth = depths[sel % 8];
    sel /= 8;
    Expr e = Expr::ci("c04HOLE");
    Expr a = env.v.empty() ? Expr::cn(1, "dimensionless", "1") : Expr::ci(env.v);
    Expr b = Expr::cn(2, "dimensionless", "2");
    Expr cond = Expr::make(Op::GT, {a, b});
    std::string innermost = "none";
    for (int d = 0; d < *depth; ++d) {
        std::string cls;
        switch (sel % 14) {
        case 0: e = Expr::make(Op::PLUS, {e, b}); cls = "apply"; break;
        case 1: e = Expr::make(Op::TIMES, {a, e}); cls = "apply"; break;
        case 2: e = Expr::make(Op::MINUS, {e}); cls = "apply"; break;
        case 3: e = Expr::make(Op::SIN, {e}); cls = "apply"; break;
        case 4: e = Expr::make(Op::POWER, {a, e}); cls = "apply"; break;
        case 5: e = Expr::make(Op::AND, {cond, e}); cls = "apply"; break;
        case 6: e = Expr::make(Op::MIN, {e, a, b}); cls = "apply"; break;
        case 7: {
            Expr p;
            p.op = Op::PIECEWISE;
            p.kids = {e, cond, b};
            p.hasOtherwise = true;
            e = p;
            cls = "piece-value";
            break;
        }
        case 8: {
            Expr p;
            p.op = Op::PIECEWISE;
            p.kids = {a, e};
            p.hasOtherwise = false;
            e = p;
            cls = "piece-condition";
            break;
        }
        case 9: {
            Expr p;
            p.op = Op::PIECEWISE;
            p.kids = {a, cond, b, cond, e};
            p.hasOtherwise = true;
            e = p;
            cls = "otherwise";
            break;
        }
        case 10: {
            Expr p;
            p.op = Op::PIECEWISE;
            p.kids = {a, cond, e, cond};
            p.hasOtherwise = false;
            e = p;
            cls = "second-piece";
            break;
        }
        case 11: e = Expr::make(Op::ROOT, {e, a}); cls = "degree"; break;
        case 12: e = Expr::make(Op::LOG, {e, a}); cls = "logbase"; break;
        default: e = Expr::make(Op::ROOT, {b, e}); cls = "apply"; break;
        }
        sel /= 14;
        if (d == 0) {
            innermost = cls;
        }
    }
    *holeClass = *depth == 0 ? "direct" : innermost;
    std::string s = exprToMathml(e);
    replaceAll(s, "<ci>c04HOLE</ci>", frag);
    return s;
}

void mathSites(const Ctx &ctx, std::vector<Site> &out)
{
    eachContentComp(ctx, [&](int mi, int ci) {
        const auto &c = ctx.m(mi).comps[static_cast<size_t>(ci)];
        Site s;
        s.mi = mi;
        s.ci = ci;
        s.where = 0;
        bool t = false;
        compLoc(ctx, mi, ci, &t);
        s.trivial = t;
        s.loc = depthClass(ctx, mi, ci) + "/cmath";
        out.push_back(s);
        for (size_t k = 0; k < c.resets.size(); ++k) {
            for (int where : {1, 2}) {
                Site r;
                r.mi = mi;
                r.ci = ci;
                r.k = static_cast<int>(k);
                r.where = where;
                r.loc = depthClass(ctx, mi, ci) + (where == 1 ? "/test_value" : "/reset_value") + "-of-" + posClass(k, c.resets.size()) + "-reset";
                out.push_back(r);
            }
        }
    });
}

bool applyMathFault(const Frag &f, Ctx &ctx, const Site &s, uint64_t aux, Applied &ap)
{
    ModelSpec &m = ctx.m(s.mi);
    CompSpec &c = m.comps[static_cast<size_t>(s.ci)];
    FragEnv env;
    env.where = s.where;
    if (!c.vars.empty()) {
        env.v = c.vars[(aux >> 40) % c.vars.size()].name;
    }
    env.A = env.v.empty() ? cnText("1") : "<ci>" + attrEsc(env.v) + "</ci>";
    env.B = cnText("2");
    for (size_t o = 0; o < m.comps.size(); ++o) {
        bool near = m.comps[o].parent == s.ci || c.parent == static_cast<int>(o) || m.comps[o].parent == c.parent;
        for (const auto &ov : m.comps[o].vars) {
            if (static_cast<int>(o) != s.ci && findVar(c, ov.name) < 0 && (env.foreign.empty() || near)) {
                env.foreign = ov.name;
            }
        }
    }
    if (s.mi >= 0) {
        for (const auto &u : ctx.base.units) {
            if (u.import < 0 && findUnits(m, u.name) < 0) {
                env.foreignUnits = u.name;
            }
        }
    }
    std::string extra;
    std::swap(extra, ap.desc);
    std::string frag = f.make(env, aux, ap);
    std::swap(extra, ap.desc); // extra = what make() said about the variant
    if (frag.empty() && f.name != "apply:empty") {
        return false;
    }
    std::string holeClass = "whole";
    int depth = 0;
    std::string content = f.whole ? frag : placeHole(frag, env, aux >> 12, &holeClass, &depth);
    std::string whereText;
    if (s.where == 0) {
        std::string block;
        std::string eq = "<apply><eq/>" + env.A + content + "</apply>";
        unsigned placement = static_cast<unsigned>((aux >> 36) % 4);
        if (f.whole || c.math.empty()) {
            placement %= 2;
        }
        switch (placement) {
        case 0:
            c.math.insert(c.math.begin(), f.whole ? content : mathBlockRaw(eq, 0));
            ap.tags.push_back(c.math.size() == 1 ? "block:only" : "block:new-first");
            break;
        case 1:
            c.math.push_back(f.whole ? content : mathBlockRaw(eq, 1));
            ap.tags.push_back(c.math.size() == 1 ? "block:only" : "block:new-last");
            break;
        case 2: {
            std::string &blk = c.math.front();
            size_t p = blk.find('>', blk.find("<math"));
            blk.insert(p + 1, eq);
            ap.tags.push_back("block:first-equation-of-existing-block");
            break;
        }
        default: {
            std::string &blk = c.math.back();
            size_t p = blk.rfind("</math>");
            blk.insert(p, eq);
            ap.tags.push_back("block:last-equation-of-existing-block");
            break;
        }
        }
        whereText = "math of component " + q(c.name);
    } else {
        auto &r = c.resets[static_cast<size_t>(s.k)];
        (s.where == 1 ? r.testValue : r.resetValue) = f.whole ? content : mathBlockRaw(content, static_cast<int>((aux >> 36) % 3));
        whereText = std::string(s.where == 1 ? "test_value" : "reset_value") + " of reset " + std::to_string(s.k) + " of component " + q(c.name);
    }
    ap.accept = f.accept;
    ap.desc = "MathML fault '" + f.name + "'" + extra + " in the " + whereText + (s.mi >= 0 ? " (library)" : "") + ", position " + holeClass + " at depth " + std::to_string(depth) + ": " + frag;
    ap.tags.push_back("math@" + s.loc.substr(0, s.loc.find('/')) + "/" + (s.where == 0 ? "cmath" : (s.where == 1 ? "test_value" : "reset_value")) + "/" + holeClass);
    ap.tags.push_back("hole-depth=" + std::to_string(depth));
    ap.loc = s.loc + (f.whole ? "" : "/" + holeClass);
    ap.nontrivial = depth > 0 || s.where != 0;
    return true;
}

void registerMathFamilies()
{
    registerFrags();
    for (const auto &f : frags()) {
        Frag copy = f;
        FAMILY("math." + f.name, mathSites, [copy](Ctx &ctx, const Site &s, uint64_t aux, Applied &ap) { return applyMathFault(copy, ctx, s, aux, ap); }, true);
    }
}

void registerAll()
{
    if (!catalogue().empty()) {
        return;
    }
    registerIdentFamilies();
    registerNameUniquenessFamilies();
    registerIdFamilies();
    registerResetFamilies();
    registerReferenceFamilies();
    registerConnectionFamilies();
    registerCycleFamilies();
    registerMathFamilies();
}

// ------------------------------------------------------------------------------------------------ document route

// The same valid model as a document with the namespace declarations placed in one of the legal ways a hand-written or
// tool-written file uses, parsed by the strict parser. 0: every math element declares what it uses (what the kit writes);
// 1: the cellml prefix is declared once, on <model>; 2: MathML elements carry a prefix declared on each math element;
// 3: that prefix is declared on <model>.
std::string documentVariant(const std::string &doc, int variant)
{
    if (variant == 0) {
        return doc;
    }
    const std::string cellmlDecl = std::string(" xmlns:cellml=\"") + CELLML_NS + "\"";
    const std::string mathmlDecl = std::string(" xmlns=\"") + MATHML_NS + "\"";
    std::string out;
    size_t pos = 0;
    bool moved = false;
    while (true) {
        size_t a = doc.find("<math", pos);
        if (a == std::string::npos) {
            out += doc.substr(pos);
            break;
        }
        size_t b = doc.find("</math>", a);
        if (b == std::string::npos) {
            out += doc.substr(pos);
            break;
        }
        b += 7;
        out += doc.substr(pos, a - pos);
        std::string math = doc.substr(a, b - a);
        if (variant == 1 || variant == 3) {
            size_t d = math.find(cellmlDecl);
            if (d != std::string::npos) {
                math.erase(d, cellmlDecl.size());
                moved = true;
            }
        }
        if (variant >= 2) {
            // qualify every element of the math element with the prefix m
            std::string q;
            for (size_t i = 0; i < math.size(); ++i) {
                q += math[i];
                if (math[i] == '<' && i + 1 < math.size() && math[i + 1] != '!' && math[i + 1] != '?') {
                    if (math[i + 1] == '/') {
                        q += '/';
                        ++i;
                    }
                    q += "m:";
                }
            }
            math = q;
            size_t d = math.find(mathmlDecl);
            if (d != std::string::npos) {
                math.replace(d, mathmlDecl.size(), variant == 2 ? std::string(" xmlns:m=\"") + MATHML_NS + "\"" : std::string());
            }
        }
        out += math;
        pos = b;
    }
    if ((variant == 1 && moved) || variant == 3) {
        size_t m = out.find("<model");
        if (m != std::string::npos) {
            std::string decl = moved ? cellmlDecl : std::string();
            if (variant == 3) {
                decl += std::string(" xmlns:m=\"") + MATHML_NS + "\"";
            }
            out.insert(m + 6, decl);
        }
    }
    return out;
}

// ------------------------------------------------------------------------------------------------ the predicate

std::map<std::string, long> gFamilyRuns, gFamilyMisses;

std::string acceptText(const RuleSet &s)
{
    std::string t;
    for (Rule r : s) {
        t += (t.empty() ? "" : ", ") + ruleName(r);
    }
    return t;
}

uint64_t mix64(uint64_t x)
{
    x ^= x >> 33;
    x *= 0xff51afd7ed558ccdULL;
    x ^= x >> 33;
    x *= 0xc4ceb9fe1a85ec53ULL;
    x ^= x >> 33;
    return x;
}

void run(Src &src, Case &c)
{
    xmlKeepBlanksDefault(1); // hidden-state reset (DESIGN 2.7)
    registerAll();
    const auto &cat = catalogue();

    // ---- plan (start of the tape): few reads, so that short tapes leave something for the model generator; everything
    // chosen later (which faults, where, library content) is derived from these values by hashing
    const uint64_t flags = src.below(1ULL << 32);
    auto flag = [&](uint64_t k, unsigned pct) { return flags != 0 && mix64(flags * 31 + k) % 100 < pct; };
    const unsigned p = static_cast<unsigned>(flags % 100);
    const int profile = p < 45 ? 0 : (p < 88 ? 1 : 2); // 0: structure only (no MathML: cheap), 1: small models with math and resets, 2: everything
    const bool wantResolved = flag(1, 50);
    const bool sweep = flag(2, 15); // one family at every applicable location instead of several families
    const bool keepSharedImportId = flag(3, 12);
    const bool oddHref = flag(4, 6);
    const bool addImports = flag(5, 40);
    const bool addResets = flag(6, 60);
    const bool documentRoute = flag(7, 25);
    // One math element with tens of thousands of children (valid, unusual in size): 2 cases in 1000, a validation of it takes
    // half a minute on an idle core (the plan gives the cases a long time limit). The sanitised build only gets a tenth of the size: its workers run with a 1 GiB stack (depth is not the
    // question there) and would spend minutes on it.
    const bool longMath = flags != 0 && mix64(flags * 31 + 8) % 1000 < 2 && profile >= 1;
#if defined(__SANITIZE_ADDRESS__)
    const int longMathScale = 10;
#elif defined(__has_feature)
#    if __has_feature(address_sanitizer)
    const int longMathScale = 10;
#    else
    const int longMathScale = 1;
#    endif
#else
    const int longMathScale = 1;
#endif
    const uint64_t fseed = src.below(1ULL << 32) + (src.below(1ULL << 32) << 32);
    const size_t maxFaults = 12;
    std::vector<uint64_t> pre;
    for (size_t i = 0; i < 4 * maxFaults; ++i) {
        pre.push_back(fseed == 0 ? 0 : mix64(fseed + 0x9E3779B97F4A7C15ULL * i) >> 16);
    }
    const size_t nFaults = profile == 0 ? 10 : (profile == 1 ? 4 : 3);
    PoolSrc late(src, 2);

    GenOpts opt;
    if (profile == 0) {
        opt.math = false;
        opt.resets = false;
    } else if (profile == 1) {
        opt.maxComps = 3;
        opt.maxVars = 3;
        opt.maxUnits = 2;
    }
    Ctx ctx;
    ctx.base = genValidModel(src, opt);
    if (long dropped = dropUnsoundMappings(ctx.base)) {
        c.count("generator-unsound:mapping-between-different-dimensions-removed", dropped);
        c.cls("base:repaired-generator-unsound-mapping");
    }
    if (oddHref && !ctx.base.imports.empty()) {
        // legal by XLink 5.4 (characters outside the URI repertoire are escaped by the processor), unusual
        static const std::vector<std::string> odd = {"caf\xC3\xA9/lib.cellml", "my models/lib 1.cellml"};
        ctx.base.imports[0].url = late.pick(odd);
        c.cls("base:href-needing-xlink-escaping");
    }
    if (sharedImportSourceWithId(ctx.base)) {
        if (keepSharedImportId) {
            c.cls("base:shared-import-source-with-id");
        } else {
            for (size_t ii = 0; ii < ctx.base.imports.size(); ++ii) {
                if (importUsers(ctx.base, static_cast<int>(ii)) >= 2) {
                    ctx.base.imports[ii].id = "";
                }
            }
            c.count("excluded:C04.false-positive|XML_ID_ATTRIBUTE:Duplicated-identifier-attribute-''-has-been-found-in:*import-source*");
        }
    }
    // Features the kit generator produces rarely are added here, valid by construction, so that the families that need them are reached.
    if (ctx.base.imports.empty() && addImports) {
        bool mapImported = wantResolved && flag(9, 30);
        addImportedEntities(ctx.base, late, mapImported);
        if (mapImported) {
            c.cls("base:variable-in-imported-units-mapped-to-compatible-local-units");
        }
        c.cls("base:imports-added-by-harness");
    }
    if (profile >= 1 && addResets) {
        if (addMoreResets(ctx.base, late)) {
            c.cls("base:resets-added-by-harness");
        }
    }
    ctx.resolved = wantResolved && !ctx.base.imports.empty();
    if (ctx.resolved) {
        makeLibs(ctx, late, profile >= 1, profile >= 1);
    }
    for (const auto &e : ctx.counts) {
        c.count(e.first, e.second);
    }
    if (ctx.counts.count("lib:helper-units-named-like-the-importing-units") != 0) {
        c.cls("base:library-units-named-like-the-importing-units");
    }

    // ---- oracle 1: the base model is valid
    std::string longMathNote;
    std::string baseTextBeforeLongMath;
    if (longMath) {
        for (auto &comp : ctx.base.comps) {
            if (comp.import >= 0) {
                continue;
            }
            if (comp.vars.empty()) {
                VarSpec v;
                v.name = "c04_x";
                v.units = "dimensionless";
                comp.vars.push_back(v);
            }
            baseTextBeforeLongMath = ctxText(ctx);
            const std::string x = "<ci>" + attrEsc(comp.vars[0].name) + "</ci>";
            const std::string one = cnText("1", "dimensionless");
            std::string content;
            bool wide = mix64(flags * 17 + 3) % 2 == 0;
            if (wide) {
                // one plus with 24 000 operands
                content = "<apply><eq/>" + x + "<apply><plus/>";
                for (int i = 0; i < 24000 / longMathScale; ++i) {
                    content += one;
                }
                content += "</apply></apply>";
                longMathNote = "component " + q(comp.name) + " additionally has a math element with one equation whose right-hand side is a plus with " + std::to_string(24000 / longMathScale) + " operands";
            } else {
                for (int i = 0; i < 20000 / longMathScale; ++i) {
                    content += "<apply><eq/>" + x + one + "</apply>\n";
                }
                longMathNote = "component " + q(comp.name) + " additionally has a math element with " + std::to_string(20000 / longMathScale) + " equations " + comp.vars[0].name + " = 1";
            }
            comp.math.push_back(mathBlockRaw(content, 0));
            c.cls(wide ? "base:math-element-with-40000-operands" : "base:math-element-with-20000-equations");
            break;
        }
    }
    std::string baseText = longMathNote.empty() ? ctxText(ctx) : baseTextBeforeLongMath + "\n(" + longMathNote + ")\n";
    c.text = "profile " + std::to_string(profile) + (ctx.resolved ? ", imports resolved against in-memory library models" : "") + "\n" + baseText;
    c.weight = baseText.size();
    c.cls("profile=" + std::to_string(profile));
    c.cls(ctx.base.imports.empty() ? "imports:none" : (ctx.resolved ? "imports:resolved" : "imports:unresolved"));
    {
        BuiltAll b = buildAll(ctx, true);
        VP_CHECK(c, b.importerClean, "C04.setup|import-resolution-of-base-model", b.importerText + "\n" + baseText);
        Verdict v = validate(b.base.model);
        c.count("validations");
        VP_CHECK(c, v.monitor.empty(), "C15.monitor|Validator|" + v.monitor.substr(0, v.monitor.find('|')), v.monitor);
        if (v.issues != 0) {
            // first ERROR (or first issue) localises the finding
            std::string cls = v.errors.empty() ? "non-error-issue" : issueClass(v.errors[0].first, v.errors[0].second);
            if (!v.errors.empty() && unitsMismatchIsRoundingResidue(v.errors[0].second)) {
                cls = "MAP_VARIABLES_ELEMENT:units-mismatch-that-is-a-rounding-residue";
            }
            if (!v.errors.empty() && v.errors[0].first == R(MAP_VARIABLES_ELEMENT) && v.errors[0].second.find("non-matching units") != std::string::npos) {
                // do the named units include an imported one?
                for (const auto &u : ctx.base.units) {
                    if (u.import >= 0 && v.errors[0].second.find("units of '" + u.name + "'") != std::string::npos) {
                        cls = "MAP_VARIABLES_ELEMENT:units-mismatch-involving-imported-units";
                    }
                }
            }
            c.hash = hashStr(c.text);
            c.fail("C04.false-positive|" + cls, "a valid model is reported with " + std::to_string(v.issues) + " issue(s):\n" + v.text + baseText);
            return;
        }
    }

    // ---- oracle 1 again, for the same model read from a document (namespace declarations placed in other legal ways)
    if (documentRoute && !ctx.resolved && longMathNote.empty()) {
        bool hasMath = false;
        for (const auto &comp : ctx.base.comps) {
            hasMath = hasMath || !comp.math.empty() || !comp.resets.empty();
        }
        int variant = hasMath ? static_cast<int>(mix64(flags * 7 + 11) % 4) : 0;
        static const char *variantName[] = {"declarations-on-every-math-element", "cellml-prefix-declared-on-model", "prefixed-mathml-declared-on-math", "prefixed-mathml-declared-on-model"};
        XmlOptions xo;
        xo.layout = static_cast<uint32_t>(mix64(flags * 13 + 5) % 5);
        std::string doc = documentVariant(writeXml(ctx.base, xo), variant);
        auto parser = Parser::create(true);
        ModelPtr parsed = parser->parseModel(doc);
        c.cls(std::string("document:") + variantName[variant]);
        if (parser->issueCount() != 0 || parsed == nullptr) {
            // not this property's subject (C01 / C02 judge the parser); without a clean parse there is nothing to validate
            c.count(std::string("document:parser-reports-issues:") + variantName[variant]);
        } else {
            Verdict v = validate(parsed);
            c.count("validations");
            if (!v.monitor.empty()) {
                c.alsoFailed.emplace_back("C15.monitor|Validator|" + v.monitor.substr(0, v.monitor.find('|')), v.monitor);
            }
            if (v.issues != 0) {
                // which math the issues sit in: the text of the issues names reset ... / component math only loosely, so the
                // localisation is by what the model has
                bool anyReset = false;
                for (const auto &comp : ctx.base.comps) {
                    anyReset = anyReset || !comp.resets.empty();
                }
                std::string where = variant >= 2 ? "any-math" : (anyReset ? "model-with-reset-math" : "component-math-only");
                std::string cls = v.errors.empty() ? "non-error-issue" : issueClass(v.errors[0].first, v.errors[0].second);
                c.alsoFailed.emplace_back(std::string("C04.false-positive-on-parsed-document|") + variantName[variant] + "|" + where + "|" + cls.substr(0, cls.find(':')),
                                          "a valid document (strict parser: no issue) is reported with " + std::to_string(v.issues) + " issue(s):\n" + v.text + doc.substr(0, 6000));
            }
        }
    }

    // ---- oracle 2: faults
    struct Chosen
    {
        size_t fam;
        Site site;
        uint64_t aux;
    };
    std::vector<Chosen> chosen;
    // Profile 0 has no MathML (cheap): families that need math or resets are left to the other profiles, which in turn
    // prefer them (the structure families get their volume from profile 0).
    bool mathOnly = false;
    auto familyAllowed = [&](const Family &f) { return profile == 0 ? !f.math : (!mathOnly || f.math); };
    auto pickFamily = [&](uint64_t sel, std::vector<Site> &sites) -> int {
        size_t n = cat.size();
        mathOnly = profile != 0 && (sel >> 24) % 100 < 65;
        size_t start = sel % n;
        size_t stride = 1 + 2 * ((sel / n) % 50); // walk the catalogue from a random start with a random odd stride
        for (size_t j = 0; j < n; ++j) {
            size_t fi = (start + j * stride) % n;
            if (!familyAllowed(cat[fi])) {
                continue;
            }
            sites.clear();
            cat[fi].sites(ctx, sites);
            if (!sites.empty()) {
                return static_cast<int>(fi);
            }
        }
        return -1;
    };
    if (!longMathNote.empty()) {
        c.cls("mode=base-model-only");
    } else if (sweep) {
        std::vector<Site> sites;
        int fi = pickFamily(pre[0], sites);
        if (fi >= 0) {
            size_t cap = profile == 0 ? 40 : 10;
            size_t n = std::min(cap, sites.size());
            size_t start = pre[1] % sites.size();
            for (size_t i = 0; i < n; ++i) {
                // evenly spread over the site list when it is longer than the cap
                size_t si = (start + i * std::max<size_t>(1, sites.size() / n)) % sites.size();
                chosen.push_back({static_cast<size_t>(fi), sites[si], mix64((pre[2] ^ (pre[3] << 16)) + i)});
            }
            c.cls("mode=sweep");
            if (n == sites.size()) {
                c.cls("sweep:all-locations-of-the-family");
            }
        }
    } else {
        for (size_t i = 0; i < nFaults; ++i) {
            std::vector<Site> sites;
            int fi = pickFamily(pre[4 * i], sites);
            if (fi < 0) {
                continue;
            }
            chosen.push_back({static_cast<size_t>(fi), sites[pre[4 * i + 1] % sites.size()], pre[4 * i + 2] ^ (pre[4 * i + 3] << 16)});
        }
        c.cls("mode=sample");
    }

    bool anyNontrivial = false;
    std::string faultsText;
    for (const auto &ch : chosen) {
        const Family &fam = cat[ch.fam];
        Ctx fc = ctx;
        Applied ap;
        bool applied = fam.apply(fc, ch.site, ch.aux, ap);
        for (const auto &e : fc.counts) {
            long before = ctx.counts.count(e.first) != 0 ? ctx.counts[e.first] : 0;
            if (e.second > before) {
                c.count(e.first, e.second - before);
            }
        }
        if (!applied) {
            c.count("fault-not-applicable-at-site");
            continue;
        }
        std::string loc = ap.loc.empty() ? ch.site.loc : ap.loc;
        BuiltAll fb = buildAll(fc, false);
        if (ap.post) {
            ap.post(fb);
        }
        if (!fb.importerClean) {
            // expected for faults on import references and inside library models: the importer has its own checks; what
            // counts here is what the validator says about the model as the importer left it
            c.count("importer-reported-issues-on-faulted-model");
        }
        c.cls("fault:" + fam.name);
        if (ap.isolate) {
            ModelPtr model = fb.base.model;
            std::string diag;
            int rc = runIsolated([](void *arg) { Validator::create()->validateModel(*static_cast<ModelPtr *>(arg)); }, &model, 120, &diag);
            if (rc != 0) {
                c.count("faults");
                gFamilyRuns[fam.name] += 1;
                gFamilyMisses[fam.name] += 1;
                faultsText += "fault " + fam.name + " @ " + loc + ": " + ap.desc + "\n";
                c.alsoFailed.emplace_back("C04.crash|Validator::validateModel|" + fam.name, "the validator process died (status " + std::to_string(rc) + ") on: " + ap.desc + "\n" + diag.substr(0, 3000) + "\n--- faulted model (before the API-level part of the fault) ---\n" + ctxText(fc).substr(0, 4000));
                continue;
            }
        }
        Verdict v = validate(fb.base.model);
        c.count("validations");
        c.count("faults");
        gFamilyRuns[fam.name] += 1;
        c.cls("fault:" + fam.name);
        c.cls("fault:" + fam.name + "@" + loc);
        c.cls("at:" + loc.substr(0, loc.find('/')));
        for (const auto &t : ap.tags) {
            c.cls(t);
        }
        if (ch.site.mi >= 0) {
            c.cls("fault-in-library-model");
        }
        anyNontrivial = anyNontrivial || !ch.site.trivial || ap.nontrivial;
        faultsText += "fault " + fam.name + " @ " + loc + ": " + ap.desc + "\n";
        if (!v.monitor.empty()) {
            c.alsoFailed.emplace_back("C15.monitor|Validator|" + v.monitor.substr(0, v.monitor.find('|')), v.monitor + "\nafter: " + ap.desc);
        }
        bool hit = false;
        for (const auto &e : v.errors) {
            hit = hit || ap.accept.count(e.first) != 0;
        }
        if (!hit) {
            gFamilyMisses[fam.name] += 1;
            std::string msg = "fault: " + ap.desc + "\nexpected an ERROR citing one of {" + acceptText(ap.accept) + "}; the validator reported " + std::to_string(v.issues) + " issue(s):\n" + v.text + "--- faulted model ---\n"
                              + ctxText(fc).substr(0, 6000);
            c.alsoFailed.emplace_back("C04.missed|" + fam.name + "@" + loc, msg);
        }
    }
    c.text += "\n" + faultsText;
    c.hash = hashStr(c.text);
    c.nontrivial = ctx.base.comps.size() >= 2 && anyNontrivial;
}

void init()
{
    // C04_LIST_FAMILIES=1 .build/asan/h/C04 > bin/plans.d/C04.families : the catalogue, one family per line (class floors of the plan)
    if (getenv("C04_LIST_FAMILIES") != nullptr) {
        registerAll();
        for (const auto &f : catalogue()) {
            std::cout << f.name << "\n";
        }
        std::cout.flush();
        _exit(0);
    }
}

void extraEvidence(std::ostream &o)
{
    registerAll();
    o << ",\"x_family_validations\":{";
    bool first = true;
    for (const auto &f : catalogue()) {
        o << (first ? "" : ",") << "\"" << jsonEscape(f.name) << "\":" << gFamilyRuns[f.name];
        first = false;
    }
    o << "},\"x_family_misses\":{";
    first = true;
    for (const auto &e : gFamilyMisses) {
        o << (first ? "" : ",") << "\"" << jsonEscape(e.first) << "\":" << e.second;
        first = false;
    }
    o << "}";
}

} // namespace

namespace vp {
Property property = {
    "C04",
    "fault_enumeration",
    "rapidcheck tapes drive the valid-by-construction model generator (three profiles: structure only / small models with math and resets / everything; for half of the models with imports the imports are "
    "resolved against generated in-memory library models through Importer::addModel + resolveImports). Oracle 1: the base model validates with zero issues. Oracle 2: each case then applies several "
    "(fault family, location) pairs of a catalogue of single-rule violations (or, in sweep mode, one family at every applicable location), rebuilds the model through the API and demands an ERROR whose "
    "referenceRule() is in the family's acceptable set, written from the rule catalogue. Non-trivial: the model has >= 2 components and at least one fault sits somewhere else than in the first item of "
    "the first top-level component / first units (encapsulated or later component, later item, reset or nested MathML position, library model). Distinct = hash of model text and fault descriptions.",
    run,
    nullptr,
    {"acceptable rule sets are written from the CellML 2.0 clause a fault breaks plus the neighbouring clauses of the same requirement (see notes/C04.md)",
     "rules the validator does not implement (exponent / multiplier text, encapsulation and connection structure that the object model cannot express) are not enumerated",
     "x_family_validations counts include re-runs made while shrinking a failure"},
    init,
    extraEvidence,
};
}

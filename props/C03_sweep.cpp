// C03 (skeleton sweep) — bounded-exhaustive enumeration of (parent operator, operand position, child operator) pairs:
// the space the generator's hand-written precedence / parenthesisation rules quantify over. One case = one parent
// operator form; its model holds one equation per (position, child form) with value-safe leaves. Every failing pair is
// reported with the localisation "paren:<parent>/<position>/<child>".
#include <libcellml>

#include <libxml/parser.h>

#include <cmath>

#include "gt.h"
#include "gtrun.h"
#include "prop.h"
#include "runner.h"
#include "spec.h"

using namespace vp;
using namespace libcellml;

namespace {

CodeRunner *gRunner = nullptr;

struct Form
{
    Op op;
    int arity; // number of operands; PIECEWISE: 3 = (value, condition, otherwise)
    const char *tag;
};

std::vector<Form> allForms()
{
    std::vector<Form> f;
    for (Op o : {Op::EQ, Op::NEQ, Op::LT, Op::LEQ, Op::GT, Op::GEQ, Op::DIVIDE, Op::POWER, Op::REM}) {
        f.push_back({o, 2, ""});
    }
    for (Op o : {Op::AND, Op::OR, Op::XOR, Op::PLUS, Op::TIMES, Op::MIN, Op::MAX}) {
        f.push_back({o, 2, "2"});
        f.push_back({o, 3, "3"});
    }
    f.push_back({Op::PLUS, 1, "1"});
    f.push_back({Op::MINUS, 1, "1"});
    f.push_back({Op::MINUS, 2, "2"});
    f.push_back({Op::ROOT, 1, "1"});
    f.push_back({Op::ROOT, 2, "q"});
    f.push_back({Op::LOG, 1, "1"});
    f.push_back({Op::LOG, 2, "q"});
    for (Op o : {Op::NOT, Op::ABS, Op::EXP, Op::LN, Op::CEILING, Op::FLOOR, Op::SIN, Op::COS, Op::TAN, Op::SEC, Op::CSC, Op::COT, Op::SINH, Op::COSH, Op::TANH, Op::SECH, Op::CSCH, Op::COTH, Op::ASIN, Op::ACOS, Op::ATAN,
                 Op::ASEC, Op::ACSC, Op::ACOT, Op::ASINH, Op::ACOSH, Op::ATANH, Op::ASECH, Op::ACSCH, Op::ACOTH}) {
        f.push_back({o, 1, ""});
    }
    f.push_back({Op::PIECEWISE, 3, ""});
    return f;
}

std::string formName(const Form &f)
{
    return std::string(opName(f.op)) + f.tag;
}

// leaves: constants of the model with distinct generic values, and literals
const std::vector<std::pair<std::string, double>> &leafVars()
{
    static const std::vector<std::pair<std::string, double>> v = {{"a", 1.5}, {"b", 0.5}, {"c", 2.0}, {"d", -0.4}, {"e", 3.0}, {"f", 0.3}, {"g", -1.25}, {"h", 0.8}};
    return v;
}

Expr build(const Form &f, const std::vector<Expr> &operands)
{
    Expr e;
    e.op = f.op;
    e.kids = operands;
    if (f.op == Op::PIECEWISE) {
        e.hasOtherwise = true;
    }
    return e;
}

double valueOf(const Expr &e, double *margin)
{
    EvalEnv env;
    env.var = [](const std::string &n) {
        for (const auto &p : leafVars()) {
            if (p.first == n) {
                return p.second;
            }
        }
        return std::nan("");
    };
    env.diff = [](const std::string &, const std::string &) { return std::nan(""); };
    return evalExpr(e, env, margin);
}

// Finds leaves making parent(..., child(...), ...) value-safe; rotates through the leaf pool deterministically.
bool instantiate(const Form &parent, int pos, const Form *child, Expr &out)
{
    const auto &lv = leafVars();
    size_t nLeavesParent = static_cast<size_t>(parent.arity);
    size_t nLeavesChild = child != nullptr ? static_cast<size_t>(child->arity) : 0;
    for (size_t attempt = 0; attempt < 400; ++attempt) {
        size_t seed = attempt * 7 + 1;
        std::vector<Expr> ops;
        for (size_t i = 0; i < nLeavesParent; ++i) {
            if (static_cast<int>(i) == pos && child != nullptr) {
                std::vector<Expr> cops;
                for (size_t k = 0; k < nLeavesChild; ++k) {
                    size_t idx = (seed / (1 + k * 3) + k * 5 + attempt) % lv.size();
                    Expr leaf = Expr::ci(lv[idx].first);
                    if (child->op == Op::PIECEWISE && k == 1) {
                        leaf = Expr::make(((attempt >> 1) & 1) != 0 ? Op::LT : Op::GT, {Expr::ci(lv[idx].first), Expr::ci(lv[(idx + 1 + attempt) % lv.size()].first)});
                    }
                    cops.push_back(leaf);
                }
                ops.push_back(build(*child, cops));
            } else {
                size_t idx = (seed + i * 3 + attempt / 8) % lv.size();
                Expr leaf = Expr::ci(lv[idx].first);
                if (parent.op == Op::PIECEWISE && i == 1) {
                    leaf = Expr::make((attempt & 1) != 0 ? Op::LT : Op::GT, {Expr::ci(lv[idx].first), Expr::ci(lv[(idx + 2 + attempt) % lv.size()].first)});
                }
                ops.push_back(leaf);
            }
        }
        Expr e = build(parent, ops);
        double m = 0;
        double v = valueOf(e, &m);
        if (std::isfinite(v) && m >= 5e-3 && std::fabs(v) < 1e4) {
            out = e;
            return true;
        }
    }
    return false;
}

long gBound = 0;

void run(Src &src, Case &c)
{
    xmlKeepBlanksDefault(1);
    if (gRunner == nullptr) {
        gRunner = new CodeRunner();
    }
    static const std::vector<Form> forms = allForms();
    size_t pi = static_cast<size_t>(src.below(forms.size()));
    // second choice: plain pairs, or triples with a fixed middle operator (unary minus / not / divide) — the nestings named in the property
    size_t variant = static_cast<size_t>(src.below(4));
    // fifth variant (a unary plus in between, which generates no code of its own), decided by a further choice made only for
    // variant 0 so that earlier tapes decode as before
    if (variant == 0 && src.below(2) == 1) {
        variant = 4;
    }
    if (gBound >= 10000) {
        // sharded enumeration (bin/plans.d/C03.py): --bound = 100 * shard + 10000 * shards; a shard only runs its own cases
        const long shards = gBound / 10000, shard = (gBound % 10000) / 100;
        if (static_cast<long>((pi * 5 + variant) % static_cast<size_t>(shards)) != shard) {
            c.cls("other-shard");
            return;
        }
    }
    const Form &parent = forms[pi];
    ModelSpec spec;
    spec.name = "sweep";
    CompSpec comp;
    comp.name = "main";
    for (const auto &lv : leafVars()) {
        VarSpec v;
        v.name = lv.first;
        v.units = "dimensionless";
        v.initial = numText(lv.second);
        comp.vars.push_back(v);
    }
    struct Eq
    {
        std::string var, loc;
        Expr rhs;
        double want;
    };
    std::vector<Eq> eqs;
    std::vector<std::pair<Expr, Expr>> math;
    long skipped = 0;
    static const Form middleForms[] = {{Op::MINUS, 1, "1"}, {Op::NOT, 1, ""}, {Op::DIVIDE, 2, ""}, {Op::PLUS, 1, "1"}};
    for (int pos = 0; pos < parent.arity; ++pos) {
        for (const auto &child : forms) {
            Expr e;
            std::string loc;
            if (variant == 0) {
                if (!instantiate(parent, pos, &child, e)) {
                    ++skipped;
                    continue;
                }
                loc = "paren:" + formName(parent) + "/" + std::to_string(pos) + "/" + formName(child);
            } else {
                // parent( ..., middle(child(...)) , ...): build child first, wrap, then search leaves by brute force on the parent's other operands
                const Form &mid = middleForms[variant - 1];
                Expr inner;
                bool ok = false;
                for (int mpos = 0; mpos < mid.arity && !ok; ++mpos) {
                    Form fakeParent = mid;
                    if (instantiate(fakeParent, mpos, &child, inner)) {
                        // now place inner as operand pos of parent with leaf siblings
                        for (size_t attempt = 0; attempt < 200 && !ok; ++attempt) {
                            std::vector<Expr> ops;
                            for (int i = 0; i < parent.arity; ++i) {
                                if (i == pos) {
                                    ops.push_back(inner);
                                } else {
                                    size_t idx = (attempt * 5 + static_cast<size_t>(i) * 3 + 1) % leafVars().size();
                                    Expr leaf = Expr::ci(leafVars()[idx].first);
                                    if (parent.op == Op::PIECEWISE && i == 1) {
                                        leaf = Expr::make((attempt & 1) != 0 ? Op::LT : Op::GT, {leaf, Expr::ci(leafVars()[(idx + 3) % leafVars().size()].first)});
                                    }
                                    ops.push_back(leaf);
                                }
                            }
                            Expr cand = build(parent, ops);
                            double m = 0;
                            double v = valueOf(cand, &m);
                            if (std::isfinite(v) && m >= 5e-3 && std::fabs(v) < 1e4) {
                                e = cand;
                                ok = true;
                                loc = "paren:" + formName(parent) + "/" + std::to_string(pos) + "/" + formName(mid) + "(" + formName(child) + "@" + std::to_string(mpos) + ")";
                            }
                        }
                    }
                }
                if (!ok) {
                    ++skipped;
                    continue;
                }
            }
            Eq q;
            q.var = "y" + std::to_string(eqs.size());
            q.loc = loc;
            q.rhs = e;
            q.want = valueOf(e, nullptr);
            VarSpec v;
            v.name = q.var;
            v.units = "dimensionless";
            comp.vars.push_back(v);
            math.emplace_back(Expr::ci(q.var), e);
            eqs.push_back(q);
        }
    }
    comp.math.push_back(mathBlock(math, 0));
    spec.comps.push_back(comp);
    c.text = "parent form " + formName(parent) + " variant " + std::to_string(variant) + ": " + std::to_string(eqs.size()) + " equations, e.g. " + (eqs.empty() ? std::string("-") : eqs[eqs.size() / 2].loc + "  " + exprToSexp(eqs[eqs.size() / 2].rhs));
    c.hash = hashStr(formName(parent) + std::to_string(variant));
    c.nontrivial = eqs.size() >= 10;
    c.weight = eqs.size();
    c.cls("variant=" + std::to_string(variant));
    c.count("pairs", static_cast<long>(eqs.size()));
    c.count("pairs-skipped-no-safe-leaves", skipped);
    if (eqs.empty()) {
        return;
    }
    Built b = buildApi(spec);
    auto analyser = Analyser::create();
    analyser->analyseModel(b.model);
    auto am = analyser->model();
    if (am == nullptr || !am->isValid()) {
        c.fail("C03.sweep-not-valid|" + formName(parent), "sweep model for parent " + formName(parent) + " is not analysed as valid: " + dumpIssues(analyser).substr(0, 1500));
        return;
    }
    // index of each y variable
    std::map<std::string, size_t> index;
    for (size_t i = 0; i < am->variableCount(); ++i) {
        index[am->variable(i)->variable()->name()] = i;
    }
    RunPlan plan;
    RunResult rc, rp;
    auto genC = Generator::create();
    genC->setModel(am);
    std::string implC = genC->implementationCode();
    if (!gRunner->runC(genC->interfaceCode(), implC, plan, rc)) {
        c.fail("C03.run|C|sweep", rc.error.substr(0, 3000));
        return;
    }
    auto genP = Generator::create();
    genP->setProfile(GeneratorProfile::create(GeneratorProfile::Profile::PYTHON));
    genP->setModel(am);
    std::string implP = genP->implementationCode();
    if (!gRunner->runPython(implP, plan, rp)) {
        c.fail("C03.run|Python|sweep", rp.error.substr(0, 3000));
        return;
    }
    c.count("programs", 2);
    auto lineFor = [](const std::string &impl, size_t idx) {
        std::string needle = "variables[" + std::to_string(idx) + "] = ";
        size_t p = impl.find(needle);
        if (p == std::string::npos) {
            return std::string("?");
        }
        size_t e = impl.find('\n', p);
        return impl.substr(p, e - p);
    };
    long comparisons = 0;
    for (const auto &q : eqs) {
        auto it = index.find(q.var);
        if (it == index.end()) {
            c.alsoFailed.emplace_back("C03.sweep-missing-variable", q.var + " missing from the analyser model");
            continue;
        }
        size_t i = it->second;
        double gc = i < rc.vars[0].size() ? rc.vars[0][i] : std::nan("");
        double gp = i < rp.vars[0].size() ? rp.vars[0][i] : std::nan("");
        comparisons += 2;
        if (!closeEnough(gc, q.want, 1e-7)) {
            c.alsoFailed.emplace_back("C03.value|C|" + q.loc, exprToSexp(q.rhs) + " should be " + std::to_string(q.want) + " but the C code gives " + std::to_string(gc) + " :: " + lineFor(implC, i));
        }
        if (!closeEnough(gp, q.want, 1e-7)) {
            c.alsoFailed.emplace_back("C03.value|Python|" + q.loc, exprToSexp(q.rhs) + " should be " + std::to_string(q.want) + " but the Python code gives " + std::to_string(gp) + " :: " + lineFor(implP, i));
        }
    }
    c.count("comparisons", comparisons);
    if (getenv("VP_SWEEP_LIST") != nullptr) { // discovery aid: list every failing pair instead of failing the case
        for (const auto &f : c.alsoFailed) {
            printf("BAD %s :: %s\n", f.first.c_str(), f.second.c_str());
        }
        c.alsoFailed.clear();
    }
}

void setMode(const std::string &, long bound)
{
    gBound = bound;
}

} // namespace

namespace vp {
Property property = {
    "C03",
    "translation_validation",
    "bounded-exhaustive skeleton sweep: every (parent operator form, operand position, child operator form) pair over all supported MathML operators and arities, plus the same pairs with a unary minus, a not or a divide in between, "
    "each instantiated with value-safe generic leaves, packed into one model per parent form, analysed, generated in C and Python, compiled/executed and compared with the reference evaluator; every failing pair is reported with its "
    "localisation paren:<parent>/<position>/<child>. Non-trivial: a model with >= 10 pairs. Distinct = (parent form, variant).",
    run,
    setMode,
    {"leaves are constants with generic distinct values; pairs for which no value-safe leaves exist are skipped and counted", "relative tolerance 1e-7"},
};
}

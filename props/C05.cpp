// C05 — analysis classifies every model and variable correctly and consistently.
// (a) ground truth by construction, (b) well-formedness of every valid AnalyserModel through public accessors,
// (c) a metamorphic family per model (permutations, re-splitting, reversal, side swaps, consistent renaming),
// (d) constraint variants with the expected non-valid type.
#include <libcellml>

#include <libxml/parser.h>

#include <set>

#include "c05_model.h"
#include "gt.h"
#include "prop.h"
#include "spec.h"

using namespace vp;
using namespace vp::c05;
using namespace libcellml;

namespace {

struct MetaPlan
{
    unsigned mask = 1;
    unsigned scheme = 0;
};

void report(Case &c, const std::string &sig, const std::string &msg)
{
    c.alsoFailed.emplace_back(sig, msg);
}

std::string stripId(const std::string &sig)
{
    return sig.compare(0, 4, "C05.") == 0 ? sig.substr(4) : sig;
}

void run(Src &src, Case &c)
{
    xmlKeepBlanksDefault(1);
    // ---- plan, drawn first
    const unsigned raw0 = static_cast<unsigned>(src.below(100));
    const bool extMove = raw0 >= 40; // as flip(60)
    const unsigned baseNaming = raw0 % 5; // naming of the base model: 0 the generator's names, 1-4 a renaming scheme (spare bits of the same draw)
    const bool extReaders = src.flip(45);
    const size_t nMeta = 1 + src.below(3);
    std::vector<MetaPlan> metaPlan(nMeta);
    for (auto &p : metaPlan) {
        p.mask = 1 + static_cast<unsigned>(src.below(511));
        p.scheme = static_cast<unsigned>(src.below(5));
    }
    const size_t nVariants = src.below(3);
    std::vector<int> variantKinds(nVariants);
    std::vector<unsigned> variantShuffle(nVariants);
    for (size_t i = 0; i < nVariants; ++i) {
        variantKinds[i] = static_cast<int>(src.below(V_COUNT));
        variantShuffle[i] = static_cast<unsigned>(src.below(32));
    }

    const unsigned shapeDraw = static_cast<unsigned>(src.below(12)); // 1..5: an explorer shape is added to the base model
    const bool baseComments = src.below(4) == 1;

    GtOptions opt;
    opt.smallExprs = true;
    GtModel gt = genGroundTruthModel(src, opt);
    TM base;
    std::string problem;
    if (!fromGt(gt, base, problem)) {
        c.fail("C05.harness|from-gt", problem + "\n" + specToText(gt.spec) + "\n" + gt.describe());
        return;
    }
    bool moved = extMove && moveInitialValues(base, src);
    bool readers = extReaders && addNlaReaders(base, src);
    if (shapeDraw >= 1 && shapeDraw < static_cast<unsigned>(S_COUNT)) {
        addShape(base, static_cast<int>(shapeDraw), src);
    }
    if (baseNaming != 0) {
        applyTransform(base, T_RENAME_VARIABLES, src, baseNaming);
    }
    if (baseComments) {
        base.commentSeed = 1 + static_cast<unsigned>(src.below(1000));
    }
    rebuildMath(base);
    c.text = specToText(base.spec) + "\n" + base.describe();
    c.hash = hashStr(c.text);
    c.weight = c.text.size();
    for (const auto &k : gt.counters) {
        c.count("gen:" + k.first, k.second);
    }

    // ---- classes and the non-trivial rule
    std::set<std::string> kinds;
    bool guess = false;
    for (size_t ci = 0; ci < base.eqs.size(); ++ci) {
        for (const auto &e : base.eqs[ci]) {
            if (e.system >= 0) {
                kinds.insert("nla");
            } else {
                GtRole r = base.classes[static_cast<size_t>(e.defines)].role;
                kinds.insert(r == GtRole::STATE ? "ode" : (r == GtRole::COMPUTED_CONSTANT ? "constant" : "algebraic"));
            }
        }
    }
    bool namesDiffer = false, nameCollision = false, primaryNameReused = false;
    for (size_t k = 0; k < base.classes.size(); ++k) {
        guess = guess || base.classes[k].guess;
        std::set<std::string> names;
        int home = base.homeComp(static_cast<int>(k));
        for (size_t ci : base.compsWith(static_cast<int>(k))) {
            const std::string &n = base.spec.comps[ci].vars[static_cast<size_t>(base.instanceIn(static_cast<int>(k), ci))].name;
            names.insert(n);
            // the name of a member outside the defining component is also the name of an unrelated variable inside it
            if (home >= 0 && static_cast<int>(ci) != home) {
                const auto &hc = base.spec.comps[static_cast<size_t>(home)];
                for (size_t v = 0; v < hc.vars.size(); ++v) {
                    primaryNameReused = primaryNameReused || (hc.vars[v].name == n && base.classOf[static_cast<size_t>(home)][v] != static_cast<int>(k));
                }
            }
            // an unrelated variable of another component carries the same name
            for (size_t cj = 0; cj < base.spec.comps.size(); ++cj) {
                for (size_t v = 0; cj != ci && v < base.spec.comps[cj].vars.size(); ++v) {
                    nameCollision = nameCollision || (base.spec.comps[cj].vars[v].name == n && base.classOf[cj][v] != static_cast<int>(k));
                }
            }
        }
        namesDiffer = namesDiffer || names.size() > 1;
    }
    c.nontrivial = base.spec.comps.size() >= 2 && !base.spec.conns.empty() && base.equationCount() >= 4 && kinds.size() >= 2;
    c.cls("expected:" + base.type);
    if (base.spec.comps.size() >= 2) c.cls("multi-component");
    if (!base.systems.empty()) c.cls(guess ? "nla-with-guesses" : "nla-single-unknown");
    if (moved) c.cls("initial-value-on-another-instance");
    if (readers) c.cls("reads-nla-unknown");
    if (namesDiffer) c.cls("names:class-members-differ");
    if (nameCollision) c.cls("names:collision-across-components");
    if (primaryNameReused) c.cls("names:primary-name-reused-in-computing-component");
    c.cls("base-naming:" + std::to_string(baseNaming));
    if (!base.shape.empty()) c.cls("shape:" + base.shape);
    if (base.commentSeed != 0) c.cls("comments-in-math");
    c.count("equations", static_cast<long>(base.equationCount()));

    // ---- (a) + (b) on the base model
    Obs ob;
    analyse(base, ob);
    c.count("analyses");
    c.cls("type:" + ob.type);
    auto uniformlyNamed = [&](const TM &x, Obs &ox) {
        TM u = x;
        renameVariablesUniform(u);
        analyse(u, ox);
        c.count("analyses");
    };
    if (!ob.sig.empty()) {
        // monitor, exception or a malformed analyser model
        std::string s = ob.sig;
        if (s.compare(0, 7, "C05.wf|") == 0) {
            Obs ou;
            uniformlyNamed(base, ou);
            if (ou.sig != s) {
                s = "C05.name-dependent|" + stripId(s);
            }
        }
        report(c, s + (base.shape.empty() ? "" : "|shape:" + base.shape), ob.msg + "\n--- analyser model\n" + ob.dump());
        if (!ob.rolesOk && ob.valid) {
            return;
        }
        if (ob.type == "exception") {
            return;
        }
    }
    std::string msg;
    std::string sig = checkTruth(base, ob, msg);
    if (!sig.empty()) {
        // Does the verdict depend on how the variables are called? (consistent renaming must not matter)
        Obs ou;
        uniformlyNamed(base, ou);
        std::string m2;
        if (ou.type != "exception" && checkTruth(base, ou, m2) != sig) {
            sig = "C05.name-dependent|" + stripId(sig);
            msg += "\n(the same model with every class of connected variables given one name throughout does not show this)";
        }
        report(c, sig + (base.shape.empty() ? "" : "|shape:" + base.shape), msg + "\n--- with one name per class: type " + ou.type + "\n" + ou.issues + "--- analyser model\n" + ob.dump());
        return;
    }

    // ---- (c) metamorphic family
    for (const auto &p : metaPlan) {
        std::vector<TM> stages;
        std::vector<int> applied;
        TM cur = base;
        for (int t = 0; t < T_COUNT; ++t) {
            if ((p.mask >> t) & 1u) {
                applyTransform(cur, t, src, p.scheme);
                stages.push_back(cur);
                applied.push_back(t);
                c.cls(std::string("transform:") + transformName(t) + (t == T_RENAME_VARIABLES ? "/" + std::to_string(p.scheme) : ""));
            }
        }
        Obs ov;
        analyse(cur, ov);
        c.count("analyses");
        c.count("metamorphic-variants");
        bool primaryChanged = false;
        // what differs from the base: a malformed result the base did not have, or another classification
        auto difference = [&](const Obs &ref, const Obs &ox, std::string &dmsg, bool &isWf) -> std::string {
            isWf = false;
            if (!ox.sig.empty() && ox.sig != ref.sig) {
                isWf = true;
                dmsg = ox.msg;
                return ox.sig;
            }
            bool pc = false;
            std::string d = compareObs(base, ref, ox, dmsg, pc);
            if (&ox == &ov) {
                primaryChanged = pc;
            }
            if (d.empty() && ox.valid && ox.errors != 0) {
                d = "valid-with-errors";
                dmsg = ox.issues;
            }
            return d;
        };
        std::string vmsg;
        bool wf = false;
        std::string vsig = difference(ob, ov, vmsg, wf);
        if (primaryChanged) {
            c.cls("primary-variable-changed");
        }
        if (!ov.sig.empty() && ov.sig == ob.sig) {
            c.count("family-member-repeats-base-finding");
        }
        if (vsig.empty()) {
            continue;
        }
        // localise: the first transformation after which the family member differs
        size_t culprit = stages.size() - 1;
        for (size_t j = 0; j + 1 < stages.size(); ++j) {
            Obs ox;
            analyse(stages[j], ox);
            c.count("analyses");
            std::string dm;
            bool w = false;
            if (!difference(ob, ox, dm, w).empty()) {
                culprit = j;
                break;
            }
        }
        // name dependence: with one name per class throughout, do base and family member agree?
        bool nameDependent = false;
        {
            Obs oub, ous;
            uniformlyNamed(base, oub);
            uniformlyNamed(stages[culprit], ous);
            std::string dm;
            bool w = false;
            nameDependent = oub.type != "exception" && ous.type != "exception" && difference(oub, ous, dm, w) != vsig;
        }
        std::string full;
        if (wf) {
            full = nameDependent && vsig.compare(0, 4, "C05.") == 0 ? "C05.name-dependent|" + stripId(vsig) : vsig;
        } else {
            full = std::string(nameDependent ? "C05.name-dependent|metamorphic|" : "C05.metamorphic|") + transformName(applied[culprit]) + "|" + vsig;
        }
        report(c, full, "after " + std::string(transformName(applied[culprit])) + ": " + vmsg + "\n--- transformed model\n" + specToText(stages[culprit].spec) + "\n--- analyser model (base)\n" + ob.dump() + "--- analyser model (final family member)\n" + ov.dump());
    }

    // ---- (d) constraint variants
    for (size_t i = 0; i < nVariants; ++i) {
        TM v = base;
        std::string expected, what;
        if (!applyVariant(v, variantKinds[i], src, expected, what)) {
            c.count(std::string("variant-not-applicable:") + variantName(variantKinds[i]));
            continue;
        }
        static const int shuffles[] = {T_PERMUTE_COMPONENTS, T_PERMUTE_VARIABLES, T_PERMUTE_EQUATIONS, T_REVERSE_CONNECTIONS, T_SWAP_SIDES};
        for (int b = 0; b < 5; ++b) {
            if ((variantShuffle[i] >> b) & 1u) {
                applyTransform(v, shuffles[b], src, 0);
            }
        }
        Obs ov;
        analyse(v, ov);
        c.count("analyses");
        c.count("constraint-variants");
        c.cls(std::string("variant:") + variantName(variantKinds[i]));
        c.cls("variant-type:" + ov.type);
        std::string vsig, vmsg;
        if (!ov.sig.empty()) {
            vsig = ov.sig;
            vmsg = ov.msg;
        } else if (ov.type != expected) {
            vsig = std::string("C05.variant|") + variantName(variantKinds[i]) + "|" + expected + "->" + ov.type;
            vmsg = what + ": expected " + expected + ", the analyser reports " + ov.type + "\n" + ov.issues;
        } else if (ov.errors == 0) {
            vsig = std::string("C05.variant|") + variantName(variantKinds[i]) + "|no-error-issue";
            vmsg = what + ": type " + ov.type + " is reported without any issue of level ERROR";
        }
        if (vsig.empty()) {
            continue;
        }
        if (vsig.compare(0, 4, "C05.") == 0) {
            TM u = v;
            renameVariablesUniform(u);
            Obs ou;
            analyse(u, ou);
            c.count("analyses");
            if (ou.type != "exception" && ((ou.type == expected && ou.errors != 0) || (ov.type != expected && ou.type != ov.type))) {
                vsig = "C05.name-dependent|" + stripId(vsig);
            }
        }
        report(c, vsig, vmsg + "\n--- variant\n" + specToText(v.spec) + "\n" + v.describe() + ov.dump());
    }
}

} // namespace

namespace vp {
Property property = {
    "C05",
    "exploration",
    "rapidcheck tapes drive the ground-truth model generator (random dependency DAG of constants, computed constants, algebraic variables, states with ODEs and NLA systems over 1-4 connected components, small expressions), extended by "
    "the harness with initial values placed on another instance of a class and with variables that read NLA unknowns. Each model is analysed and judged against the constructed type and roles, every valid AnalyserModel is checked for "
    "well-formedness through public accessors, 1-3 members of a metamorphic family (permute components / variables / equations, re-split math blocks, reverse connections, swap sides, rename components / units / variables under four "
    "naming schemes) must be classified identically class by class, and 0-2 constraint variants (dropped definition or initial value, second definition, both, second voi, initialised voi, higher-order ODE, state without initial value, "
    "unused variable) must yield the expected non-valid type with an error. Non-trivial: >= 2 connected components, >= 4 equations of >= 2 kinds. Distinct = hash of the model text.",
    run,
    nullptr,
    {"ground truth follows the library's conventions for the cases the semantics leave open: a variable is initialised only if it is a constant, a state or an NLA unknown with an initial guess; an NLA unknown whose inputs are all constant "
     "may be reported computed_constant or algebraic; the placeholder equation of a true constant may be null",
     "constraint variants are only made where their outcome does not depend on reading an equation the other way round (no bare-variable right-hand sides, no initialised variables in the redundant equation, nothing an NLA system with "
     "initial guesses reads is orphaned)",
     "a failure that disappears when every class of connected variables is given one name throughout is attributed to the name-based unknown detection (signature C05.name-dependent|...)"},
};
}

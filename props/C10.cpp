// C10 — equals() is a true equivalence relation that sees every attribute.
// Metamorphic pairs/triples (copy, child permutation, one catalogue mutation at a tape-chosen depth) judged by an independent
// reference model of equality computed from the ModelSpec alone (kit/c10_specmut: refNode / classify).
#include <libcellml>

#include <libxml/parser.h>

#include "c10_specmut.h"
#include "gen.h"
#include "prop.h"
#include "spec.h"

using namespace vp;
using namespace vp::c10;
using namespace libcellml;

namespace {

struct Side
{
    ModelSpec spec;
    Loc loc;
    std::string label = "copy"; // mutation kind(s) relative to A
    std::string what = "copy";
    int depth = -1;
    bool mutated = false, inside = false, covered = true;
    Built built;
    EntityPtr ent;
    RNode ref;
    int permChanged = 0, permInside = 0;
};

// plan: 0-2 copy, 3 equivalence edit, 4-5 mutation anywhere in the model, 6.. mutation inside what the top entity covers
void derive(Side &d, const Side &base, unsigned plan, Src &src, bool localRef)
{
    d.spec = base.spec;
    d.loc = base.loc;
    if (plan <= 2 && !localRef) {
        return;
    }
    Where w = plan == 3 ? EQUIVALENCES : (plan <= 5 ? ANYWHERE : INSIDE);
    if (localRef) {
        w = LOCAL_IMPORT_REFERENCE;
    }
    bool found = false;
    Mut m = chooseMutation(d.spec, d.loc, src, w, &found);
    if (!found && w != ANYWHERE && !localRef) {
        m = chooseMutation(d.spec, d.loc, src, ANYWHERE, &found);
    }
    if (!found) {
        return;
    }
    d.what = applyMutation(d.spec, m, src, d.loc);
    d.label = m.kind;
    d.depth = m.depth;
    d.mutated = true;
    d.inside = m.inside;
    d.covered = m.covered;
}

void realise(Side &s, Src &src, bool permute, bool viaSource)
{
    s.built = buildApi(s.spec, &src);
    applyLocalImportReferences(s.spec, s.built, viaSource);
    if (permute) {
        s.permChanged = permuteChildren(s.built, s.spec, s.loc, src, &s.permInside);
    }
    s.ent = entityAt(s.built, s.loc);
    s.ref = refNode(s.spec, s.loc);
}

// Takes the entity out of its parent (index based); optionally gives it a fresh parent. Returns false when it had none.
bool reparent(const EntityPtr &e, Loc::Kind kind, bool intoScratch, std::vector<EntityPtr> &keepAlive)
{
    switch (kind) {
    case Loc::COMP: {
        auto comp = std::dynamic_pointer_cast<Component>(e);
        auto pe = std::dynamic_pointer_cast<ComponentEntity>(comp->parent());
        if (pe == nullptr) {
            return false;
        }
        for (size_t i = 0; i < pe->componentCount(); ++i) {
            if (pe->component(i) == comp) {
                pe->takeComponent(i);
                break;
            }
        }
        if (intoScratch) {
            auto p = Component::create("scratch_parent");
            p->addComponent(comp);
            keepAlive.push_back(p);
        }
        return true;
    }
    case Loc::VAR: {
        auto v = std::dynamic_pointer_cast<Variable>(e);
        auto pc = std::dynamic_pointer_cast<Component>(v->parent());
        if (pc == nullptr) {
            return false;
        }
        for (size_t i = 0; i < pc->variableCount(); ++i) {
            if (pc->variable(i) == v) {
                pc->removeVariable(i);
                break;
            }
        }
        if (intoScratch) {
            auto p = Component::create("scratch_parent");
            p->addVariable(v);
            keepAlive.push_back(p);
        }
        return true;
    }
    case Loc::RESET: {
        auto r = std::dynamic_pointer_cast<Reset>(e);
        auto pc = std::dynamic_pointer_cast<Component>(r->parent());
        if (pc == nullptr) {
            return false;
        }
        for (size_t i = 0; i < pc->resetCount(); ++i) {
            if (pc->reset(i) == r) {
                pc->removeReset(i);
                break;
            }
        }
        if (intoScratch) {
            auto p = Component::create("scratch_parent");
            p->addReset(r);
            keepAlive.push_back(p);
        }
        return true;
    }
    case Loc::UNITS: {
        auto u = std::dynamic_pointer_cast<Units>(e);
        auto pm = std::dynamic_pointer_cast<Model>(u->parent());
        if (pm == nullptr) {
            return false;
        }
        for (size_t i = 0; i < pm->unitsCount(); ++i) {
            if (pm->units(i) == u) {
                pm->removeUnits(i);
                break;
            }
        }
        if (intoScratch) {
            auto p = Model::create("scratch_parent");
            p->addUnits(u);
            keepAlive.push_back(p);
        }
        return true;
    }
    default:
        return false;
    }
}

struct PairResult
{
    bool ab = false, ba = false;
    bool excluded = false; // falls under a listed finding and was not asserted
    bool expectedEqual = false;
};

// Judges one unordered pair against the reference (failures are recorded in c).
void checkPair(Case &c, const EntityPtr &a, const RNode &ra, const EntityPtr &b, const RNode &rb, const std::string &type, const std::string &label, bool probeKnown, PairResult &res)
{
    res.ab = a->equals(b);
    res.ba = b->equals(a);
    DiffClass d = classify(ra, rb);
    res.expectedEqual = !d.differ;
    c.count("pairs");
    const std::string detail = std::string("a.equals(b)=") + (res.ab ? "true" : "false") + " b.equals(a)=" + (res.ba ? "true" : "false") + " expected both " + (d.differ ? "false" : "true") + " for pair '" + label + "' of " + type
                               + "\nreference a: " + ra.key.substr(0, 700) + "\nreference b: " + rb.key.substr(0, 700);
    if (d.knownOnly) {
        // the only differences are ones the two listed defects of equals() cannot see reliably
        const std::string sig = d.knownSig();
        if (probeKnown) {
            VP_CHECK(c, !res.ab && !res.ba, sig, detail);
        } else {
            res.excluded = true;
            c.count("excluded:" + sig);
            c.cls("excluded-known-pair");
        }
        return;
    }
    c.cls(d.differ ? "pair:different" : "pair:equal");
    VP_CHECK(c, res.ab == res.ba, "C10.symmetry|" + type + ":" + label, detail);
    if (d.differ) {
        VP_CHECK(c, !res.ab && !res.ba, "C10.detect|" + type + ":" + label, detail);
    } else {
        VP_CHECK(c, res.ab && res.ba, "C10.copy|" + type + ":" + label, detail);
    }
}

void run(Src &mainSrc, Case &c)
{
    xmlKeepBlanksDefault(1);
    Src &src = mainSrc;
    // ---- plan (drawn first so that short tapes still reach every feature)
    const bool probeKnown = src.flip(4);
    static const unsigned shapeCounts[4] = {0, 0, 1, 2};
    const unsigned nShapes = shapeCounts[src.below(4)];
    const unsigned planB = static_cast<unsigned>(src.below(20));
    const unsigned planC = static_cast<unsigned>(src.below(20));
    const bool cFromB = src.flip(50);
    static const std::vector<Loc::Kind> allKinds = {Loc::MODEL, Loc::COMP, Loc::VAR, Loc::UNITS, Loc::RESET, Loc::IMPORT};
    const Loc::Kind wantKind = allKinds[src.below(allKinds.size())];

    GenOpts opt;
    opt.hostileText = src.flip(8);
    PreSrc late(mainSrc, 64); // late decisions (entity, shapes, mutations, permutations) are fed from values drawn here
    Side A;
    A.spec = genValidModel(src, opt);
    std::string shapes;
    for (unsigned i = 0; i < nShapes; ++i) {
        std::string l = applyShape(A.spec, late);
        if (!l.empty()) {
            shapes += (shapes.empty() ? "" : ", ") + l;
            c.cls("shape:" + l);
        }
    }
    // import references on entities that are not imports (decisions taken from the tail of the pre-drawn block, see PreSrc::tail)
    const unsigned nLocalRefs = static_cast<unsigned>(late.tail(0, 8)) >= 6 ? static_cast<unsigned>(late.tail(0, 8)) - 5 : 0;
    std::string localRefs;
    for (unsigned i = 0; i < nLocalRefs; ++i) {
        std::string l = addLocalImportReference(A.spec, late.tail(1 + i, 1u << 20), i == 0 ? "lref" : "lref_2");
        if (!l.empty()) {
            localRefs += (localRefs.empty() ? "" : ", ") + l;
        }
    }
    if (!localRefs.empty()) {
        c.cls("local-import-reference");
    }
    const unsigned localRefOdds = localRefs.empty() ? 1 : 4; // of 16
    const bool localB = late.tail(3, 16) >= 16 - localRefOdds;
    const bool localC = late.tail(4, 16) >= 16 - localRefOdds;
    const bool viaSourceA = late.tail(5, 2) == 1, viaSourceB = late.tail(6, 2) == 1, viaSourceC = late.tail(7, 2) == 1;
    A.loc = chooseLoc(A.spec, late, {wantKind});
    if (A.loc.kind != wantKind) {
        A.loc = chooseLoc(A.spec, late, allKinds); // the wanted kind does not exist in this model
    }
    const std::string type = kindName(A.loc.kind);

    Side B, C;
    derive(B, A, planB, late, localB);
    derive(C, cFromB ? B : A, planC, late, localC);
    if (cFromB && B.mutated) {
        C.label = C.mutated ? B.label + "+" + C.label : B.label;
    }
    realise(A, late, false, viaSourceA);
    realise(B, late, true, viaSourceB);
    realise(C, late, true, viaSourceC);

    c.text = "top entity: " + locText(A.spec, A.loc) + "\nshape transformations: " + (shapes.empty() ? "none" : shapes) + (localRefs.empty() ? "" : "\nimport reference without import source on: " + localRefs) + "\nb = a with: " + B.what + " [" + std::to_string(B.permInside) + " containers inside the entity permuted]"
             + "\nc = " + (cFromB ? "b" : "a") + " with: " + C.what + " [" + std::to_string(C.permInside) + " containers inside the entity permuted]" + (probeKnown ? "\n(listed findings are asserted in this case)" : "") + "\n--- a ---\n" + specToText(A.spec);
    c.hash = hashStr(c.text);
    c.weight = c.text.size();
    c.cls("top:" + type);
    for (const Side *s : {&B, &C}) {
        if (s->mutated) {
            std::string k = s->label.substr(s->label.rfind('+') == std::string::npos ? 0 : s->label.rfind('+') + 1);
            c.cls("mut:" + k);
            if (!s->covered) {
                c.cls("irrelevant:equivalence-edit");
            } else if (!s->inside) {
                c.cls("irrelevant:outside-the-entity");
            } else {
                c.cls("depth:" + std::string(s->depth >= 3 ? "3+" : std::to_string(s->depth)));
            }
        } else {
            c.cls("mut:none(copy)");
        }
        if (s->permInside > 0) {
            c.cls("permuted-inside");
        }
    }
    if (probeKnown) {
        c.cls("probe-known");
    }
    auto deep = [](const Side &s) { return (s.mutated && s.inside && s.depth >= 1) || s.permInside > 0 || (s.mutated && s.inside && s.label.find("clone-sibling") != std::string::npos); };
    c.nontrivial = deep(B) || deep(C);

    // ---- reflexivity, null
    for (const Side *s : {&A, &B, &C}) {
        VP_CHECK(c, s->ent->equals(s->ent), "C10.reflexive|" + type, "x.equals(x) is false for " + locText(s->spec, s->loc));
        VP_CHECK(c, !s->ent->equals(nullptr), "C10.null|" + type, "x.equals(nullptr) is true");
    }

    // ---- every pair against the reference
    PairResult ab, ac, bc;
    const std::string labelAC = C.label; // relative to a (b's mutation + c's own when c was derived from b)
    const std::string labelBC = cFromB ? (C.mutated ? C.label.substr(C.label.rfind('+') == std::string::npos ? 0 : C.label.rfind('+') + 1) : std::string("copy")) : B.label + "/" + C.label;
    checkPair(c, A.ent, A.ref, B.ent, B.ref, type, B.label, probeKnown, ab);
    if (!c.ok) {
        return;
    }
    checkPair(c, A.ent, A.ref, C.ent, C.ref, type, labelAC, probeKnown, ac);
    if (!c.ok) {
        return;
    }
    checkPair(c, B.ent, B.ref, C.ent, C.ref, type, labelBC, probeKnown, bc);
    if (!c.ok) {
        return;
    }

    // ---- transitivity on the triple (observed verdicts)
    if (!ab.excluded && !ac.excluded && !bc.excluded) {
        // E[x][y] for x,y in {a,b,c}
        bool E[3][3] = {{true, ab.ab, ac.ab}, {ab.ba, true, bc.ab}, {ac.ba, bc.ba, true}};
        for (int x = 0; x < 3; ++x) {
            for (int y = 0; y < 3; ++y) {
                for (int z = 0; z < 3; ++z) {
                    if (x != y && y != z && x != z && E[x][y] && E[y][z]) {
                        VP_CHECK(c, E[x][z], "C10.transitive|" + type, "equals(" << "abc"[x] << "," << "abc"[y] << ") and equals(" << "abc"[y] << "," << "abc"[z] << ") but not equals(" << "abc"[x] << "," << "abc"[z] << "); b: " << B.what << "; c: " << C.what);
                    }
                }
            }
        }
        c.count("triples");
        if (ab.expectedEqual && bc.expectedEqual) {
            c.cls("triple:all-equal");
        }
    } else {
        c.count("triples_skipped_known");
    }

    // ---- another entity of the same type from the same model (pool pairs), and one of a different type
    {
        Loc other = chooseLoc(A.spec, late, {A.loc.kind});
        bool same = other.ci == A.loc.ci && other.k == A.loc.k && other.ui == A.loc.ui && other.ii == A.loc.ii;
        if (!same) {
            PairResult pr;
            EntityPtr oe = entityAt(A.built, other);
            RNode orf = refNode(A.spec, other);
            checkPair(c, A.ent, A.ref, oe, orf, type, "pool", probeKnown, pr);
    if (!c.ok) {
                return;
            }
            if (pr.expectedEqual) {
                c.cls("pool:equal-siblings");
            }
        }
        std::vector<Loc::Kind> others;
        for (auto k : allKinds) {
            if (k != A.loc.kind) {
                others.push_back(k);
            }
        }
        Loc x = chooseLoc(A.spec, late, others);
        if (x.kind != A.loc.kind) {
            EntityPtr xe = entityAt(A.built, x);
            bool p = A.ent->equals(xe), q = xe->equals(A.ent);
            VP_CHECK(c, !p && !q, std::string("C10.symmetry|cross-type:") + type + "/" + kindName(x.kind), "entities of different types compare equal: " << p << q);
        }
    }

    // ---- parents are not part of equality: move b out of its parent (or under a fresh one), verdicts must not change
    if (!ab.excluded && A.loc.kind != Loc::MODEL && A.loc.kind != Loc::IMPORT) {
        std::vector<EntityPtr> keep;
        const bool intoScratch = late.flip(50);
        if (reparent(B.ent, B.loc.kind, intoScratch, keep)) {
            bool p = A.ent->equals(B.ent), q = B.ent->equals(A.ent);
            VP_CHECK(c, p == ab.ab && q == ab.ba, "C10.irrelevant|parent:" + type, "verdict changed after b was " << (intoScratch ? "moved under a fresh parent" : "removed from its parent") << ": before " << ab.ab << ab.ba << " after " << p << q << " (b: " << B.what << ")");
            c.cls("irrelevant:parent-toggled");
        }
    }
}

} // namespace

namespace vp {
Property property = {
    "C10",
    "exploration",
    "rapidcheck tapes: a generated model (valid by construction, then 0-2 validity-breaking shape transformations: duplicated siblings of every kind, resets without order/variable/value, tiny unit multipliers; import references on entities that are not imports) "
    "is built through the API; one entity a of a tape-chosen type (model, component, variable, units, reset, import source) is compared with the corresponding entity of b and c, where b = a and c = a or b, each rebuilt "
    "from a copy of the spec with either nothing changed, or exactly one mutation of the catalogue (every attribute / child kind named in the statement, at a tape-chosen site inside the entity; sometimes outside it or an "
    "equivalence edit, which must not matter) and with the children of every container permuted through the API. Every unordered pair is judged in both directions against a reference model of equality computed from the spec alone; "
    "reflexivity, equals(nullptr), symmetry, transitivity of the observed verdicts, pool pairs from the same model, cross-type pairs and re-parenting are checked on top. "
    "Non-trivial: a mutation at containment depth >= 1 below the compared entity, or a permuted container inside it, or a pair that differs only in child multiplicity. Distinct = hash of the case text.",
    run,
    nullptr,
    {"unit exponents / multipliers are changed by >= 1e-6 relative (never within 1 ulp)", "an import reference on a component / units without import source (set directly, or left behind by setImportSource(nullptr)) is an attribute like any other", "math is changed by a token, never by whitespace only", "interface '' vs 'none' and prefix spellings are treated as different attribute texts (as equals() does)",
     "pairs whose only difference is a surplus of variables/resets/units on one side, or child components that agree as sets but not as multisets, are asserted in ~4% of the cases only (listed findings) and counted as excluded otherwise"},
};
}

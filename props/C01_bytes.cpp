// VP-BUILD: fuzz
// C01 (byte level) — no input can crash, hang or corrupt the processing pipeline.
// Input layout: byte 0 = configuration bits, rest = document (optionally split at the first NUL byte into the main
// document and a second document that is registered in the importer library under the hrefs the first one uses).
#include "pipeline.h"
#include "prop.h"

using namespace vp;

namespace {

void runBytes(const uint8_t *data, size_t size, Case &c)
{
    if (size > 65536 + 1) {
        size = 65536 + 1;
    }
    unsigned cfgBits = size > 0 ? data[0] : 0;
    std::string doc(size > 1 ? reinterpret_cast<const char *>(data + 1) : "", size > 1 ? size - 1 : 0);
    PipelineCfg cfg;
    cfg.strict = (cfgBits & 1) == 0;
    cfg.selfLibrary = (cfgBits & 2) != 0;
    if ((cfgBits & 4) != 0) {
        size_t p = doc.find('\0');
        if (p != std::string::npos) {
            cfg.extraDoc = doc.substr(p + 1);
            doc.resize(p);
        }
    }
    c.hash = hashStr(doc, hashStr(cfg.extraDoc) ^ cfgBits);
    c.weight = doc.size();
    runPipeline(doc, cfg, c);
    if (c.nontrivial) {
        c.text = "cfg=" + std::to_string(cfgBits & 7) + "\n" + doc.substr(0, 3000);
    }
}

void run(Src &src, Case &c)
{
    // tape form (rapidcheck / replay of a .tape file): one byte per choice
    std::vector<uint8_t> bytes;
    size_t n = static_cast<size_t>(src.below(4096));
    for (size_t i = 0; i < n; ++i) {
        bytes.push_back(static_cast<uint8_t>(src.below(256)));
    }
    runBytes(bytes.data(), bytes.size(), c);
}

} // namespace

namespace vp {
Property property = {
    "C01",
    "exploration",
    "coverage-guided libFuzzer campaigns (ASan+UBSan) over byte strings <= 64 KiB x {strict, permissive} x importer-library configuration, seeded with the repository's test resources, "
    "plus a structure-aware target that applies hostile edits to generated valid documents; the whole pipeline (parse, validate, print, re-parse, queries, resolve, flatten, analyse, generate C and Python) runs on every input. "
    "Oracle: the process survives (no signal, sanitizer report, uncaught exception, stack exhaustion, time-out) and side conditions hold (null model => issue, no code for invalid models, coherent issue lists). "
    "Non-trivial: the parser returned a model with >= 1 component or units and later stages ran. Distinct = hash of the input.",
    run,
    nullptr,
    {"libxml2 2.13.9 as linked by the baseline build", "leak detection is off: the statement does not speak about leaks",
     "a stack-overflow report of the ASan build counts only if the plain build also exhausts its 8 MiB stack; a libFuzzer time-out counts only if the plain build has not returned after 300 s"},
    nullptr,
    nullptr,
    runBytes,
};
}

// C14 — CellML 1.0/1.1 documents are faithfully transformed in permissive mode.
// A valid-by-construction model restricted to what CellML 1.x can express is written as a CellML 1.0 / 1.1 document by
// an independent writer (kit/c14_writer.cpp), parsed permissively and compared, through an independent canonical dump,
// with the same model built through the API; issue levels, the version message, strict refusal and (lazily) the
// validator verdict are checked as well.
#include <libcellml>

#include <libxml/parser.h>

#include <set>

#include "c14_writer.h"
#include "gen.h"
#include "prop.h"
#include "spec.h"

using namespace vp;
using namespace libcellml;

namespace {

std::string stripInterface(const std::string &line)
{
    size_t p = line.find(" interface=\"");
    return p == std::string::npos ? line : line.substr(0, p);
}

// Which kind of line differs first between two dumps (stable token for signatures).
std::string diffKind(const std::string &a, const std::string &b)
{
    std::istringstream ia(a), ib(b);
    std::string la, lb;
    while (true) {
        bool ga = static_cast<bool>(std::getline(ia, la));
        bool gb = static_cast<bool>(std::getline(ib, lb));
        if (!ga && !gb) {
            return "identical";
        }
        if (!ga || !gb) {
            la = ga ? la : lb;
            break;
        }
        if (la != lb) {
            if (la.find("variable name=") != std::string::npos && lb.find("variable name=") != std::string::npos && stripInterface(la) == stripInterface(lb)) {
                return "variable-interface";
            }
            break;
        }
    }
    for (const char *k : {"equivalence", "unit ref", "units name", "variable name", "component name", "model name", "math="}) {
        if (la.find(k) != std::string::npos) {
            std::string t = k;
            std::replace(t.begin(), t.end(), ' ', '-');
            if (t.back() == '=') {
                t.pop_back();
            }
            return t;
        }
    }
    return "other";
}

// Head of an issue description up to the first quote / digit: names the reporting site, not the input.
std::string issueHead(const std::string &d)
{
    std::string h;
    for (char ch : d) {
        if (ch == '\'' || ch == '"' || (ch >= '0' && ch <= '9')) {
            break;
        }
        h += ch == ' ' ? '_' : ch;
    }
    while (!h.empty() && h.back() == '_') {
        h.pop_back();
    }
    return h.substr(0, 40);
}

bool isNumberText(const std::string &s)
{
    return !s.empty() && (s[0] == '-' || s[0] == '+' || s[0] == '.' || (s[0] >= '0' && s[0] <= '9'));
}

void run(Src &src, Case &c)
{
    xmlKeepBlanksDefault(1); // hidden-state reset (DESIGN 2.7)

    // ---- plan (start of the tape)
    C14LayoutSrc layout(src, 16); // plan + layout choices: drawn first, residues mixed (see kit/c14_writer.h)
    C14Options o;
    o.version = layout.flip(45) ? 10 : 11;
    unsigned sp = static_cast<unsigned>(layout.below(100));
    // (the ranges of the first four special classes are kept as they were, so that saved tapes keep their meaning)
    o.special = sp < 40   ? C14Special::NONE
                : sp < 45 ? C14Special::MATH_ELEMENT_ID
                : sp < 50 ? C14Special::MATHML_NS_ANCESTOR
                : sp < 55 ? C14Special::GROUP_CONNECTION_ID
                : sp < 63 ? C14Special::SPLIT_TREES
                : sp < 70 ? C14Special::SCOPED_UNITS_COPIES
                : sp < 78 ? C14Special::EXPLICIT_NONE
                : sp < 84 ? C14Special::SPELLING_IN_MATH
                : sp < 91 ? C14Special::SPLIT_GROUPS
                          : C14Special::DEEP_EXTRAS;
    uint64_t mask = layout.below(1u << 12);
    o.unitsInComponents = (mask & 1) != 0;
    o.cmetaId = (mask & 2) != 0;
    o.oldSpellings = (mask & 4) != 0 || o.special == C14Special::SPELLING_IN_MATH;
    o.extras = (mask & 8) != 0;
    o.shuffleAttrs = (mask & 16) != 0;
    o.shuffleChildren = (mask & 32) != 0;
    o.pretty = (mask & 64) != 0;
    o.explicitDefaults = (mask & 128) != 0;
    o.mixIds = (mask & 256) != 0;
    o.mathIds = (mask & 512) != 0 || o.special == C14Special::MATH_ELEMENT_ID;
    o.mathmlPrefix = (mask & 1024) != 0;
    o.elementPrefix = (mask & 2048) != 0;
    bool validate = layout.flip(20);

    GenOpts g;
    g.v1x = true;
    g.resets = false;
    g.imports = o.version == 11;
    ModelSpec spec = genValidModel(src, g);
    if (o.version == 10) {
        // CellML 1.0: initial_value is a real number (a variable reference is 1.1)
        for (auto &comp : spec.comps) {
            for (auto &v : comp.vars) {
                if (!v.initial.empty() && !isNumberText(v.initial)) {
                    v.initial = "2";
                }
            }
        }
    }
    if (o.special == C14Special::SPELLING_IN_MATH) {
        // make sure the class is realised: one number per math block is given litre / metre as its units
        for (auto &comp : spec.comps) {
            for (auto &mth : comp.math) {
                const std::string key = "cellml:units=\"";
                size_t p = mth.find(key);
                if (p != std::string::npos) {
                    size_t e = mth.find('"', p + key.size());
                    mth.replace(p + key.size(), e - p - key.size(), layout.flip(50) ? "metre" : "litre");
                }
            }
        }
    }
    if (o.mathIds) {
        // cmeta:id inside MathML (on <math> itself or on the first <apply>), with a local declaration of the prefix; the
        // writer may drop the local declaration and rely on the one of the model element. The 2.0 side keeps this math.
        int n = 0;
        for (auto &comp : spec.comps) {
            for (auto &mth : comp.math) {
                if (o.special != C14Special::MATH_ELEMENT_ID && !layout.flip(60)) {
                    continue;
                }
                const std::string idAttr = " cmeta:id=\"mid_" + std::to_string(++n) + "\"";
                bool onMath = o.special == C14Special::MATH_ELEMENT_ID || layout.flip(40);
                size_t ap = mth.find("<apply>");
                if (!onMath && ap != std::string::npos) {
                    mth.insert(ap + 6, idAttr);
                } else {
                    onMath = true;
                }
                mth.insert(5, std::string(" xmlns:cmeta=\"http://www.cellml.org/metadata/1.0#\"") + (onMath ? idAttr : std::string()));
            }
        }
    }
    if (o.special == C14Special::SCOPED_UNITS_COPIES) {
        // make the class more likely to be realised: a units that no other units refers to is given to one unmapped
        // variable in each of two local components
        std::set<std::pair<int, int>> mapped;
        for (const auto &cn : spec.conns) {
            for (const auto &mp : cn.maps) {
                mapped.insert({cn.c1, mp.v1});
                mapped.insert({cn.c2, mp.v2});
            }
        }
        for (const auto &u : spec.units) {
            bool referred = u.import >= 0 || u.units.empty();
            for (const auto &v : spec.units) {
                for (const auto &child : v.units) {
                    referred = referred || child.ref == u.name;
                }
            }
            if (referred) {
                continue;
            }
            int done = 0;
            for (size_t ci = 0; ci < spec.comps.size() && done < 2; ++ci) {
                auto &comp = spec.comps[ci];
                if (comp.import >= 0) {
                    continue;
                }
                for (size_t vi = 0; vi < comp.vars.size(); ++vi) {
                    if (mapped.count({static_cast<int>(ci), static_cast<int>(vi)}) == 0) {
                        comp.vars[vi].units = u.name;
                        ++done;
                        break;
                    }
                }
            }
            break;
        }
    }
    if (o.special == C14Special::GROUP_CONNECTION_ID) {
        bool enc = false;
        for (const auto &comp : spec.comps) {
            enc = enc || comp.parent >= 0;
        }
        if (enc) {
            spec.encId = "enc_id_on_group";
        }
        int n = 0;
        for (auto &cn : spec.conns) {
            if (cn.id.empty() && !cn.maps.empty()) {
                cn.id = "conn_id_" + std::to_string(++n);
            }
        }
    }
    C14Doc doc = writeCellml1x(spec, o, layout);
    Built b = buildApi(spec, &src);
    const std::string expected = dumpModel(b.model);

    std::ostringstream head;
    head << "CellML " << (o.version == 10 ? "1.0" : "1.1") << " special=" << c14SpecialName(o.special) << (doc.specialRealised ? "(written)" : "") << " unitsInComponents=" << o.unitsInComponents << " cmetaId=" << o.cmetaId
         << " oldSpellings=" << o.oldSpellings << " extras=" << o.extras << " shuffleAttrs=" << o.shuffleAttrs << " shuffleChildren=" << o.shuffleChildren << " explicitDefaults=" << o.explicitDefaults << "\n";
    c.text = head.str() + doc.text;
    c.hash = hashStr(doc.text);
    c.weight = doc.text.size();

    int features = 0;
    for (bool f : {doc.encapsulationGroup, doc.componentUnits, doc.bothInterfaceAttrs, doc.mathWithUnits, doc.cmetaIdUsed, doc.oldSpellingUsed}) {
        features += f ? 1 : 0;
    }
    c.nontrivial = features >= 2;
    const bool special = o.special != C14Special::NONE && doc.specialRealised;
    const std::string specialName = c14SpecialName(o.special);
    c.cls(o.version == 10 ? "cellml-1.0" : "cellml-1.1");
    c.cls(special ? "special:" + specialName : std::string("main"));
    if (special && !doc.specialDetail.empty()) {
        c.cls("deep-extras:" + doc.specialDetail);
    }
    if (doc.encapsulationGroup) c.cls("encapsulation-group");
    if (doc.componentUnits) c.cls("component-level-units");
    if (doc.bothInterfaceAttrs) c.cls("both-interface-attributes");
    if (doc.publicBeforePrivate) c.cls("public-before-private");
    if (doc.privateBeforePublic) c.cls("private-before-public");
    if (doc.mathWithUnits) c.cls("math-with-units");
    if (doc.nsOnMath) c.cls("cellml-ns-on-math");
    if (doc.nsOnModel) c.cls("cellml-ns-on-model");
    if (doc.nsOnComponent) c.cls("cellml-ns-on-component");
    if (doc.nsOnCn) c.cls("cellml-ns-on-cn");
    if (doc.nsOtherPrefix) c.cls("cellml-ns-other-prefix");
    if (doc.mathmlPrefixed) c.cls("mathml-prefixed");
    if (doc.cellmlElementsPrefixed) c.cls("cellml-elements-prefixed");
    if (o.mathIds && doc.cmetaIdUsed) c.cls("cmeta-id-in-math");
    if (doc.cmetaDeclOnModelOnly) c.cls("cmeta-declared-on-model-only");
    if (doc.cmetaIdUsed) c.cls("cmeta-id");
    if (doc.oldSpellingUsed) c.cls("old-spelling");
    if (doc.extrasWritten > 0) c.cls("extras");
    if (!spec.conns.empty()) c.cls("connection");
    bool hasImport = false, deep = false;
    for (size_t i = 0; i < spec.comps.size(); ++i) {
        hasImport = hasImport || spec.comps[i].import >= 0;
        deep = deep || spec.depthOf(static_cast<int>(i)) >= 2;
    }
    for (const auto &u : spec.units) {
        hasImport = hasImport || u.import >= 0;
    }
    if (hasImport) c.cls("import");
    if (deep) c.cls("encapsulation-depth>=2");

    // ---- the writer itself is checked against an independent libxml2 parse (a broken writer must not pass silently)
    {
        std::string w = c14SelfCheck(doc, o.version);
        VP_CHECK(c, w.empty(), "C14.harness|writer-self-check", w);
    }

    // ---- permissive parser
    auto parser = Parser::create(false);
    ModelPtr m = parser->parseModel(doc.text);
    {
        std::string lg = checkLogger(parser);
        VP_CHECK(c, lg.empty(), "C15.monitor|Parser|" + lg.substr(0, lg.find('|')), lg);
    }
    VP_CHECK(c, m != nullptr, "C14.permissive|null-model", dumpIssues(parser));
    bool versionMessage = false;
    const std::string versionText = o.version == 10 ? "CellML 1.0" : "CellML 1.1";
    for (size_t i = 0; i < parser->issueCount(); ++i) {
        auto is = parser->issue(i);
        if (is->level() != Issue::Level::MESSAGE) {
            std::string loc = std::string(is->level() == Issue::Level::ERROR ? "ERROR:" : "WARNING:") + issueHead(is->description());
            std::string sig = "C14.issue-level|" + loc;
            if (special && o.special == C14Special::DEEP_EXTRAS) {
                sig = "C14.issue-level|deep-extras:" + doc.specialDetail + "|" + loc;
            } else if (special && o.special == C14Special::SPLIT_TREES && is->description().find("is not unique") != std::string::npos) {
                std::string got = dumpModel(m);
                c.fail("C14.encapsulation|split-trees", "the encapsulation hierarchy is written as sibling component_ref trees of one group (a>b, b>c); the permissive parser reported an ERROR:\n"
                                                            + dumpIssues(parser) + (got != expected ? "A = model built through the API, B = permissively parsed 1.x document\n" + firstDiff(expected, got) : std::string("(content equal)")));
                return;
            } else if (special && o.special == C14Special::SPLIT_GROUPS && is->description().find("more than one encapsulation") != std::string::npos) {
                std::string got = dumpModel(m);
                c.fail("C14.encapsulation|split-groups", "the encapsulation hierarchy is spread over several encapsulation groups (" + std::to_string(doc.groups) + " group elements in the document); the permissive parser reported an ERROR and used the first encapsulation group only:\n"
                                                             + dumpIssues(parser) + (got != expected ? "A = model built through the API, B = permissively parsed 1.x document\n" + firstDiff(expected, got) : std::string("(content equal)")));
                return;
            }
            c.fail(sig, "permissive parser reported an issue above level MESSAGE:\n" + dumpIssues(parser));
            return;
        }
        if (is->description().find(versionText) != std::string::npos) {
            versionMessage = true;
        }
    }
    VP_CHECK(c, versionMessage, "C14.version-message", "no MESSAGE naming '" << versionText << "':\n"
                                                                                << dumpIssues(parser));
    const std::string got = dumpModel(m);
    if (got != expected) {
        std::string kind = diffKind(expected, got);
        std::string sig = "C14.content|" + kind;
        if (special && o.special == C14Special::MATH_ELEMENT_ID && kind == "math") {
            sig = "C14.math|prefixed-attribute-on-math-element";
        } else if (special && o.special == C14Special::MATHML_NS_ANCESTOR && kind == "math") {
            sig = "C14.math|mathml-namespace-on-ancestor";
        } else if (special && o.special == C14Special::GROUP_CONNECTION_ID && (kind == "model-name" || kind == "equivalence")) {
            sig = "C14.ids|id-on-group-or-connection-lost";
        } else if (special && o.special == C14Special::SCOPED_UNITS_COPIES) {
            std::set<std::string> names;
            bool duplicate = false;
            for (size_t i = 0; i < m->unitsCount(); ++i) {
                duplicate = !names.insert(m->units(i)->name()).second || duplicate;
            }
            if (duplicate) {
                sig = "C14.units|component-scoped-copies";
            }
        } else if (special && o.special == C14Special::EXPLICIT_NONE && kind == "variable-interface") {
            sig = "C14.interface|explicit-none";
        } else if (special && o.special == C14Special::SPELLING_IN_MATH && kind == "math") {
            sig = "C14.math|old-spelling-in-cn";
        }
        c.fail(sig, "A = model built through the API, B = permissively parsed 1.x document\n" + firstDiff(expected, got));
        return;
    }
    for (size_t i = 0; i < spec.comps.size(); ++i) {
        if (b.comps[i]->math().find("cellml/1.") != std::string::npos) {
            c.cls("harness-bug:expected-math-mentions-1x");
        }
    }
    {
        std::function<bool(const ComponentPtr &)> mentions = [&](const ComponentPtr &comp) {
            bool r = comp->math().find("cellml/1.") != std::string::npos;
            for (size_t i = 0; i < comp->componentCount(); ++i) {
                r = mentions(comp->component(i)) || r;
            }
            return r;
        };
        bool any = false;
        for (size_t i = 0; i < m->componentCount(); ++i) {
            any = mentions(m->component(i)) || any;
        }
        VP_CHECK(c, !any, "C14.math|1x-namespace-left-in-math-string", "a math string of the transformed model still mentions a CellML 1.x namespace");
    }

    // ---- strict parser refuses the same text
    {
        auto strict = Parser::create(true);
        ModelPtr ms = strict->parseModel(doc.text);
        std::string lg = checkLogger(strict);
        VP_CHECK(c, lg.empty(), "C15.monitor|Parser(strict)|" + lg.substr(0, lg.find('|')), lg);
        VP_CHECK(c, strict->errorCount() >= 1, "C14.strict|no-error", "strict parser reported no error for a CellML " << versionText << " document:\n"
                                                                                                                     << dumpIssues(strict));
        if (ms != nullptr) {
            VP_CHECK(c, dumpModel(ms) == dumpModel(Model::create()), "C14.strict|content-loaded", "strict parser returned a non-empty model:\n"
                                                                                                      << dumpModel(ms).substr(0, 1500));
        }
    }

    // ---- validator (lazily: the MathML DTD is parsed per math block)
    if (validate && doc.mathmlPrefixed) {
        // The validator's MathML DTD step is not namespace aware: it rejects <m:math xmlns:m="...MathML"> although the
        // parser carried the math over correctly (same for a 2.0 document). Not part of the C14 statement: oracle not applied.
        c.cls("validator-not-consulted:prefixed-mathml");
        c.count("excluded:validator-oracle-on-prefixed-mathml");
    } else if (validate) {
        auto v0 = Validator::create();
        v0->validateModel(b.model);
        if (v0->errorCount() == 0) {
            c.cls("validator-accepts-original");
            auto v1 = Validator::create();
            v1->validateModel(m);
            std::string lg = checkLogger(v1);
            VP_CHECK(c, lg.empty(), "C15.monitor|Validator|" + lg.substr(0, lg.find('|')), lg);
            VP_CHECK(c, v1->errorCount() == 0, "C14.validator|" + issueHead(v1->errorCount() > 0 ? v1->error(0)->description() : ""), "validator accepts the 2.0 original but not the transformed model:\n"
                                                                                                                                      << dumpIssues(v1));
            VP_CHECK(c, v1->issueCount() == v0->issueCount(), "C14.validator|issue-count", "original: " << dumpIssues(v0) << "transformed: " << dumpIssues(v1));
        } else {
            c.cls("validator-rejects-original:" + issueHead(v0->error(0)->description()));
            c.count("validator_rejects_original");
        }
    }

    // ---- parser reuse (sub-case appended at the END of the choice sequence: a tape that is used up means no sub-case, so
    // saved tapes keep their meaning). One permissive Parser object parses this document, a second generated document and
    // this document again: every result must equal what a fresh parser gives (model dump and issue list), and a model that
    // was already returned must not change when the parser is used again.
    if (src.exhausted()) {
        return;
    }
    const bool second1x = src.below(3) != 1; // 0 (simplest), 2: another 1.x document with component-level units; 1: a 2.0 document
    GenOpts g2;
    g2.v1x = true;
    g2.resets = false;
    g2.imports = false;
    g2.maxComps = 3;
    g2.maxVars = 3;
    g2.maxUnits = 3;
    C14LayoutSrc layout2(src, 6);
    ModelSpec spec2 = genValidModel(src, g2);
    std::string text2;
    if (second1x) {
        C14Options o2;
        o2.version = layout2.flip(50) ? 10 : 11;
        o2.unitsInComponents = true;
        o2.cmetaId = layout2.flip(50);
        o2.shuffleChildren = layout2.flip(50);
        if (o2.version == 10) {
            for (auto &comp : spec2.comps) {
                for (auto &v : comp.vars) {
                    if (!v.initial.empty() && !isNumberText(v.initial)) {
                        v.initial = "2";
                    }
                }
            }
        }
        text2 = writeCellml1x(spec2, o2, layout2).text;
    } else {
        XmlOptions x2;
        x2.version = 20;
        x2.layout = static_cast<uint32_t>(layout2.below(1000));
        text2 = writeXml(spec2, x2);
    }
    c.cls("reuse-subcase");
    c.cls(second1x ? "reuse:second-is-1.x" : "reuse:second-is-2.0");
    if (doc.componentUnits) {
        c.cls("reuse:first-has-component-level-units");
    }
    c.text += "--- parser reuse: second document ---\n" + text2;
    const std::string issues1 = dumpIssues(parser);
    auto fresh2 = Parser::create(false);
    ModelPtr f2 = fresh2->parseModel(text2);
    VP_CHECK(c, f2 != nullptr, "C14.reuse|harness:second-document-null", dumpIssues(fresh2));
    const std::string dump2 = dumpModel(f2), issues2 = dumpIssues(fresh2);
    const char *secondKind = second1x ? "1x" : "20";

    auto shared = Parser::create(false);
    ModelPtr a = shared->parseModel(doc.text);
    VP_CHECK(c, a != nullptr && dumpModel(a) == got, "C14.reuse|first-parse:content", firstDiff(got, dumpModel(a)));
    VP_CHECK(c, dumpIssues(shared) == issues1, "C14.reuse|first-parse:issues", firstDiff(issues1, dumpIssues(shared)));
    ModelPtr s2 = shared->parseModel(text2);
    {
        std::string lg = checkLogger(shared);
        VP_CHECK(c, lg.empty(), "C15.monitor|Parser(reused)|" + lg.substr(0, lg.find('|')), lg);
    }
    VP_CHECK(c, s2 != nullptr && dumpModel(s2) == dump2, std::string("C14.reuse|second-document-") + secondKind + ":content",
             "A = fresh parser, B = parser that parsed the case's 1.x document before\n"
                 << firstDiff(dump2, dumpModel(s2)));
    VP_CHECK(c, dumpIssues(shared) == issues2, std::string("C14.reuse|second-document-") + secondKind + ":issues", firstDiff(issues2, dumpIssues(shared)));
    VP_CHECK(c, dumpModel(a) == got, "C14.reuse|returned-model-changed:first", "A = first model when it was returned, B = the same object after the parser parsed another document\n"
                                                                                   << firstDiff(got, dumpModel(a)));
    ModelPtr a2 = shared->parseModel(doc.text);
    VP_CHECK(c, a2 != nullptr && dumpModel(a2) == got, "C14.reuse|third-parse:content", "A = fresh parser, B = third parse by the reused parser\n"
                                                                                             << firstDiff(got, dumpModel(a2)));
    VP_CHECK(c, dumpIssues(shared) == issues1, "C14.reuse|third-parse:issues", firstDiff(issues1, dumpIssues(shared)));
    VP_CHECK(c, dumpModel(s2) == dump2, "C14.reuse|returned-model-changed:second", firstDiff(dump2, dumpModel(s2)));
    VP_CHECK(c, dumpModel(a) == got, "C14.reuse|returned-model-changed:first", firstDiff(got, dumpModel(a)));
}

} // namespace

namespace vp {
Property property = {
    "C14",
    "exploration",
    "rapidcheck tapes drive a valid-by-construction model generator restricted to what CellML 1.x can express (no resets, imports only for 1.1, plain reals) and an independent CellML 1.0/1.1 writer "
    "(namespace, group/relationship_ref/component_ref, connection/map_components/map_variables in both component orders, public_interface/private_interface in both attribute orders, units declared inside the "
    "component that uses them, cmeta:id, liter/meter, cellml:units bound to the 1.x namespace on math / model / component / the cn itself under several prefixes, explicit default values, RDF / extension "
    "content, permuted attributes and children); the permissively parsed document is compared with the same model built through the API by an order-insensitive dump with canonical MathML; issue levels, "
    "the version message, strict refusal and (20 % of cases) the validator verdict are checked; when the tape is not used up a parser-reuse sub-case follows (one Parser object parses the document, a second "
    "generated 1.x or 2.0 document and the first again: each result equals a fresh parser's, returned models do not change). Non-trivial: at least two of {encapsulation group, component-level units, both interface attributes on one "
    "variable, math with units, cmeta:id, old spellings}. Distinct = hash of the document text.",
    run,
    nullptr,
    {"libxml2 2.13.9 as linked by the baseline build", "documents are valid CellML 1.x as far as the writer can tell (no in/in interfaces, component-level units only where 1.x scoping allows, imports and variable-valued initial values only in 1.1)",
     "doubles compared to 15 significant digits", "the validator is consulted on a tape-chosen 20 % of cases"},
};
}

// C16 — numeric text is recognised per the CellML grammar and never crashes.
//
// One case = one string placed, one document per position, in all eight numeric positions
// (unit exponent / multiplier / prefix, reset order, variable initial_value, cn of type real,
// cn e-notation mantissa and exponent), each document run through the strict Parser and the Validator;
// or one number set through the API and sent through Printer -> strict Parser (printer leg).
//
// Tape layout (identical in every driver mode, so that a replay file needs no mode or bound):
//   [0, len, s_0 .. s_{len-1}]        string over the 10-symbol alphabet {0,1,9,+,-,.,e,E,' ',a}
//   [1, target, idx]                  printer leg, table of decades / special doubles / ints
//   [2, len, s..]                     long string (<= 40) over the 10 symbols, all ten digits and a few hostile symbols
//   [3, ...]                          near-miss: a valid real / integer with one edit
//   [4, idx, variation]               extreme magnitudes
//   [5, target, hi, lo]               printer leg, random bit pattern
//   [6, target, mantissa digits, exp] printer leg, random decimal mantissa x decade
// The bounded-exhaustive driver enumerates kinds 0 and 1 completely (kind = below(2)).
#include <libcellml>

#include <libxml/parser.h>

#include <array>
#include <cerrno>
#include <climits>
#include <csignal>
#include <cmath>
#include <cstdlib>
#include <cstring>
#include <cxxabi.h>
#include <locale>
#include <fcntl.h>
#include <regex.h>
#include <typeinfo>
#include <unistd.h>

#include "prop.h"
#include "spec.h"

using namespace vp;
using namespace libcellml;

namespace {

// ------------------------------------------------------------------------------------------------ positions
enum Pos
{
    P_EXP,
    P_MULT,
    P_PREFIX,
    P_ORDER,
    P_INIT,
    P_CN_REAL,
    P_CN_MANT,
    P_CN_EEXP,
    NPOS
};
const char *const POS_NAME[NPOS] = {"unit@exponent", "unit@multiplier", "unit@prefix", "reset@order", "variable@initial_value", "cn-real", "cn-e-notation-mantissa", "cn-e-notation-exponent"};
bool isCnPos(int p)
{
    return p >= P_CN_REAL;
}
Issue::ReferenceRule ruleOf(int p)
{
    switch (p) {
    case P_EXP: return Issue::ReferenceRule::UNIT_ATTRIBUTE_EXPONENT_VALUE;
    case P_MULT: return Issue::ReferenceRule::UNIT_ATTRIBUTE_MULTIPLIER_VALUE;
    case P_PREFIX: return Issue::ReferenceRule::UNIT_ATTRIBUTE_PREFIX_VALUE;
    case P_ORDER: return Issue::ReferenceRule::RESET_ORDER_VALUE;
    case P_INIT: return Issue::ReferenceRule::VARIABLE_INITIAL_VALUE_VALUE;
    default: return Issue::ReferenceRule::MATH_CN_FORMAT;
    }
}

const char *const HDR = "<?xml version=\"1.0\" encoding=\"UTF-8\"?>\n<model xmlns=\"http://www.cellml.org/cellml/2.0#\" name=\"m\">\n";
const char *const MATH_OPEN = "<math xmlns=\"http://www.w3.org/1998/Math/MathML\" xmlns:cellml=\"http://www.cellml.org/cellml/2.0#\"><apply><eq/><ci>v</ci>";

// Same-document range errors (history class "same-document-range-error"): aug 1..3 puts another numeric text that
// hits a range condition (underflow, overflow, integer beyond int) into the same document, ahead of the placement and
// never at an attribute that cites the placement's own rule: a preceding <unit> of the same units for the three unit
// positions, a preceding units definition "h" for the others.
std::string augmentUnitAttributes(int p, int aug)
{
    static const char *const T[3][3] = {
        {"multiplier=\"1e-320\"", "multiplier=\"1e999\"", "prefix=\"99999999999\""}, // placement: exponent
        {"exponent=\"1e-320\"", "exponent=\"1e999\"", "prefix=\"99999999999\""}, // placement: multiplier
        {"multiplier=\"1e-320\"", "exponent=\"1e999\"", "multiplier=\"4.9e-324\" exponent=\"-1e999\""}, // placement: prefix
    };
    static const char *const G[3] = {"multiplier=\"1e-320\"", "exponent=\"1e999\"", "prefix=\"99999999999\""};
    return p <= P_PREFIX ? T[p][aug - 1] : G[aug - 1];
}

// The document carrying string s in position p. s never contains XML-special characters (alphabets below).
std::string document(const std::string &s, int p, int aug = 0)
{
    std::string d = HDR;
    if (aug != 0 && p > P_PREFIX) {
        d += " <units name=\"h\"><unit units=\"second\" " + augmentUnitAttributes(p, aug) + "/></units>\n";
    }
    switch (p) {
    case P_EXP:
    case P_MULT:
    case P_PREFIX:
        // Two connected variables in the units so that the validator's unit reduction of the child is exercised too.
        d += " <units name=\"u\">" + (aug != 0 ? "<unit units=\"second\" " + augmentUnitAttributes(p, aug) + "/>" : std::string()) + "<unit units=\"metre\" " + std::string(p == P_EXP ? "exponent" : (p == P_MULT ? "multiplier" : "prefix")) + "=\"" + s + "\"/></units>\n"
             " <component name=\"c1\"><variable name=\"v\" units=\"u\" interface=\"public\"/></component>\n"
             " <component name=\"c2\"><variable name=\"v\" units=\"u\" interface=\"public\"/></component>\n"
             " <connection component_1=\"c1\" component_2=\"c2\"><map_variables variable_1=\"v\" variable_2=\"v\"/></connection>\n";
        break;
    case P_ORDER:
        d += " <component name=\"c\"><variable name=\"v\" units=\"dimensionless\"/><variable name=\"w\" units=\"dimensionless\"/>"
             "<reset variable=\"v\" test_variable=\"w\" order=\""
             + s + "\"/></component>\n";
        break;
    case P_INIT:
        d += " <component name=\"c\"><variable name=\"v\" units=\"dimensionless\" initial_value=\"" + s + "\"/></component>\n";
        break;
    case P_CN_REAL:
        d += " <component name=\"c\"><variable name=\"v\" units=\"dimensionless\"/>" + std::string(MATH_OPEN) + "<cn cellml:units=\"dimensionless\">" + s + "</cn></apply></math></component>\n";
        break;
    case P_CN_MANT:
        d += " <component name=\"c\"><variable name=\"v\" units=\"dimensionless\"/>" + std::string(MATH_OPEN) + "<cn cellml:units=\"dimensionless\" type=\"e-notation\">" + s + "<sep/>1</cn></apply></math></component>\n";
        break;
    case P_CN_EEXP:
        d += " <component name=\"c\"><variable name=\"v\" units=\"dimensionless\"/>" + std::string(MATH_OPEN) + "<cn cellml:units=\"dimensionless\" type=\"e-notation\">1<sep/>" + s + "</cn></apply></math></component>\n";
        break;
    default: break;
    }
    d += "</model>\n";
    return d;
}

// ------------------------------------------------------------------------------------------------ reference recognisers
// Written from the property statement: a real is an optional minus sign, at least one decimal digit with at most one
// decimal point, optionally e|E and an optionally signed integer; an integer is an optional sign and one or more digits.
// A basic real is a real without the exponent part (CellML 2.0 "basic real number string", used inside cn).
struct Recognisers
{
    regex_t real, basic, integer, noDigitMantissa;
    Recognisers()
    {
        regcomp(&real, "^-?([0-9]+\\.?[0-9]*|\\.[0-9]+)([eE][+-]?[0-9]+)?$", REG_EXTENDED | REG_NOSUB);
        regcomp(&basic, "^-?([0-9]+\\.?[0-9]*|\\.[0-9]+)$", REG_EXTENDED | REG_NOSUB);
        regcomp(&integer, "^[+-]?[0-9]+$", REG_EXTENDED | REG_NOSUB);
        // input class of the known recogniser hole: sign and/or point but no digit before the (optional) exponent part
        regcomp(&noDigitMantissa, "^-?\\.?([eE][+-]?[0-9]+)?$", REG_EXTENDED | REG_NOSUB);
    }
};
const Recognisers &rx()
{
    static Recognisers r;
    return r;
}
bool matches(const regex_t &r, const std::string &s)
{
    if (s.find('\n') != std::string::npos || s.find('\0') != std::string::npos) {
        return false; // POSIX anchors and C strings; neither character is a grammar symbol
    }
    return regexec(&r, s.c_str(), 0, nullptr, 0) == 0;
}

struct Ref
{
    bool real = false, basic = false, integer = false;
    double d = 0.0; // strtod value when real
    bool dRange = false, dOverflow = false; // ERANGE reported by strtod; result infinite
    long long ll = 0; // strtoll value when integer
    bool intOut = false; // outside int
};
Ref reference(const std::string &s)
{
    Ref r;
    r.real = matches(rx().real, s);
    r.basic = matches(rx().basic, s);
    r.integer = matches(rx().integer, s);
    if (r.real) {
        errno = 0;
        r.d = strtod(s.c_str(), nullptr);
        r.dRange = errno == ERANGE;
        r.dOverflow = std::isinf(r.d);
    }
    if (r.integer) {
        errno = 0;
        r.ll = strtoll(s.c_str(), nullptr, 10);
        r.intOut = errno == ERANGE || r.ll > INT_MAX || r.ll < INT_MIN;
    }
    return r;
}

std::string strip(const std::string &s)
{
    // what the XML layer does for cn text (XmlNode::convertToStrippedString: isspace on both ends)
    size_t a = 0, b = s.size();
    while (a < b && isspace(static_cast<unsigned char>(s[a])) != 0) {
        ++a;
    }
    while (b > a && isspace(static_cast<unsigned char>(s[b - 1])) != 0) {
        --b;
    }
    return s.substr(a, b - a);
}

// Coarse, stable shape of a string for signatures: digit runs -> D, blank -> _, non-ASCII -> U, the rest literal.
std::string shapeOf(const std::string &s)
{
    std::string o;
    for (unsigned char ch : s) {
        char k = ch >= '0' && ch <= '9' ? 'D' : (ch == ' ' ? '_' : (ch >= 0x80 ? 'U' : (ch < 0x20 ? '^' : static_cast<char>(ch))));
        if ((k == 'D' || k == 'U') && !o.empty() && o.back() == k) {
            continue;
        }
        o += k;
    }
    if (o.size() > 12) {
        o = o.substr(0, 12) + "~";
    }
    return o.empty() ? "empty" : o;
}

// ------------------------------------------------------------------------------------------------ observation of the library
struct Obs
{
    bool ran = false;
    bool threw = false;
    std::string stage; // service that was running when the exception escaped
    std::string what; // exception type
    int ruleParser = 0, ruleValidator = 0, other = 0; // issues citing the position's rule (parser / validator), other issues
    bool modelNull = false, itemMissing = false, orderSet = false;
    double d = 0.0;
    int i = 0;
    std::string s;
    std::string monitor; // C15 logger coherence
};

std::string typeName(const std::exception &e)
{
    int st = 0;
    char *n = abi::__cxa_demangle(typeid(e).name(), nullptr, nullptr, &st);
    std::string r = st == 0 && n != nullptr ? n : typeid(e).name();
    free(n);
    return r;
}

void countIssues(const LoggerPtr &lg, Issue::ReferenceRule rule, int &ruleCount, int &other)
{
    for (size_t k = 0; k < lg->issueCount(); ++k) {
        if (lg->issue(k)->referenceRule() == rule) {
            ++ruleCount;
        } else {
            ++other;
        }
    }
}

// Fresh-state observation (true): thread-global state a fresh process would not have is cleared before each document
// (errno; libxml2's keep-blanks default is always restored). False while a history is in effect (see "history").
bool gFreshState = true;

Obs observe(const std::string &s, int p, int aug = 0)
{
    Obs o;
    o.ran = true;
    xmlKeepBlanksDefault(1); // hidden-state reset (DESIGN 2.7)
    if (gFreshState) {
        errno = 0;
    }
    const std::string doc = document(s, p, aug);
    const Issue::ReferenceRule rule = ruleOf(p);
    o.stage = "Parser";
    try {
        auto parser = Parser::create(true);
        ModelPtr m = parser->parseModel(doc);
        countIssues(parser, rule, o.ruleParser, o.other);
        o.monitor = checkLogger(parser);
        if (m == nullptr) {
            o.modelNull = true;
            return o;
        }
        switch (p) {
        case P_EXP:
        case P_MULT:
        case P_PREFIX: {
            auto u = m->units("u");
            const size_t last = aug != 0 ? 1 : 0;
            if (u == nullptr || u->unitCount() != last + 1) {
                o.itemMissing = true;
            } else {
                o.d = p == P_EXP ? u->unitAttributeExponent(last) : u->unitAttributeMultiplier(last);
                o.s = u->unitAttributePrefix(last);
            }
            break;
        }
        case P_ORDER: {
            auto cmp = m->component("c");
            if (cmp == nullptr || cmp->resetCount() != 1) {
                o.itemMissing = true;
            } else {
                o.orderSet = cmp->reset(0)->isOrderSet();
                o.i = cmp->reset(0)->order();
            }
            break;
        }
        case P_INIT: {
            auto cmp = m->component("c");
            if (cmp == nullptr || cmp->variable("v") == nullptr) {
                o.itemMissing = true;
            } else {
                o.s = cmp->variable("v")->initialValue();
            }
            break;
        }
        default: {
            auto cmp = m->component("c");
            if (cmp == nullptr || cmp->math().empty()) {
                o.itemMissing = true;
            }
            break;
        }
        }
        o.stage = "Validator";
        auto validator = Validator::create();
        validator->validateModel(m);
        countIssues(validator, rule, o.ruleValidator, o.other);
        if (o.monitor.empty()) {
            o.monitor = checkLogger(validator);
        }
        o.stage.clear();
    } catch (const std::exception &e) {
        o.threw = true;
        o.what = typeName(e);
    } catch (...) {
        o.threw = true;
        o.what = "non-std-exception";
    }
    return o;
}

// ------------------------------------------------------------------------------------------------ oracle
struct Failure
{
    std::string sig, msg;
};

std::string show(const std::string &s)
{
    return "\"" + s + "\"";
}

std::string fmt17(double v)
{
    char b[64];
    snprintf(b, sizeof b, "%.17g", v);
    return b;
}

bool sameDouble(double a, double b)
{
    return a == b; // -0.0 == 0.0 is accepted; NaN never is
}

// <cn type="e-notation">m<sep/>e</cn> denotes m x 10^e: true when both parts are fine and the number is outside double.
bool combinedOverflows(const std::string &m, const std::string &e)
{
    errno = 0;
    double v = strtod((m + "e" + e).c_str(), nullptr);
    return errno == ERANGE && std::isinf(v);
}

// Judges one (string, position) observation. Class label parts are returned through refV / libV.
void judge(const std::string &raw, int p, const Obs &o, std::vector<Failure> &fails, std::string &refV, std::string &libV, std::map<std::string, long> &notes)
{
    const std::string pos = POS_NAME[p];
    // What the recogniser is given: cn text is stripped by the XML layer, attribute values are not.
    const std::string t = isCnPos(p) ? strip(raw) : raw;
    const Ref r = reference(t);
    const bool wantInt = p == P_PREFIX || p == P_ORDER || p == P_CN_EEXP;
    const int issues = o.ruleParser + o.ruleValidator;
    const std::string where = pos + " = " + show(raw) + (t != raw ? " (stripped " + show(t) + ")" : "");

    if (o.threw) {
        libV = "throw";
        refV = wantInt ? (r.integer ? "integer" : "not-integer") : (r.real ? "real" : "not-real");
        std::string cls = matches(rx().noDigitMantissa, t) && !t.empty() ? "mantissa-without-digit" : "shape:" + shapeOf(t);
        fails.push_back({"C16.throw|" + pos + "|" + o.stage + "|" + o.what + "|" + cls, o.what + " escaped " + o.stage + " for " + where});
        return;
    }
    if (!o.monitor.empty()) {
        fails.push_back({"C15.monitor|C16|" + pos + "|" + o.monitor.substr(0, o.monitor.find('|')), o.monitor + " for " + where});
    }
    if (o.modelNull || o.itemMissing) {
        libV = "no-model";
        fails.push_back({"C16.harness|" + pos + "|document-not-loaded", "the carrier document did not yield the expected object for " + where});
        return;
    }
    libV = issues > 0 ? "issue" : "silent";

    // The empty string is judged like every other string, also where the object model cannot tell an empty attribute
    // from an absent one (prefix, initial_value): it is numeric text in a numeric position and not a number.

    if (wantInt) {
        if (!r.integer) {
            refV = "not-integer";
            if (issues == 0) {
                fails.push_back({"C16.false-accept|" + pos + "|" + shapeOf(t), "not an integer by the grammar but no issue cites the rule: " + where});
            }
            return;
        }
        if (r.intOut) {
            refV = "integer-out-of-range";
            if (issues == 0) {
                fails.push_back({"C16.range-unreported|" + pos, "integer outside int but no issue cites the rule: " + where});
            }
            return;
        }
        if (p == P_CN_EEXP && combinedOverflows("1", t)) {
            // significand and exponent are fine one by one, the number they denote is outside double
            refV = "integer-combined-overflow";
            if (issues == 0) {
                fails.push_back({"C16.range-unreported|" + pos + "|combined-value", "1 x 10^" + t + " is outside double but no issue cites the rule: " + where});
            }
            return;
        }
        refV = "integer";
        if (issues > 0) {
            fails.push_back({"C16.false-reject|" + pos + "|" + shapeOf(t), "an integer by the grammar but " + std::to_string(issues) + " issue(s) cite the rule: " + where});
            return;
        }
        if (p == P_ORDER) {
            if (!o.orderSet || o.i != static_cast<int>(r.ll)) {
                fails.push_back({"C16.value|" + pos, "order read back " + (o.orderSet ? std::to_string(o.i) : std::string("unset")) + ", expected " + std::to_string(r.ll) + " for " + where});
            }
        } else if (p == P_PREFIX) {
            // Units::addUnit keeps the text, except that a zero prefix is dropped.
            bool okText = o.s == t || (r.ll == 0 && o.s.empty());
            if (!okText) {
                fails.push_back({"C16.value|" + pos, "prefix read back " + show(o.s) + " for " + where});
            }
        }
        return;
    }

    // real positions
    if (!r.real) {
        refV = "not-real";
        if (issues == 0) {
            std::string cls = matches(rx().noDigitMantissa, t) && !t.empty() ? "mantissa-without-digit" : shapeOf(t);
            fails.push_back({"C16.false-accept|" + pos + "|" + cls, "not a real by the grammar but no issue cites the rule: " + where});
        }
        return;
    }
    if (isCnPos(p) && !r.basic) {
        // real \ basic inside cn: the specification wants the exponent behind <sep/>; the statement folds both into
        // "cn content". Neither verdict is judged.
        refV = "real-not-basic";
        ++notes["not_judged:real-but-not-basic-in-cn:" + pos];
        return;
    }
    if (p == P_CN_MANT && r.basic && !r.dRange && combinedOverflows(t, "1")) {
        refV = "real-combined-overflow";
        if (issues == 0) {
            fails.push_back({"C16.range-unreported|" + pos + "|combined-value", "the significand times 10^1 is outside double but no issue cites the rule: " + where});
        }
        return;
    }
    if (r.dRange) {
        refV = r.dOverflow ? "real-overflow" : "real-underflow";
        if (p == P_INIT && issues == 0 && o.s != t) {
            // the text is kept as text by the object model
            fails.push_back({"C16.value|" + pos, "initial value read back " + show(o.s) + " for " + where});
            return;
        }
        if (issues > 0) {
            return; // reported as out of range
        }
        if (r.dOverflow) {
            fails.push_back({"C16.range-unreported|" + pos, "real outside double but no issue cites the rule: " + where});
            return;
        }
        // underflow: silently converted is fine when the value is the corresponding (tiny) double
        if ((p == P_EXP || p == P_MULT) && !sameDouble(o.d, r.d)) {
            fails.push_back({"C16.value|" + pos, "read back " + fmt17(o.d) + ", expected " + fmt17(r.d) + " for " + where});
        }
        return;
    }
    refV = r.basic ? "real-basic" : "real-exponent";
    if (issues > 0) {
        fails.push_back({"C16.false-reject|" + pos + "|" + shapeOf(t), "a real by the grammar but " + std::to_string(issues) + " issue(s) cite the rule: " + where});
        return;
    }
    if (p == P_EXP || p == P_MULT) {
        if (!sameDouble(o.d, r.d)) {
            fails.push_back({"C16.value|" + pos, "read back " + fmt17(o.d) + ", expected " + fmt17(r.d) + " for " + where});
        }
    } else if (p == P_INIT) {
        if (o.s != t) {
            fails.push_back({"C16.value|" + pos, "initial value read back " + show(o.s) + " for " + where});
        }
    }
}

// ------------------------------------------------------------------------------------------------ alphabets and enumeration
const char ALPHA10[10] = {'0', '1', '9', '+', '-', '.', 'e', 'E', ' ', 'a'};

std::string gMode = "rc";
int gLenAttr = 5; // exhaustive bound for the five attribute positions
int gLenCn = 5; // exhaustive bound for the three cn positions
long gRawBound = 0;
int gLenHistory = 2; // exhaustive mode: strings up to this length are also enumerated with every history
bool gBatchCn = false; // exhaustive mode: many cn elements per document (see observeCnBatch)

// index of a string in the enumeration order of the exhaustive driver (by length, then lexicographic in symbol index)
uint64_t indexOfSymbols(const std::vector<int> &sym)
{
    uint64_t off = 0, pw = 1;
    for (size_t k = 0; k < sym.size(); ++k) {
        off += pw;
        pw *= 10;
    }
    uint64_t v = 0;
    for (int x : sym) {
        v = v * 10 + static_cast<uint64_t>(x);
    }
    return off + v;
}
std::string stringOfIndex(uint64_t idx)
{
    size_t len = 0;
    uint64_t pw = 1;
    while (idx >= pw) {
        idx -= pw;
        pw *= 10;
        ++len;
    }
    std::string s(len, '0');
    for (size_t k = len; k-- > 0;) {
        s[k] = ALPHA10[idx % 10];
        idx /= 10;
    }
    return s;
}
uint64_t countUpTo(int len)
{
    uint64_t n = 0, pw = 1;
    for (int k = 0; k <= len; ++k) {
        n += pw;
        pw *= 10;
    }
    return n;
}
unsigned positionMask(size_t len)
{
    if (gMode != "ex") {
        return (1u << NPOS) - 1;
    }
    unsigned m = 0;
    for (int p = 0; p < NPOS; ++p) {
        if (static_cast<int>(len) <= (isCnPos(p) ? gLenCn : gLenAttr)) {
            m |= 1u << p;
        }
    }
    return m;
}

// ------------------------------------------------------------------------------------------------ worker pool (exhaustive mode only)
// The exhaustive driver is a single process. The library work of the enumeration (8 documents per string, three of them
// with a MathML DTD validation of ~1.5 ms) is farmed out to forked children: child j observes strings j, j+n, j+2n, ...
// in enumeration order and streams the observations through a pipe; the predicate of string i reads the record from
// child i mod n and applies the oracle. The outcome of a case is still a pure function of its tape: a replay (or a
// dead child) computes the same observations in-process.
struct Pool
{
    bool started = false;
    std::vector<int> fd;
    std::vector<bool> alive;
    std::vector<uint64_t> next; // next index each child will deliver
};
Pool gPool;

void put(std::string &b, const void *p, size_t n)
{
    b.append(static_cast<const char *>(p), n);
}
void putStr(std::string &b, const std::string &s)
{
    uint32_t n = static_cast<uint32_t>(s.size());
    put(b, &n, 4);
    b += s;
}
std::string packObs(const Obs &o)
{
    std::string b;
    unsigned char flags = static_cast<unsigned char>((o.ran ? 1 : 0) | (o.threw ? 2 : 0) | (o.modelNull ? 4 : 0) | (o.itemMissing ? 8 : 0) | (o.orderSet ? 16 : 0));
    put(b, &flags, 1);
    int32_t v[4] = {o.ruleParser, o.ruleValidator, o.other, o.i};
    put(b, v, sizeof v);
    put(b, &o.d, sizeof o.d);
    putStr(b, o.stage);
    putStr(b, o.what);
    putStr(b, o.s);
    putStr(b, o.monitor);
    return b;
}
bool getBytes(const std::string &b, size_t &at, void *p, size_t n)
{
    if (at + n > b.size()) {
        return false;
    }
    memcpy(p, b.data() + at, n);
    at += n;
    return true;
}
bool getStr(const std::string &b, size_t &at, std::string &s)
{
    uint32_t n = 0;
    if (!getBytes(b, at, &n, 4) || at + n > b.size()) {
        return false;
    }
    s.assign(b, at, n);
    at += n;
    return true;
}
bool unpackObs(const std::string &b, size_t &at, Obs &o)
{
    unsigned char flags = 0;
    int32_t v[4];
    if (!getBytes(b, at, &flags, 1) || !getBytes(b, at, v, sizeof v) || !getBytes(b, at, &o.d, sizeof o.d)) {
        return false;
    }
    o.ran = (flags & 1) != 0;
    o.threw = (flags & 2) != 0;
    o.modelNull = (flags & 4) != 0;
    o.itemMissing = (flags & 8) != 0;
    o.orderSet = (flags & 16) != 0;
    o.ruleParser = v[0];
    o.ruleValidator = v[1];
    o.other = v[2];
    o.i = v[3];
    return getStr(b, at, o.stage) && getStr(b, at, o.what) && getStr(b, at, o.s) && getStr(b, at, o.monitor);
}
bool writeAll(int fd, const char *p, size_t n)
{
    while (n > 0) {
        ssize_t w = write(fd, p, n);
        if (w <= 0) {
            if (w < 0 && errno == EINTR) {
                continue;
            }
            return false;
        }
        p += w;
        n -= static_cast<size_t>(w);
    }
    return true;
}
bool readAll(int fd, char *p, size_t n)
{
    while (n > 0) {
        ssize_t r = read(fd, p, n);
        if (r <= 0) {
            if (r < 0 && errno == EINTR) {
                continue;
            }
            return false;
        }
        p += r;
        n -= static_cast<size_t>(r);
    }
    return true;
}


// ---- batched cn positions (exhaustive enumeration only) ----
// One MathML block costs one parse of the MathML DTD (about 15 ms, 70 ms under ASan), whatever it contains. To make
// the complete length-5 space affordable, the cn positions of a chunk of strings are observed with many cn elements
// per document, grouped by what the reference expects: a document whose strings must all be accepted has to produce
// no MATH_CN_FORMAT issue (then every one of them was accepted), a document whose K strings must all be rejected has
// to produce exactly K (the validator reports at most one per cn element, so every one was rejected). A document with
// any other outcome (a different count, an exception, an incoherent logger) decides nothing: each of its strings is
// then observed in its own document, exactly as in a replay.
struct Chunk
{
    std::vector<std::string> strings;
    std::vector<unsigned> masks;
    std::vector<std::array<Obs, NPOS>> obs;
    long batchDocuments = 0, batchFallbacks = 0;
};

std::string cnElement(const std::string &s, int p)
{
    switch (p) {
    case P_CN_REAL: return "<cn cellml:units=\"dimensionless\">" + s + "</cn>";
    case P_CN_MANT: return "<cn cellml:units=\"dimensionless\" type=\"e-notation\">" + s + "<sep/>1</cn>";
    default: return "<cn cellml:units=\"dimensionless\" type=\"e-notation\">1<sep/>" + s + "</cn>";
    }
}

// 0 = must be accepted, 1 = must be rejected, 2 = not judged (see judge()), 3 = both parts fine but the combined e-notation
// value overflows: must be rejected; kept apart so that a library that accepts them all still gives a conclusive block
int cnExpectation(const std::string &raw, int p)
{
    const std::string t = strip(raw);
    const Ref r = reference(t);
    if (p == P_CN_EEXP) {
        if (r.integer && !r.intOut && combinedOverflows("1", t)) {
            return 3;
        }
        return r.integer && !r.intOut ? 0 : 1;
    }
    if (!r.real) {
        return 1;
    }
    if (!r.basic || (r.dRange && !r.dOverflow)) {
        return 2;
    }
    if (p == P_CN_MANT && !r.dRange && combinedOverflows(t, "1")) {
        return 3;
    }
    return r.dRange ? 1 : 0;
}

using CnMember = std::pair<size_t, int>; // (string number in the chunk, cn position)

void observeCnBatch(Chunk &ch, const std::vector<CnMember> &members, int expectation)
{
    if (members.empty()) {
        return;
    }
    bool clean = false;
    int count = 0, other = 0;
    if (members.size() > 1) {
        ++ch.batchDocuments;
        xmlKeepBlanksDefault(1);
        if (gFreshState) {
            errno = 0;
        }
        std::string d = HDR;
        d += " <component name=\"c\"><variable name=\"v\" units=\"dimensionless\"/><math xmlns=\"http://www.w3.org/1998/Math/MathML\" xmlns:cellml=\"http://www.cellml.org/cellml/2.0#\">";
        for (const auto &m : members) {
            d += "<apply><eq/><ci>v</ci>" + cnElement(ch.strings[m.first], m.second) + "</apply>\n";
        }
        d += "</math></component>\n</model>\n";
        try {
            auto parser = Parser::create(true);
            ModelPtr m = parser->parseModel(d);
            int parserRule = 0;
            countIssues(parser, Issue::ReferenceRule::MATH_CN_FORMAT, parserRule, other);
            if (m != nullptr && m->component("c") != nullptr && !m->component("c")->math().empty() && parserRule == 0 && checkLogger(parser).empty()) {
                auto validator = Validator::create();
                validator->validateModel(m);
                countIssues(validator, Issue::ReferenceRule::MATH_CN_FORMAT, count, other);
                const int k = static_cast<int>(members.size());
                clean = checkLogger(validator).empty() && (expectation == 0 ? count == 0 : (expectation == 1 ? count == k : (count == 0 || count == k)));
            }
        } catch (...) {
            clean = false;
        }
    }
    if (clean) {
        for (const auto &m : members) {
            Obs &o = ch.obs[m.first][static_cast<size_t>(m.second)];
            o = Obs();
            o.ran = true;
            o.ruleValidator = count == 0 ? 0 : 1;
            o.other = other;
        }
        return;
    }
    if (members.size() > 1) {
        ++ch.batchFallbacks;
    }
    for (const auto &m : members) {
        ch.obs[m.first][static_cast<size_t>(m.second)] = observe(ch.strings[m.first], m.second);
    }
}

void observeChunk(Chunk &ch, bool batchCn)
{
    ch.obs.assign(ch.strings.size(), std::array<Obs, NPOS>());
    std::vector<CnMember> group[4];
    for (size_t k = 0; k < ch.strings.size(); ++k) {
        for (int p = 0; p < NPOS; ++p) {
            if ((ch.masks[k] & (1u << p)) == 0) {
                continue;
            }
            if (batchCn && isCnPos(p)) {
                group[cnExpectation(ch.strings[k], p)].push_back({k, p});
            } else {
                ch.obs[k][static_cast<size_t>(p)] = observe(ch.strings[k], p);
            }
        }
    }
    for (int e = 0; e < 4; ++e) {
        observeCnBatch(ch, group[e], e);
    }
}

// One string outside the pool (random tier, replay, lost pool child): the cn positions the reference expects to behave
// alike share a document (typically one or two MathML blocks instead of three).
void observeAll(const std::string &s, unsigned mask, Obs out[NPOS], Case &c)
{
    Chunk ch;
    ch.strings.push_back(s);
    ch.masks.push_back(mask);
    observeChunk(ch, gMode != "ex" || gBatchCn);
    for (int p = 0; p < NPOS; ++p) {
        out[p] = ch.obs[0][static_cast<size_t>(p)];
    }
    if (ch.batchDocuments != 0) {
        c.count("cn_batch_documents", ch.batchDocuments);
    }
    if (ch.batchFallbacks != 0) {
        c.count("cn_batch_documents_inconclusive_rerun_per_string", ch.batchFallbacks);
    }
}

void startPool()
{
    gPool.started = true;
    long n = 16;
    if (const char *e = getenv("VERIF_C16_POOL")) {
        n = atol(e);
    } else if (const char *c = getenv("VERIF_CORES")) {
        n = atol(c);
    }
    if (n < 2) {
        return; // in-process
    }
    const uint64_t total = countUpTo(std::max(gLenAttr, gLenCn));
    const uint64_t stride = static_cast<uint64_t>(n);
    const size_t chunkSize = gBatchCn ? 64 : 1;
    signal(SIGPIPE, SIG_IGN);
    fflush(nullptr);
    gPool.fd.assign(static_cast<size_t>(n), -1);
    gPool.alive.assign(static_cast<size_t>(n), false);
    gPool.next.assign(static_cast<size_t>(n), 0);
    for (long j = 0; j < n; ++j) {
        int pfd[2];
        if (pipe(pfd) != 0) {
            break;
        }
        pid_t pid = fork();
        if (pid < 0) {
            close(pfd[0]);
            close(pfd[1]);
            break;
        }
        if (pid == 0) {
            close(pfd[0]);
            for (int f : gPool.fd) {
                if (f >= 0) {
                    close(f);
                }
            }
            signal(SIGALRM, SIG_DFL);
            uint64_t idx = static_cast<uint64_t>(j);
            bool open = true;
            while (open && idx < total) {
                Chunk ch;
                std::vector<uint64_t> ids;
                for (; ids.size() < chunkSize && idx < total; idx += stride) {
                    ids.push_back(idx);
                    ch.strings.push_back(stringOfIndex(idx));
                    ch.masks.push_back(positionMask(ch.strings.back().size()));
                }
                observeChunk(ch, gBatchCn);
                for (size_t k = 0; open && k < ids.size(); ++k) {
                    std::string body;
                    put(body, &ids[k], sizeof ids[k]);
                    int32_t extra[2] = {k == 0 ? static_cast<int32_t>(ch.batchDocuments) : 0, k == 0 ? static_cast<int32_t>(ch.batchFallbacks) : 0};
                    put(body, extra, sizeof extra);
                    for (int p = 0; p < NPOS; ++p) {
                        body += packObs(ch.obs[k][static_cast<size_t>(p)]);
                    }
                    uint32_t len = static_cast<uint32_t>(body.size());
                    std::string rec;
                    put(rec, &len, 4);
                    rec += body;
                    open = writeAll(pfd[1], rec.data(), rec.size()); // false: the driver has gone (violation found or finished)
                }
            }
            _exit(0);
        }
        close(pfd[1]);
        gPool.fd[static_cast<size_t>(j)] = pfd[0];
        gPool.alive[static_cast<size_t>(j)] = true;
        gPool.next[static_cast<size_t>(j)] = static_cast<uint64_t>(j);
    }
}

// Observations of string number idx of the enumeration, from the pool when possible.
void fetch(uint64_t idx, const std::string &s, unsigned mask, Obs out[NPOS], Case &c)
{
    if (gMode == "ex") {
        if (!gPool.started) {
            startPool();
        }
        const size_t n = gPool.fd.size();
        if (n > 0) {
            size_t j = static_cast<size_t>(idx % n);
            if (gPool.alive[j] && gPool.next[j] == idx) {
                uint32_t len = 0;
                std::string body;
                bool ok = readAll(gPool.fd[j], reinterpret_cast<char *>(&len), 4) && len < (1u << 20);
                if (ok) {
                    body.resize(len);
                    ok = readAll(gPool.fd[j], &body[0], len);
                }
                uint64_t got = 0;
                int32_t extra[2] = {0, 0};
                size_t at = 0;
                ok = ok && getBytes(body, at, &got, sizeof got) && got == idx && getBytes(body, at, extra, sizeof extra);
                for (int p = 0; ok && p < NPOS; ++p) {
                    ok = unpackObs(body, at, out[p]);
                }
                if (ok) {
                    gPool.next[j] += n;
                    if (extra[0] != 0) {
                        c.count("cn_batch_documents", extra[0]);
                    }
                    if (extra[1] != 0) {
                        c.count("cn_batch_documents_inconclusive_rerun_per_string", extra[1]);
                    }
                    return;
                }
                gPool.alive[j] = false; // child died (or garbled stream): compute here, a crash then has the right *.cur
                c.count("pool_child_lost");
            }
        }
    }
    observeAll(s, mask, out, c);
}

// ------------------------------------------------------------------------------------------------ global C++ locale
// What an application on a de_DE / fr_FR system gets after std::locale::global(std::locale("")): decimal comma and
// digit grouping. Only the C locale is installed here, so an equivalent numpunct facet is installed instead (an unnamed
// locale: setlocale() and therefore strtod are untouched). Number *output* of the library must not follow it.
struct CommaGrouping: std::numpunct<char>
{
    char do_decimal_point() const override { return ','; }
    char do_thousands_sep() const override { return '.'; }
    std::string do_grouping() const override { return "\3"; }
};
struct GlobalLocaleGuard
{
    bool on;
    explicit GlobalLocaleGuard(bool install)
        : on(install)
    {
        if (on) {
            std::locale::global(std::locale(std::locale::classic(), new CommaGrouping));
        }
    }
    ~GlobalLocaleGuard()
    {
        if (on) {
            std::locale::global(std::locale::classic());
        }
    }
};

// ------------------------------------------------------------------------------------------------ history
// Recognition must be a function of the text. Besides the fresh-state observation (phase A) a case may carry a *history*,
// chosen by its own tape so that a replay in a fresh process reproduces it:
//   range-error-before         : 1..3 other documents / API models whose numeric texts underflow, overflow or exceed int
//                                go through Parser, Validator, Printer, Analyser, Generator first, in the same process,
//                                then the placements are observed again without clearing anything (phase B);
//   same-document-range-error  : phase B observes the placement in a document that also contains such a text.
// Phase B must agree with phase A in verdict and value, and with the reference.
struct HistoryPlan
{
    int cls = 0; // 0 none, 1 range-error-before, 2 same-document-range-error
    std::vector<int> entries; // catalogue numbers (cls 1)
    int aug = 0; // 1..3 (cls 2)
    unsigned maskB = 0; // positions observed again
};
const char *const HISTORY_CLASS[3] = {"none", "range-error-before", "same-document-range-error"};
const int N_HISTORY = 10, N_HISTORY_CHEAP = 7; // the first seven need no MathML block
const char *const HISTORY_NAME[N_HISTORY] = {"exponent-overflow", "multiplier-underflow", "order-huge-integer", "prefix-huge-integer", "printer-subnormal-reparsed", "multiplier-overflow+prefix-beyond-int", "global-numpunct-locale",
                                             "cn-overflow", "cn-e-notation-exponent-huge", "analyser-generator-tiny-initial-value"};

std::string historyLabel(const HistoryPlan &h)
{
    if (h.cls == 2) {
        return "augment-" + std::to_string(h.aug);
    }
    std::string l;
    for (int e : h.entries) {
        l += (l.empty() ? "" : "+") + std::string(HISTORY_NAME[e]);
    }
    return l.empty() ? "none" : l;
}

void parseAndValidate(const std::string &doc, bool analyse = false)
{
    auto parser = Parser::create(true);
    ModelPtr m = parser->parseModel(doc);
    if (m == nullptr) {
        return;
    }
    auto validator = Validator::create();
    validator->validateModel(m);
    if (analyse) {
        auto analyser = Analyser::create();
        analyser->analyseModel(m);
        if (analyser->model() != nullptr && analyser->model()->isValid()) {
            auto generator = Generator::create();
            generator->setModel(analyser->model());
            (void)generator->implementationCode();
        }
    }
}

// Runs one history entry. An exception escaping it is returned as a failure.
void runHistoryEntry(int e, std::vector<Failure> &fails)
{
    xmlKeepBlanksDefault(1);
    const std::string big(400, '0');
    try {
        switch (e) {
        case 0: parseAndValidate(std::string(HDR) + " <units name=\"h\"><unit units=\"second\" exponent=\"1e999\"/></units>\n</model>\n"); break;
        case 1: parseAndValidate(std::string(HDR) + " <units name=\"h\"><unit units=\"second\" multiplier=\"1e-320\"/></units>\n</model>\n"); break;
        case 2: parseAndValidate(std::string(HDR) + " <component name=\"c\"><variable name=\"v\" units=\"dimensionless\"/><variable name=\"w\" units=\"dimensionless\"/><reset variable=\"v\" test_variable=\"w\" order=\"99999999999\"/></component>\n</model>\n"); break;
        case 3: parseAndValidate(std::string(HDR) + " <units name=\"h\"><unit units=\"second\" prefix=\"99999999999999999999\"/></units>\n</model>\n"); break;
        case 4: {
            auto m = Model::create("m");
            auto u = Units::create("h");
            u->addUnit("second", "", 4.9406564584124654e-324, 1e-310);
            m->addUnits(u);
            auto printer = Printer::create();
            std::string text = printer->printModel(m);
            xmlKeepBlanksDefault(1);
            if (!text.empty()) {
                parseAndValidate(text);
            }
            break;
        }
        case 5: parseAndValidate(std::string(HDR) + " <units name=\"h\"><unit units=\"second\" multiplier=\"-1e999\"/><unit units=\"metre\" prefix=\"2147483648\"/></units>\n</model>\n"); break;
        case 6:
            // stays in force while the placements are observed again; observePhaseB restores the classic locale
            std::locale::global(std::locale(std::locale::classic(), new CommaGrouping));
            break;
        case 7: parseAndValidate(std::string(HDR) + " <component name=\"c\"><variable name=\"v\" units=\"dimensionless\"/>" + MATH_OPEN + "<cn cellml:units=\"dimensionless\">1" + big + "</cn></apply></math></component>\n</model>\n"); break;
        case 8: parseAndValidate(std::string(HDR) + " <component name=\"c\"><variable name=\"v\" units=\"dimensionless\"/>" + MATH_OPEN + "<cn cellml:units=\"dimensionless\" type=\"e-notation\">1<sep/>99999999999</cn></apply></math></component>\n</model>\n"); break;
        default:
            parseAndValidate(std::string(HDR) + " <component name=\"c\"><variable name=\"t\" units=\"dimensionless\"/><variable name=\"x\" units=\"dimensionless\" initial_value=\"1e-320\"/>"
                                                "<math xmlns=\"http://www.w3.org/1998/Math/MathML\" xmlns:cellml=\"http://www.cellml.org/cellml/2.0#\"><apply><eq/><apply><diff/><bvar><ci>t</ci></bvar><ci>x</ci></apply>"
                                                "<cn cellml:units=\"dimensionless\" type=\"e-notation\">4.9<sep/>-324</cn></apply></math></component>\n</model>\n",
                             true);
            break;
        }
    } catch (const std::exception &ex) {
        fails.push_back({"C16.throw|history:" + std::string(HISTORY_NAME[e]) + "|" + typeName(ex), typeName(ex) + " escaped while the history entry " + HISTORY_NAME[e] + " went through the services"});
    } catch (...) {
        fails.push_back({"C16.throw|history:" + std::string(HISTORY_NAME[e]) + "|non-std-exception", "exception escaped while the history entry went through the services"});
    }
}

// Everything observed for one string case.
struct Observed
{
    Obs a[NPOS]; // fresh state
    Obs b[NPOS]; // after / within the history
    std::vector<Failure> historyFails;
    long batchDocuments = 0, batchFallbacks = 0;
};

void observePhaseA(const std::string &s, unsigned mask, Observed &r)
{
    gFreshState = true;
    Chunk ch;
    ch.strings.push_back(s);
    ch.masks.push_back(mask);
    observeChunk(ch, gMode != "ex" || gBatchCn);
    for (int p = 0; p < NPOS; ++p) {
        r.a[p] = ch.obs[0][static_cast<size_t>(p)];
    }
    r.batchDocuments += ch.batchDocuments;
    r.batchFallbacks += ch.batchFallbacks;
}

void observePhaseB(const std::string &s, const HistoryPlan &h, Observed &r)
{
    if (h.cls == 0) {
        return;
    }
    errno = 0; // the case starts from the state of a fresh process ...
    gFreshState = false; // ... and nothing is cleared from here on
    if (h.cls == 1) {
        for (int e : h.entries) {
            runHistoryEntry(e, r.historyFails);
        }
    }
    for (int p = 0; p < NPOS; ++p) {
        if ((h.maskB & (1u << p)) != 0) {
            r.b[p] = observe(s, p, h.cls == 2 ? h.aug : 0);
        }
    }
    std::locale::global(std::locale::classic());
    gFreshState = true;
}

std::string packObserved(const Observed &r, bool withA)
{
    std::string b;
    unsigned char flag = withA ? 1 : 0;
    put(b, &flag, 1);
    for (int p = 0; withA && p < NPOS; ++p) {
        b += packObs(r.a[p]);
    }
    for (int p = 0; p < NPOS; ++p) {
        b += packObs(r.b[p]);
    }
    uint32_t n = static_cast<uint32_t>(r.historyFails.size());
    put(b, &n, 4);
    for (const auto &f : r.historyFails) {
        putStr(b, f.sig);
        putStr(b, f.msg);
    }
    int64_t v[2] = {r.batchDocuments, r.batchFallbacks};
    put(b, v, sizeof v);
    return b;
}
bool unpackObserved(const std::string &b, Observed &r)
{
    size_t at = 0;
    unsigned char flag = 0;
    if (!getBytes(b, at, &flag, 1)) {
        return false;
    }
    for (int p = 0; flag != 0 && p < NPOS; ++p) {
        if (!unpackObs(b, at, r.a[p])) {
            return false;
        }
    }
    for (int p = 0; p < NPOS; ++p) {
        if (!unpackObs(b, at, r.b[p])) {
            return false;
        }
    }
    uint32_t n = 0;
    if (!getBytes(b, at, &n, 4) || n > 64) {
        return false;
    }
    r.historyFails.clear();
    for (uint32_t k = 0; k < n; ++k) {
        Failure f;
        if (!getStr(b, at, f.sig) || !getStr(b, at, f.msg)) {
            return false;
        }
        r.historyFails.push_back(f);
    }
    int64_t v[2] = {0, 0};
    if (!getBytes(b, at, v, sizeof v)) {
        return false;
    }
    r.batchDocuments += v[0];
    r.batchFallbacks += v[1];
    return true;
}

// Process hygiene: the observation of a case runs in a forked child, so that nothing a case leaves behind in the
// process (errno is cleared anyway, but also static buffers, caches, locale) can reach the next case of this worker.
// A failure is then a function of the tape alone and reproduces in the fresh process of a replay (bin/check discards
// what does not). A dead child is not interpreted here: the observation is repeated in-process and the worker dies
// the ordinary way, with the right *.cur.
struct IsoArg
{
    const std::string *s;
    unsigned mask;
    const HistoryPlan *h;
    bool withA;
    int wfd;
};
void isoFn(void *arg)
{
    auto *a = static_cast<IsoArg *>(arg);
    Observed r;
    if (a->withA) {
        observePhaseA(*a->s, a->mask, r);
    }
    observePhaseB(*a->s, *a->h, r);
    std::string body = packObserved(r, a->withA);
    uint32_t len = static_cast<uint32_t>(body.size());
    std::string rec;
    put(rec, &len, 4);
    rec += body;
    writeAll(a->wfd, rec.data(), rec.size());
}
bool observeIsolated(const std::string &s, unsigned mask, const HistoryPlan &h, bool withA, Observed &r)
{
    int pfd[2];
    if (pipe(pfd) != 0) {
        return false;
    }
    // the record must fit the pipe buffer, the child writes before the parent reads
    fcntl(pfd[1], F_SETPIPE_SZ, 1 << 20);
    IsoArg a{&s, mask, &h, withA, pfd[1]};
    std::string diag;
    int rc = runIsolated(isoFn, &a, 0, &diag);
    close(pfd[1]);
    bool ok = rc == 0;
    if (ok) {
        uint32_t len = 0;
        ok = readAll(pfd[0], reinterpret_cast<char *>(&len), 4) && len < (1u << 20);
        std::string body(ok ? len : 0, '\0');
        ok = ok && readAll(pfd[0], &body[0], len) && unpackObserved(body, r);
    }
    close(pfd[0]);
    return ok;
}

bool sameObservation(const Obs &x, const Obs &y, std::string &what)
{
    if (x.threw != y.threw) {
        what = y.threw ? "throws" : "no-longer-throws";
    } else if ((x.ruleParser + x.ruleValidator > 0) != (y.ruleParser + y.ruleValidator > 0)) {
        what = (y.ruleParser + y.ruleValidator > 0) ? "accepted-then-rejected" : "rejected-then-accepted";
    } else if (x.modelNull != y.modelNull || x.itemMissing != y.itemMissing) {
        what = "document-loading-changed";
    } else if (memcmp(&x.d, &y.d, sizeof x.d) != 0 && !(x.d == y.d) || x.i != y.i || x.orderSet != y.orderSet || x.s != y.s) {
        what = "value-changed";
    } else {
        return true;
    }
    return false;
}

// ------------------------------------------------------------------------------------------------ string cases
uint64_t gCachedIdx = ~0ULL;
Obs gCachedObs[NPOS];

void stringCase(Case &c, const std::string &kind, const std::string &s, bool exhaustiveIndexed, uint64_t idx, const HistoryPlan &h)
{
    const unsigned mask = positionMask(s.size());
    Observed r;
    bool countA = true;
    if (exhaustiveIndexed) {
        // phase A from the pool (each string once; its history variants follow it immediately in enumeration order)
        if (idx != gCachedIdx) {
            fetch(idx, s, mask, gCachedObs, c);
            gCachedIdx = idx;
        } else {
            countA = false; // a history variant of the string just enumerated: its fresh-state observation is already counted
        }
        for (int p = 0; p < NPOS; ++p) {
            r.a[p] = gCachedObs[p];
        }
        if (h.cls != 0 && !observeIsolated(s, mask, h, false, r)) {
            c.count("isolated_child_lost");
            observePhaseB(s, h, r);
        }
    } else if (gMode == "rc") {
        if (!observeIsolated(s, mask, h, true, r)) {
            c.count("isolated_child_lost");
            r = Observed();
            observePhaseA(s, mask, r);
            observePhaseB(s, h, r);
        }
    } else {
        observePhaseA(s, mask, r);
        observePhaseB(s, h, r);
    }
    if (r.batchDocuments != 0) {
        c.count("cn_batch_documents", r.batchDocuments);
    }
    if (r.batchFallbacks != 0) {
        c.count("cn_batch_documents_inconclusive_rerun_per_string", r.batchFallbacks);
    }
    const std::string hclass = HISTORY_CLASS[h.cls], hlabel = historyLabel(h);
    c.text = kind + " string " + show(s) + " (length " + std::to_string(s.size()) + "), history " + hclass + (h.cls != 0 ? " [" + hlabel + "]" : "");
    c.hash = hashStr(s);
    c.weight = s.size();
    bool allDigits = !s.empty();
    for (unsigned char ch : s) {
        allDigits = allDigits && ch >= '0' && ch <= '9';
    }
    c.nontrivial = !s.empty() && !allDigits;
    c.cls("kind:" + kind);
    c.cls("history:" + hclass);
    if (h.cls == 1) {
        for (int e : h.entries) {
            c.cls("history-entry:" + std::string(HISTORY_NAME[e]));
        }
    }
    std::vector<Failure> fails = r.historyFails;
    std::map<std::string, long> notes;
    long positions = 0, positionsB = 0;
    for (int p = 0; p < NPOS; ++p) {
        if (!r.a[p].ran) {
            continue;
        }
        ++positions;
        std::string refV, libV;
        size_t before = fails.size();
        judge(s, p, r.a[p], fails, refV, libV, notes);
        c.cls(std::string(POS_NAME[p]) + ":" + refV + "/" + libV);
        c.text += "\n  " + std::string(POS_NAME[p]) + ": reference " + refV + ", library " + libV + (r.a[p].other > 0 ? " (+" + std::to_string(r.a[p].other) + " issue(s) of other rules)" : "") + (fails.size() > before ? "  <-- " + fails[before].sig : "");
        if (r.a[p].other > 0 && refV.compare(0, 4, "real") == 0 && libV == "silent") {
            c.count("accepted_with_issues_of_other_rules:" + std::string(POS_NAME[p]));
        }
        if (!r.b[p].ran) {
            continue;
        }
        ++positionsB;
        if (fails.size() > before) {
            continue; // already failing in the fresh state: reported as such
        }
        std::vector<Failure> failsB;
        std::map<std::string, long> notesB;
        std::string refB, libB, what;
        judge(s, p, r.b[p], failsB, refB, libB, notesB);
        const std::string where = std::string(POS_NAME[p]) + " = " + show(s) + " with history " + hclass + " [" + hlabel + "]";
        if (!failsB.empty()) {
            std::string oracle = failsB[0].sig.substr(0, failsB[0].sig.find('|'));
            fails.push_back({"C16.history|" + std::string(POS_NAME[p]) + "|" + hclass + "|" + hlabel + "|" + (oracle.compare(0, 4, "C16.") == 0 ? oracle.substr(4) : oracle),
                             "correct in a fresh state (library " + libV + "), wrong for " + where + ": " + failsB[0].sig + " :: " + failsB[0].msg});
        } else if (!sameObservation(r.a[p], r.b[p], what)) {
            fails.push_back({"C16.history|" + std::string(POS_NAME[p]) + "|" + hclass + "|" + hlabel + "|" + what, "the observation of " + where + " differs from the fresh-state one (library " + libV + " -> " + libB + ", " + what + ")"});
        }
        if (fails.size() > before) {
            c.text += "\n    after history: library " + libB + "  <-- " + fails[before].sig;
        }
    }
    if (countA) {
        c.count("string_position_evaluations", positions);
    }
    if (positionsB != 0) {
        c.count("string_position_evaluations_with_history", positionsB);
    }
    for (const auto &k : notes) {
        c.count(k.first, k.second);
    }
    // Report an unlisted failure before a listed one, so that a known finding in one position never hides a new one in another.
    const Failure *chosen = nullptr;
    for (const auto &f : fails) {
        bool known = knownFindingIndex(property.id, f.sig) >= 0;
        c.count(std::string(known ? "failed_positions_listed:" : "failed_positions_unlisted:") + f.sig.substr(0, f.sig.find('|')));
        if (chosen == nullptr || (knownFindingIndex(property.id, chosen->sig) >= 0 && !known)) {
            chosen = &f;
        }
    }
    if (chosen != nullptr) {
        std::string all;
        for (const auto &f : fails) {
            all += "\n  " + f.sig + " :: " + f.msg;
        }
        c.fail(chosen->sig, chosen->msg + "\nall failing positions of this string:" + all);
        for (const auto &f : fails) {
            if (&f != chosen) {
                c.alsoFailed.push_back({f.sig, f.msg}); // the driver counts listed ones and promotes an unlisted one
            }
        }
    }
}

// History choices of a string case; read after the string so that a tape without them means "none".
HistoryPlan genHistory(Src &src, size_t len)
{
    HistoryPlan h;
    const bool ex = gMode == "ex";
    if (ex && static_cast<int>(len) > gLenHistory) {
        return h;
    }
    h.cls = static_cast<int>(src.below(3));
    if (h.cls == 1) {
        // values 0..9 name the catalogue entry, 10..12 the first three again (entries with a MathML block stay at a quarter)
        auto entry = [&](uint64_t radix) {
            uint64_t v = src.below(radix);
            return static_cast<int>(v < static_cast<uint64_t>(N_HISTORY) ? v : v - static_cast<uint64_t>(N_HISTORY));
        };
        h.entries.push_back(entry(ex ? N_HISTORY_CHEAP : N_HISTORY + 3));
        uint64_t extra = src.below(ex ? 1 : 3);
        for (uint64_t k = 0; k < extra; ++k) {
            h.entries.push_back(entry(N_HISTORY + 3));
        }
    } else if (h.cls == 2) {
        h.aug = 1 + static_cast<int>(src.below(3));
    }
    if (h.cls != 0) {
        // the five attribute positions always; the cn positions (one MathML block each) in an eighth of the random cases
        h.maskB = (1u << P_CN_REAL) - 1;
        if (src.below(ex ? 1 : 8) == 7) {
            h.maskB = (1u << NPOS) - 1;
        }
    }
    return h;
}

// ------------------------------------------------------------------------------------------------ printer leg
const std::vector<double> &printerTable()
{
    static std::vector<double> t;
    if (t.empty()) {
        const double mant[] = {1.0, -1.0, 1.5, 1.23456789012345, -9.99999999999999, 2.5, 7.0e-1};
        const int dec[] = {0, 1, -1, 2, -2, 5, -5, 10, -10, 15, 16, 17, -15, -16, 20, -20, 50, -50, 100, -100, 200, -200, 300, -300};
        t.push_back(0.0);
        for (int e : dec) {
            for (double m : mant) {
                t.push_back(m * std::pow(10.0, e));
            }
        }
        const double extra[] = {0.1, 1.0 / 3.0, -2.0 / 3.0, 3.141592653589793, 1e15 + 0.3, 123456789012345.0, 1234567890123456.0, 0.5, 2.0, -3.0, 1e22, 1e23, 2.2250738585072014e-308, 4.9406564584124654e-324, 1e-310, 1.7976931348623157e308, 1.0e308, -1.7e308, 1.0000000000000002, 0.99999999999999989, HUGE_VAL, -HUGE_VAL, std::nan("")};
        for (double x : extra) {
            t.push_back(x);
        }
    }
    return t;
}
const std::vector<int> &orderTable()
{
    static const std::vector<int> t = {0, 1, -1, 9, -9, 10, 12345, -99999, 1000000000, INT_MAX, INT_MIN, INT_MAX - 1, INT_MIN + 1, 2147483, -2147483};
    return t;
}

std::string fmt15(double v)
{
    char b[64];
    snprintf(b, sizeof b, "%.14e", v); // 15 significant digits
    return b;
}

const char *const TARGET_NAME[3] = {"unit@exponent", "unit@multiplier", "reset@order"};

void printerCase(Case &c, const std::string &kind, int target, double value, int ivalue, bool facet)
{
    xmlKeepBlanksDefault(1);
    errno = 0;
    GlobalLocaleGuard localeGuard(facet); // "history": the application installed a comma/grouping locale before printing
    const std::string loc = facet ? "|global-locale" : "";
    const bool nonFinite = target != 2 && !std::isfinite(value);
    const std::string tn = TARGET_NAME[target];
    // Magnitude class. What the 15-significant-digit text of the value does in strtod separates the two ends of the
    // double range where a 15-digit decimal cannot come back: it rounds above DBL_MAX, or it is (or rounds to) a
    // subnormal number, for which strtod reports ERANGE.
    std::string magnitude = "int";
    if (target != 2) {
        char b15[64];
        snprintf(b15, sizeof b15, "%.15g", value);
        errno = 0;
        double back = strtod(b15, nullptr);
        bool erange = errno == ERANGE;
        magnitude = nonFinite ? (std::isnan(value) ? "nan" : "inf") : value == 0.0 ? "zero" : (erange && std::isinf(back) ? "rounds-above-max" : (erange || std::fpclassify(value) == FP_SUBNORMAL ? "subnormal" : (std::fabs(value) >= 1e15 || std::fabs(value) < 1e-4 ? "scientific" : "fixed")));
    }
    c.text = "printer leg (" + kind + "): " + tn + " = " + (target == 2 ? std::to_string(ivalue) : fmt17(value)) + " [" + magnitude + "]";
    c.hash = hashStr(c.text);
    c.nontrivial = true;
    c.cls("kind:" + kind);
    c.cls("printer:" + tn + ":" + magnitude);
    c.cls(facet ? "printer-locale:numpunct-facet" : "printer-locale:classic");
    c.text += facet ? " under a global C++ locale with decimal comma and digit grouping" : "";
    c.count("printer_round_trips");
    std::string stage = "build";
    try {
        auto m = Model::create("m");
        if (target < 2) {
            auto u = Units::create("u");
            u->addUnit("metre", "", target == 0 ? value : 1.0, target == 1 ? value : 1.0);
            m->addUnits(u);
        } else {
            auto cmp = Component::create("c");
            auto v = Variable::create("v");
            auto w = Variable::create("w");
            v->setUnits("dimensionless");
            w->setUnits("dimensionless");
            cmp->addVariable(v);
            cmp->addVariable(w);
            auto r = Reset::create();
            r->setVariable(v);
            r->setTestVariable(w);
            r->setOrder(ivalue);
            cmp->addReset(r);
            m->addComponent(cmp);
        }
        bool validatorCites = false;
        if (nonFinite) {
            // Not a number the grammar can write: the validator has to say so (then nothing is claimed about the text),
            // otherwise the library prints, from a model it calls valid, a document it rejects itself.
            stage = "Validator";
            auto validator = Validator::create();
            validator->validateModel(m);
            int cites = 0, others = 0;
            countIssues(validator, target == 0 ? Issue::ReferenceRule::UNIT_ATTRIBUTE_EXPONENT_VALUE : Issue::ReferenceRule::UNIT_ATTRIBUTE_MULTIPLIER_VALUE, cites, others);
            validatorCites = cites > 0;
            c.cls(validatorCites ? "printer-nonfinite:reported-by-validator" : "printer-nonfinite:validator-silent");
        }
        stage = "Printer";
        auto printer = Printer::create();
        std::string text = printer->printModel(m);
        if (nonFinite && validatorCites) {
            c.text += "\n(validator reports the non-finite value)\n" + text;
            return;
        }
        VP_CHECK(c, !text.empty(), "C16.printer-empty|" + tn + loc, "printModel returned an empty string; issues: " + dumpIssues(printer));
        c.text += "\n" + text;
        stage = "Parser";
        auto parser = Parser::create(true);
        ModelPtr m2 = parser->parseModel(text);
        VP_CHECK(c, m2 != nullptr, "C16.printer-reparse-null|" + tn, dumpIssues(parser));
        int ruleIssues = 0, other = 0;
        countIssues(parser, target == 0 ? Issue::ReferenceRule::UNIT_ATTRIBUTE_EXPONENT_VALUE : (target == 1 ? Issue::ReferenceRule::UNIT_ATTRIBUTE_MULTIPLIER_VALUE : Issue::ReferenceRule::RESET_ORDER_VALUE), ruleIssues, other);
        if (nonFinite) {
            VP_CHECK(c, ruleIssues == 0, "C16.nonfinite-unreported|" + tn + "|" + magnitude + loc, "the validator accepts the " + magnitude + " value silently, the printer writes it and the strict parser rejects the printed document: " + dumpIssues(parser) + "\n" + text);
        }
        VP_CHECK(c, ruleIssues == 0, "C16.printer-roundtrip|" + tn + "|" + magnitude + "|rejected-on-reparse" + loc, "the strict parser rejects the number the printer wrote: " + dumpIssues(parser) + "\n" + text);
        if (target < 2) {
            auto u = m2->units("u");
            VP_CHECK(c, u != nullptr && u->unitCount() == 1, "C16.harness|printer|units-lost", text);
            double back = target == 0 ? u->unitAttributeExponent(0) : u->unitAttributeMultiplier(0);
            VP_CHECK(c, fmt15(back) == fmt15(value), "C16.printer-roundtrip|" + tn + "|" + magnitude + "|value" + loc, "set " << fmt17(value) << ", read back " << fmt17(back) << " (15 significant digits: " << fmt15(value) << " vs " << fmt15(back) << ")\n"
                                                                                                                               << text);
        } else {
            auto cmp = m2->component("c");
            VP_CHECK(c, cmp != nullptr && cmp->resetCount() == 1, "C16.harness|printer|reset-lost", text);
            VP_CHECK(c, cmp->reset(0)->isOrderSet() && cmp->reset(0)->order() == ivalue, "C16.printer-roundtrip|" + tn + "|int|value" + loc, "set " << ivalue << ", read back " << cmp->reset(0)->order() << (cmp->reset(0)->isOrderSet() ? "" : " (unset)") << "\n"
                                                                                                                                                      << text);
        }
    } catch (const std::exception &e) {
        c.fail("C16.throw|printer-leg:" + tn + "|" + stage + "|" + typeName(e) + "|" + magnitude, typeName(e) + " escaped " + stage + " in the printer leg");
    }
}

// ------------------------------------------------------------------------------------------------ e-notation cn in context
// <cn type="e-notation">M<sep/>E</cn> as a plain operand, as the degree of a bvar, as the degree of a root, as a logbase
// and as the exponent of a power, through Parser, Validator, Analyser and (for a valid analysis) Generator. Both parts
// are fine one by one; the statement asks for the number they denote to be converted or reported as out of range.
const char *const CN_CONTEXT[5] = {"operand", "bvar-degree", "root-degree", "logbase", "power-exponent"};
const char *const CN_MANTISSA[4] = {"1", "-1", "9.9", "0"};
const char *const CN_EXPONENT[8] = {"1", "999", "308", "-400", "309", "2147483647", "0", "-2147483648"};

void cnContextCase(Case &c, int ctx, int mi, int ei)
{
    xmlKeepBlanksDefault(1);
    errno = 0;
    const std::string M = CN_MANTISSA[mi], E = CN_EXPONENT[ei], name = CN_CONTEXT[ctx];
    const std::string cn = "<cn cellml:units=\"dimensionless\" type=\"e-notation\">" + M + "<sep/>" + E + "</cn>";
    const std::string two = "<apply><eq/><ci>y</ci><cn cellml:units=\"dimensionless\">2</cn></apply>";
    std::string eq;
    switch (ctx) {
    case 0: eq = "<apply><eq/><ci>x</ci>" + cn + "</apply>"; break;
    case 1: eq = "<apply><eq/><apply><diff/><bvar><ci>t</ci><degree>" + cn + "</degree></bvar><ci>x</ci></apply><cn cellml:units=\"dimensionless\">1</cn></apply>"; break;
    case 2: eq = "<apply><eq/><ci>x</ci><apply><root/><degree>" + cn + "</degree><ci>y</ci></apply></apply>" + two; break;
    case 3: eq = "<apply><eq/><ci>x</ci><apply><log/><logbase>" + cn + "</logbase><ci>y</ci></apply></apply>" + two; break;
    default: eq = "<apply><eq/><ci>x</ci><apply><power/><ci>y</ci>" + cn + "</apply></apply>" + two; break;
    }
    const std::string doc = std::string(HDR) + " <component name=\"c\"><variable name=\"t\" units=\"dimensionless\"/><variable name=\"x\" units=\"dimensionless\"" + (ctx == 1 ? " initial_value=\"0\"" : "") + "/><variable name=\"y\" units=\"dimensionless\"/>"
                                              "<math xmlns=\"http://www.w3.org/1998/Math/MathML\" xmlns:cellml=\"http://www.cellml.org/cellml/2.0#\">"
                            + eq + "</math></component>\n</model>\n";
    const bool overflow = combinedOverflows(M, E);
    c.text = "e-notation cn " + M + " x 10^" + E + " as " + name + " (" + (overflow ? "outside double" : "inside double") + ")\n" + doc;
    c.hash = hashStr(c.text);
    c.nontrivial = true;
    c.cls("kind:cn-context");
    c.cls("cn-context:" + name + (overflow ? ":combined-overflow" : ":in-range"));
    c.count("cn_context_cases");
    std::string stage = "Parser";
    try {
        auto parser = Parser::create(true);
        ModelPtr m = parser->parseModel(doc);
        VP_CHECK(c, m != nullptr && parser->issueCount() == 0, "C16.harness|cn-context|document-not-loaded", dumpIssues(parser));
        stage = "Validator";
        auto validator = Validator::create();
        validator->validateModel(m);
        int cites = 0, others = 0;
        countIssues(validator, Issue::ReferenceRule::MATH_CN_FORMAT, cites, others);
        stage = "Analyser";
        auto analyser = Analyser::create();
        analyser->analyseModel(m);
        size_t analyserIssues = analyser->issueCount();
        bool generated = false;
        if (analyser->model() != nullptr && analyser->model()->isValid()) {
            stage = "Generator";
            auto generator = Generator::create();
            generator->setModel(analyser->model());
            generated = !generator->implementationCode().empty();
        }
        c.cls(std::string("cn-context-library:") + (cites > 0 ? "validator-reports" : (analyserIssues > 0 ? "analyser-reports" : (generated ? "code-generated" : "silent"))));
        if (overflow) {
            VP_CHECK(c, cites > 0, "C16.range-unreported|cn-context:" + name + "|combined-value",
                     M << " x 10^" << E << " is outside double; the validator cites MATH_CN_FORMAT 0 times (" << others << " other issue(s)), the analyser reports " << analyserIssues << " issue(s)" << (generated ? ", code is generated" : "") << ": " << dumpIssues(analyser));
        } else {
            VP_CHECK(c, cites == 0, "C16.false-reject|cn-context:" + name, M << " x 10^" << E << " is inside double but the validator cites MATH_CN_FORMAT: " << dumpIssues(validator));
        }
    } catch (const std::exception &e) {
        c.fail("C16.throw|cn-context:" + name + "|" + stage + "|" + typeName(e), typeName(e) + " escaped " + stage);
    }
}

// ------------------------------------------------------------------------------------------------ random tier generators
// Symbols of the long-string generator: the ten enumeration symbols first, then the other digits, then hostile symbols
// (things strtod or a locale-aware reader would take: hex marker, Fortran exponent, digit separators, comma, non-ASCII
// digits, tab). None needs XML escaping.
const std::vector<std::string> &wideAlphabet()
{
    static const std::vector<std::string> a = {"0", "1", "9", "+", "-", ".", "e", "E", " ", "a", "2", "3", "4", "5", "6", "7", "8", "x", "d", "f", ",", "_", "'", "\xd9\xa3" /* ARABIC-INDIC DIGIT THREE */, "\xef\xbc\x91" /* FULLWIDTH DIGIT ONE */, "n", "i"};
    return a;
}

std::string genDigits(Src &src, int maxLen)
{
    int n = 1 + static_cast<int>(src.below(static_cast<uint64_t>(maxLen)));
    std::string s;
    for (int k = 0; k < n; ++k) {
        s += static_cast<char>('0' + src.below(10));
    }
    return s;
}

// A string of the grammar (real or integer), built from parts.
std::string genValid(Src &src, bool integer)
{
    std::string s;
    if (integer) {
        uint64_t sg = src.below(3);
        s = sg == 1 ? "-" : (sg == 2 ? "+" : "");
        return s + genDigits(src, 12);
    }
    if (src.flip(40)) {
        s += "-";
    }
    switch (src.below(4)) {
    case 0: s += genDigits(src, 8); break;
    case 1: s += genDigits(src, 6) + "." + genDigits(src, 6); break;
    case 2: s += genDigits(src, 6) + "."; break;
    default: s += "." + genDigits(src, 6); break;
    }
    if (src.flip(50)) {
        s += src.flip(50) ? "E" : "e";
        uint64_t sg = src.below(3);
        s += sg == 1 ? "-" : (sg == 2 ? "+" : "");
        s += genDigits(src, 3);
    }
    return s;
}

std::string genNearMiss(Src &src, std::string &label)
{
    bool integer = src.flip(30);
    std::string s = genValid(src, integer);
    static const std::vector<std::string> ins = {".", "e", "E", "-", "+", " ", "a", "e5", "E-3", ",", "x", "d", "f", "_", "\xd9\xa3", "1"};
    size_t at = static_cast<size_t>(src.below(s.size() + 1));
    switch (src.below(8)) {
    case 0:
        label = "valid";
        break;
    case 1:
        label = "insert";
        s.insert(at, src.pick(ins));
        break;
    case 2:
        label = "delete";
        if (!s.empty()) {
            s.erase(std::min(at, s.size() - 1), 1);
        }
        break;
    case 3:
        label = "blank-around";
        s = (src.flip(50) ? " " : "") + s + (src.flip(50) ? " " : "");
        if (s.front() != ' ' && s.back() != ' ') {
            s = " " + s;
        }
        break;
    case 4:
        label = "sign-inside";
        s.insert(std::max<size_t>(1, at), src.flip(50) ? "-" : "+");
        break;
    case 5:
        label = "second-point-or-exponent";
        s += src.flip(50) ? "." + genDigits(src, 3) : "e" + genDigits(src, 2);
        break;
    case 6:
        label = "plus-sign";
        s = "+" + (s[0] == '-' || s[0] == '+' ? s.substr(1) : s);
        break;
    default:
        label = "digits-dropped";
        // remove every digit of the mantissa: the class of the known recogniser hole
        {
            std::string o;
            bool inExp = false;
            for (char ch : s) {
                if (ch == 'e' || ch == 'E') {
                    inExp = true;
                }
                if (inExp || ch < '0' || ch > '9') {
                    o += ch;
                }
            }
            s = o;
        }
        break;
    }
    return s;
}

std::string genExtreme(Src &src)
{
    static const std::vector<std::string> t = {"1e308", "1e309", "1e-400", "1.7976931348623157e308", "1.7976931348623159e308", "-1e309", "4.9e-324", "2e-324", "1e-308", "1e-310", "2147483647", "2147483648", "-2147483648", "-2147483649", "+2147483647", "99999999999999999999", "-99999999999999999999", "9223372036854775807", "9223372036854775808", "18446744073709551616", "0.00000000000000000000000000000000000001", "1e2147483647", "1e2147483648", "1e-2147483649", "1e99999999999999999999", "0e99999999999", "00000000000000000001", "-0", "-0.0", "1e+0", "1E-0"};
    uint64_t k = src.below(t.size() + 2);
    if (k < t.size()) {
        return t[static_cast<size_t>(k)];
    }
    // a long run of digits, optionally with a point somewhere: overflows int and, beyond 309 digits, double
    size_t n = k == t.size() ? 20 + static_cast<size_t>(src.below(20)) : 300 + static_cast<size_t>(src.below(40));
    std::string s = src.flip(30) ? "-" : "";
    for (size_t i = 0; i < n; ++i) {
        s += static_cast<char>('0' + (i == 0 ? 1 + src.below(9) : src.below(10)));
    }
    if (src.flip(30)) {
        s.insert(1 + static_cast<size_t>(src.below(s.size() - 1)), ".");
    }
    return s;
}

double genDecimal(Src &src)
{
    // up to 15 random significant digits times a decade in 1e-300 .. 1e300
    int nd = 1 + static_cast<int>(src.below(15));
    std::string m = src.flip(30) ? "-" : "";
    m += static_cast<char>('1' + src.below(9));
    if (nd > 1) {
        m += ".";
        for (int k = 1; k < nd; ++k) {
            m += static_cast<char>('0' + src.below(10));
        }
    }
    int e = src.range(0, 600);
    e = (e % 2 == 0) ? e / 2 : -(e + 1) / 2; // 0, -1, 1, -2, ... : small decades first
    m += "e" + std::to_string(e);
    return strtod(m.c_str(), nullptr);
}

// ------------------------------------------------------------------------------------------------ the predicate
void run(Src &src, Case &c)
{
    const bool ex = gMode == "ex";
    uint64_t kind = src.below(ex ? 2 : 7);
    switch (kind) {
    case 0: {
        int maxLen = ex ? std::max(gLenAttr, gLenCn) : 8;
        size_t len = static_cast<size_t>(src.below(static_cast<uint64_t>(maxLen) + 1));
        std::vector<int> sym(len);
        std::string s;
        for (size_t k = 0; k < len; ++k) {
            sym[k] = static_cast<int>(src.below(10));
            s += ALPHA10[sym[k]];
        }
        HistoryPlan h = genHistory(src, len);
        stringCase(c, "enumerated", s, ex, indexOfSymbols(sym), h);
        break;
    }
    case 1: {
        int target = static_cast<int>(src.below(4));
        if (target == 3) {
            int ctx = static_cast<int>(src.below(5));
            int mi = static_cast<int>(src.below(ex ? 2 : 4));
            int ei = static_cast<int>(src.below(ex ? 4 : 8));
            cnContextCase(c, ctx, mi, ei);
        } else if (target < 2) {
            const auto &t = printerTable();
            double v = t[static_cast<size_t>(src.below(t.size()))];
            printerCase(c, "printer-table", target, v, 0, src.below(2) == 1);
        } else {
            const auto &t = orderTable();
            int v = t[static_cast<size_t>(src.below(t.size()))];
            printerCase(c, "printer-table", target, 0.0, v, src.below(2) == 1);
        }
        break;
    }
    case 2: {
        size_t len = static_cast<size_t>(src.below(41));
        bool wide = src.flip(50);
        std::string s;
        for (size_t k = 0; k < len; ++k) {
            s += wide ? src.pick(wideAlphabet()) : std::string(1, ALPHA10[src.below(10)]);
        }
        HistoryPlan h = genHistory(src, len);
        stringCase(c, wide ? "long-wide-alphabet" : "long", s, false, 0, h);
        break;
    }
    case 3: {
        std::string label;
        std::string s = genNearMiss(src, label);
        HistoryPlan h = genHistory(src, s.size());
        stringCase(c, "near-miss:" + label, s, false, 0, h);
        break;
    }
    case 4: {
        std::string s = genExtreme(src);
        HistoryPlan h = genHistory(src, s.size());
        stringCase(c, "extreme", s, false, 0, h);
        break;
    }
    case 5: {
        int target = static_cast<int>(src.below(3));
        uint64_t hi = src.below(1ULL << 32), lo = src.below(1ULL << 32);
        if (target == 2) {
            printerCase(c, "printer-random-int", target, 0.0, static_cast<int>(static_cast<uint32_t>(hi ^ (lo << 7))), src.below(4) == 3);
            break;
        }
        uint64_t bits = (hi << 32) | lo;
        if (((bits >> 52) & 0x7ff) == 0x7ff) {
            bits &= ~(1ULL << 62); // not finite: clear one exponent bit (finite doubles only)
            c.count("printer_nonfinite_bit_patterns_made_finite");
        }
        double v;
        memcpy(&v, &bits, sizeof v);
        printerCase(c, "printer-random-bits", target, v, 0, src.below(4) == 3);
        break;
    }
    default: {
        int target = static_cast<int>(src.below(2));
        double v = genDecimal(src);
        printerCase(c, "printer-random-decimal", target, v, 0, src.below(4) == 3);
        break;
    }
    }
}

void setMode(const std::string &mode, long bound)
{
    // bound (exhaustive mode) = [B][A]C : C = maximum length in the cn positions, A = maximum length in the attribute
    // positions (default C), B = 1: cn positions batched (many cn elements per document). 5 = everything to length 5,
    // one document per string and position; 155 = the same space with batched cn documents; 54 = attributes 5, cn 4.
    gMode = mode;
    if (mode == "ex") {
        gRawBound = bound;
        gBatchCn = bound >= 100 && bound / 100 % 10 == 1;
        bound %= 100;
        if (bound >= 10) {
            gLenAttr = static_cast<int>(bound / 10);
            gLenCn = static_cast<int>(bound % 10);
        } else {
            gLenAttr = gLenCn = static_cast<int>(std::max(0L, bound));
        }
        gLenHistory = std::min(gBatchCn ? 2 : 3, std::max(gLenAttr, gLenCn));
    }
}

void extraEvidence(std::ostream &o)
{
    if (gMode == "ex") {
        o << ",\"x_exhaustive_space_bound" << gRawBound << "\":{\"max_length_attribute_positions\":" << gLenAttr << ",\"max_length_cn_positions\":" << gLenCn << ",\"strings\":" << countUpTo(std::max(gLenAttr, gLenCn))
          << ",\"string_positions\":" << (5 * countUpTo(gLenAttr) + 3 * countUpTo(gLenCn)) << ",\"alphabet_size\":10,\"cn_positions_batched\":" << (gBatchCn ? "\"yes\"" : "\"no\"") << "}";
    }
}

} // namespace

namespace vp {
Property property = {
    "C16",
    "exploration",
    "One case is one string placed in every numeric position (unit exponent, multiplier, prefix; reset order; variable initial_value; cn of type real; cn e-notation mantissa and exponent), "
    "one small CellML 2.0 document per position, run through the strict Parser and the Validator (counter string_position_evaluations = strings x positions; 'evaluations' counts strings and printer round trips). "
    "Exhaustive stage: every string of length 0..L over the 10 symbols {0,1,9,+,-,.,e,E,blank,a} (x_exhaustive_space_bound<b> records L per position group and whether cn elements shared MathML blocks), plus a table of numbers through the printer. "
    "Random stage: strings up to 40 symbols (also all ten digits, hex/Fortran/locale/non-ASCII-digit symbols), near-misses of valid numbers (one insertion, deletion, extra point/exponent, inner sign, blanks around, plus sign, mantissa digits removed), "
    "extreme magnitudes, and finite doubles / ints (random bit patterns, random 1..15-digit decimals in 1e-300..1e300) set through the API as exponent / multiplier / order, printed, re-parsed strictly and compared to 15 significant digits. "
    "An e-notation cn is judged by the number it denotes (significand x 10^exponent outside double must be reported), also as operand, bvar degree, root degree, logbase and power exponent through Parser, Validator, Analyser, Generator (kind cn-context). "
    "The printer leg includes infinite and NaN exponents/multipliers (the validator must report them, else the printed document must re-parse) and printing while the global C++ locale has a decimal comma and digit grouping (numpunct facet). "
    "History: a string case may carry a history drawn from its own tape: 1..3 other documents / API models with underflowing, overflowing or beyond-int numeric texts go through Parser, Validator, Printer, Analyser, Generator first in the same process "
    "(range-error-before), or the placement's own document also contains such a text (same-document-range-error); the placements are then observed again and must agree with the fresh-state observation (errno cleared before every document) and with the reference. "
    "The exhaustive stage enumerates every string up to length 2 (3 when unbatched) with each of six histories and three same-document variants; every random-tier case is observed in a forked child so that no case inherits process state from an earlier one. "
    "Oracle: two POSIX regular expressions written from the statement plus strtod/strtoll (ERANGE = out of range); cn text is judged after blank stripping, attributes are not; exceptions are caught in the harness and are failures. "
    "Non-trivial: the string is neither empty nor all digits (every printer round trip is non-trivial). Distinct = hash of the string (or of the printer case text).",
    run,
    setMode,
    {"C locale (std::stod honours the C locale; the driver sets LC_ALL=C)", "libxml2 2.13.9 as linked by the baseline build",
     "cn text that is a real with an exponent part (not a basic real) is not judged in either direction: the code follows the specification (exponent only behind sep), the statement says 'cn content'",
     "strtod's ERANGE is the definition of 'out of range' for double: underflowing text may be either reported or converted to the nearest tiny double"},
    nullptr,
    extraEvidence,
};
}
